"""C38 — Writer renamings are valid, injective and invertible.

Theorems: coq/theories/Props/C38.v about coq/theories/Model/Names.v instantiated with the tables of
coq/theories/Gen/Gen_Keywords.v, which tools/gen_keywords.py regenerates from the current pddl_writer.py /
anml_writer.py on every run (translator tie; second reading by importing the modules).
Correspondence: adversarial identifier sets (case variants, keywords, symbols, leading digits, names equal to the
mangled forms of other names, prefixes of one another, names shared across kinds with error_used_name disabled) are
put into real Problems; the real PDDLWriter / ANMLWriter are run (whole get_domain()/get_problem() runs with every
_get_mangled_name / _get_anml_name call recorded, and direct request sequences in random order with repeats and
foreign items); Coq replays each history in the model and compares every name, both dictionaries and the lookups.
Independent oracle (Python, from the property text): validity regex of the target language, keyword sets, injectivity
(case-insensitive for PDDL, and after tokenisation: white space is not part of a token), get_pddl_name /
get_item_named mutually inverse, names present in the emitted text.  The search through the real writers does not depend
on the translator: when it fails closed the last generated tables + the pinned snapshot are used and the smallest failing
input found is attached to the translator failure.  White-space family (ws_specs): every problem also has elements of
every kind whose names differ from identifiers only by white space / control characters, with colliding twins; the
non-ASCII separators are judged by the oracle only (outside the model's ASCII scope).
"""
import fcntl
import hashlib
import json
import os
import re
import subprocess
import sys

from harness.core import gn, gbool, glist, gopt, gpair, VERIF, COQ, BUILD, REPO, sh

META = {
    "level": "proof",
    "technique": "Coq proofs (invariants over every history of name requests; pigeonhole for loop termination) over a "
                 "model whose tables are regenerated from source by an ast translator + model/implementation "
                 "correspondence by vm_compute + independent Python oracle",
    "text": "Validity (regex character classes), keyword avoidance, injectivity (also ignoring case for PDDL) and mutual "
            "inverse of the item->name / name->item lookups are theorems for all finite request histories about a Gallina "
            "model of _get_pddl_name/_get_mangled_name/get_item_named/get_pddl_name and "
            "_is_valid_anml_name/_get_anml_valid_name/_get_anml_name + the pre-fill loops; keyword sets, INITIAL_LETTER and "
            "regexes come from the current source through tools/gen_keywords.py.",
    "note": "No axioms (Print Assumptions: closed under the global context). Scope: ASCII names (Python str.lower()/re on "
            "non-ASCII text is outside the model); the problem is not edited while a writer lives (has_name is a fixed set); "
            "rendered bounded int/real type names of ANML are not named elements and are not modelled. Trusted: Coq "
            "kernel/vm_compute, the translator's regex subset reader (cross-checked against Python's re on all ASCII "
            "characters), harness serialiser, the harness's reproduction of the ANML pre-fill order.",
}

IMPORTS = ["UPV.Gen.Gen_Keywords", "UPV.Model.Names", "UPV.Corr.Corr_C38"]
MY_FILES = ["theories/Gen/Gen_Keywords.v", "theories/Model/Names.v", "theories/Proofs/Names_proofs.v",
            "theories/Props/C38.v", "theories/Corr/Corr_C38.v"]

# hand-modelled functions: sha256 of their AST dump when Model/Names.v was last revised (drift is reported, not failed)
MODELLED = {
    "pddl_writer.py": ["_get_mangled_name", "get_item_named", "get_pddl_name", "_get_pddl_name"],
    "anml_writer.py": ["_get_anml_name", "_get_anml_valid_name", "_is_valid_anml_name"],
}
MODELLED_SHA = {
    "pddl_writer.py:_get_mangled_name": "f09b9252b96dc516",
    "pddl_writer.py:get_item_named": "00222aee056bfe68",
    "pddl_writer.py:get_pddl_name": "d23fe176cd3776f0",
    "pddl_writer.py:_get_pddl_name": "0c410c1c4b1116dc",
    "anml_writer.py:_get_anml_name": "671f4fa4158ab79b",
    "anml_writer.py:_get_anml_valid_name": "caecc1674655e1b6",
    "anml_writer.py:_is_valid_anml_name": "eec6e266cd52bae4",
}


# Reference snapshot of the reserved words (taken from the writers when this check was written).  The theorems say
# "never a keyword" relative to the tables the source declares NOW; the oracle additionally insists that no reserved
# word of this snapshot is emitted as a name, so that dropping a keyword from a table is reported (adding is fine).
PINNED_KEYWORDS = {
    "GENERAL_PDDL_KEYWORDS": ["action", "adl", "and", "assign", "conditional-effects", "constants", "contingent", "continuous-effects", "decrease", "define", "derived", "derived-predicates", "disjunctive-preconditions", "domain", "durative-actions", "effect", "either", "equality", "existential-preconditions", "exists", "fluents", "forall", "goal", "imply", "increase", "init", "maximize", "metric", "minimize", "negative-preconditions", "not", "number", "objects", "or", "parameters", "precondition", "predicates", "problem", "quantified-preconditions", "requirements", "scale-down", "scale-up", "strips", "time", "timed-initial-effects", "timed-initial-literals", "total-cost", "total-time", "types", "typing", "universal-preconditions", "when"],
    "TEMPORAL_PDDL_KEYWORDS": ["all", "at", "condition", "duration", "durative-action", "end", "over", "start"],
    "PDDL3_KEYWORDS": ["always", "always-within", "at-most-once", "constraints", "hold-after", "hold-during", "is-violated", "preference", "preferences", "sometime", "sometime-after", "sometime-before", "within"],
    "PDDL_PLUS_KEYWORDS": ["event", "process"],
    "CONTINGENT_PDDL_KEYWORDS": ["observe", "oneof", "unknown"],
    "ANML_KEYWORDS": ["UNDEFINED", "action", "all", "and", "boolean", "coincident", "comprise", "comprises", "constant", "contain", "contains", "decomposition", "duration", "else", "elt", "end", "exists", "fact", "false", "float", "fluent", "forall", "function", "goal", "iff", "implies", "in", "infinity", "instance", "integer", "intersect", "motivated", "not", "object", "or", "ordered", "powerset", "predicate", "rational", "set", "start", "string", "subset", "symbol", "true", "type", "union", "unordered", "use", "variable", "when", "with", "xor"],
}

# ------------------------------------------------------------------------------------------------ plumbing
def ensure_makefile():
    """The Makefile only knows the .v files listed when it was generated; register ours if needed (under the build lock)."""
    conf = os.path.join(COQ, "Makefile.conf")
    try:
        txt = open(conf).read()
    except OSError:
        return
    if all(f in txt for f in MY_FILES):
        return
    os.makedirs(BUILD, exist_ok=True)
    with open(os.path.join(BUILD, ".make.lock"), "w") as lk:
        fcntl.flock(lk, fcntl.LOCK_EX)
        vs = []
        for root, _, files in os.walk(os.path.join(COQ, "theories")):
            for f in files:
                if f.endswith(".v"):
                    vs.append(os.path.relpath(os.path.join(root, f), COQ))
        lines = ["-Q theories UPV",
                 "-arg -w -arg -notation-overridden,-deprecated-hint-without-locality,-deprecated-instance-without-locality"]
        with open(os.path.join(COQ, "_CoqProject"), "w") as f:
            f.write("\n".join(lines + sorted(vs)) + "\n")
        sh(["coq_makefile", "-f", "_CoqProject", "-o", "Makefile"], cwd=COQ, timeout=120)
        fcntl.flock(lk, fcntl.LOCK_UN)


def run_translator():
    env = dict(os.environ)
    env["UP_REPO"] = REPO
    p = subprocess.run([sys.executable, "-W", "ignore", os.path.join(VERIF, "tools", "gen_keywords.py"), "--json"],
                       stdout=subprocess.PIPE, stderr=subprocess.PIPE, text=True, env=env, timeout=120)
    data = None
    if p.returncode == 0:
        for line in p.stdout.splitlines():
            if line.startswith("{"):
                data = json.loads(line)
    return p.returncode, (p.stdout + p.stderr)[-2000:], data


def ast_hashes():
    import ast
    out = {}
    for fname, fns in MODELLED.items():
        try:
            tree = ast.parse(open(os.path.join(REPO, "unified_planning", "io", fname)).read())
        except (OSError, SyntaxError):
            continue
        for n in ast.walk(tree):
            if isinstance(n, ast.FunctionDef) and n.name in fns:
                out["%s:%s" % (fname, n.name)] = hashlib.sha256(ast.dump(n).encode()).hexdigest()[:16]
    return out


def fallback_tables():
    """Keyword tables parsed from the last generated Gen file (used only when the translator failed closed)."""
    txt = open(os.path.join(COQ, "theories", "Gen", "Gen_Keywords.v")).read()
    out = {}
    names = {"GENERAL_PDDL_KEYWORDS": "pddl_general_keywords", "TEMPORAL_PDDL_KEYWORDS": "pddl_temporal_keywords",
             "PDDL3_KEYWORDS": "pddl3_keywords", "PDDL_PLUS_KEYWORDS": "pddl_plus_keywords",
             "CONTINGENT_PDDL_KEYWORDS": "pddl_contingent_keywords", "ANML_KEYWORDS": "anml_keywords"}
    for k, v in names.items():
        m = re.search(r"Definition %s : list string :=\s*\[(.*?)\]\." % v, txt, re.S)
        out[k] = re.findall(r'"([^"]*)"', m.group(1)) if m else []
    return out


# ------------------------------------------------------------------------------------------------ Gallina literals
def gs(s):
    if all(32 <= ord(c) < 127 for c in s):
        return '"%s"%%string' % s.replace('"', '""')
    assert all(ord(c) < 256 for c in s), s
    return "(sx [%s])" % "; ".join("%d%%N" % ord(c) for c in s)


def gitem(it):
    return "(mk_item %s %s %s)" % (gs(it[0]), gn(it[1]), gs(it[2]))


# ------------------------------------------------------------------------------------------------ names
LETTERS = "aAbBxXyo"
DIGITS = "019"
SYMS = " -_+?.$'\"#()/"
RARE = "\t\n"


def rand_name(rng, maxlen=4):
    n = rng.choice([0, 1, 1, 2, 2, 2, 3, 3, maxlen])
    out = []
    for _ in range(n):
        r = rng.random()
        if r < 0.55:
            out.append(rng.choice(LETTERS))
        elif r < 0.70:
            out.append(rng.choice(DIGITS))
        elif r < 0.97:
            out.append(rng.choice(SYMS))
        else:
            out.append(rng.choice(RARE))
    return "".join(out)


def mangle_like(s, keep_dash, lower):
    if lower:
        s = s.lower()
    return re.sub("[^0-9a-zA-Z_-]" if keep_dash else "[^0-9a-zA-Z_]", "_", s)


def variants(rng, base, kw_pool):
    """Names adversarially related to `base`."""
    k = rng.randrange(22)
    if k == 0:
        return base.upper()
    if k == 1:
        return base.lower()
    if k == 2:
        return base.swapcase()
    if k == 3:
        return base.capitalize()
    if k == 4:
        return base + "_"
    if k == 5:
        return base + "_%d" % rng.choice([0, 0, 1, 2, 10])
    if k == 6:
        return rng.choice(["o_", "x_", "f_", "a_", "p_"]) + base
    if k == 7:
        return mangle_like(base, True, True)
    if k == 8:
        return mangle_like(base, False, False)
    if k == 9:
        return base[:-1]
    if k == 10:
        return base + rng.choice(LETTERS + DIGITS + SYMS)
    if k == 11:
        return rng.choice(DIGITS) + base
    if k == 12:
        return "?" + base
    if k == 13:
        return rng.choice(kw_pool)
    if k == 14:
        return rng.choice(kw_pool).upper()
    if k == 15:
        return rng.choice(kw_pool) + "_"
    if k == 16:
        return rng.choice(kw_pool).capitalize()
    if k == 17:
        return mangle_like(rng.choice(["o_", "x_", "f_", "a_", "p_"]) + base, True, True)
    if k == 18:
        return mangle_like(base, True, True) + "_0"
    if k == 19:
        return base.replace("_", rng.choice(" -+"))
    if k == 20:
        return rng.choice(["object", "Object", "object_", "duration", "x", "x_", "x__0"])
    return rand_name(rng)


def name_pool(rng, n, kw_pool, maxlen):
    seeds = [rand_name(rng, maxlen) for _ in range(2)] + [rng.choice(kw_pool)]
    names = []
    seen = set()
    tries = 0
    while len(names) < n and tries < 50 * n:
        tries += 1
        base = rng.choice(seeds + names)
        v = variants(rng, base, kw_pool)
        if len(v) > maxlen + 6 or v in seen:
            continue
        seen.add(v)
        names.append(v)
    while len(names) < n:
        v = "n%d" % len(names)
        if v not in seen:
            seen.add(v)
            names.append(v)
    return names


# ------------------------------------------------------------------------------------------------ white-space family
# Names that differ from a valid identifier only by white space / control characters (str.isspace() characters: what a
# reader of the written text skips between tokens).  "depot\n" is NOT an identifier; whatever the writer chooses for it
# must be one, and must differ from the names chosen for "depot", "depot_", "depot\r" ...
WS_ASCII = ["\n", "\r", "\t", " ", "\x0b", "\x0c", "\x1c", "\x1d", "\x1e", "\x1f", "\r\n"]
WS_WIDE = ["\x85", "\xa0", "\u2028", "\u2029"]          # outside the (ASCII) Coq model: judged by the oracle only
WS_SHAPES = ["trail", "lead", "embed", "trail2", "both", "only", "empty", "only2"]
WS_KINDS = ["type", "fluent", "action", "object", "parameter", "variable"]


def ws_shape(base, ws, shape, ws2):
    if shape == "trail":
        return base + ws
    if shape == "lead":
        return ws + base
    if shape == "embed":
        k = max(1, len(base) // 2)
        return base[:k] + ws + base[k:]
    if shape == "trail2":
        return base + ws + ws2
    if shape == "both":
        return ws2 + base + ws
    if shape == "only":
        return ws
    if shape == "only2":
        return ws + ws2
    return ""


def ws_specs(rng, k, kw_pool, existing, chars):
    """[(kind, name)]: names of the family for problem number k, each followed by its twins (names whose cleaned /
    mangled / tokenised forms coincide with it).  The first name follows a schedule (every character x shape x kind
    comes up), the others are random with a bias to a single trailing line break."""
    idents = [n for n in existing if re.fullmatch(r"[A-Za-z][A-Za-z0-9_]*", n)]
    specs = []
    for j in range(2):
        if j == 0:
            ws = chars[k % len(chars)]
            shape = WS_SHAPES[(k // len(chars)) % len(WS_SHAPES)]
        else:
            ws = "\n" if (rng.random() < 0.4 and "\n" in chars) else rng.choice(chars)
            shape = "trail" if rng.random() < 0.45 else rng.choice(WS_SHAPES)
        ws2 = ws if rng.random() < 0.5 else rng.choice(chars)
        r = rng.random()
        if r < 0.35 and idents:
            base = rng.choice(idents)                      # twin of an element the problem already has
        elif r < 0.55:
            base = rng.choice(kw_pool)                     # "and\n", "Action\t": must not come out as the keyword
            base = rng.choice([base, base.capitalize(), base.upper()])
        else:
            base = rng.choice(["depot", "Depot", "d", "x", "o", "b_1", "B", "aB", "x_", "o_0"])
        name = ws_shape(base, ws, shape, ws2)
        kind = WS_KINDS[(k + j) % len(WS_KINDS)] if j == 0 else rng.choice(WS_KINDS)
        specs.append((kind, name))
        twins = []
        if base not in existing:
            twins.append(base)
        other = rng.choice(chars)
        twins.append(rng.choice([ws_shape(base, other, shape, ws2),          # "depot\r" next to "depot\n"
                                 mangle_like(name, False, False),            # "depot_"
                                 mangle_like(name, True, True),
                                 mangle_like(name, False, False) + "_0",
                                 "".join(name.split()),                      # the token a reader sees
                                 base + "_", "o_" + base, name.lower(), name.upper()]))
        for t in twins:
            specs.append((kind if rng.random() < 0.5 else rng.choice(WS_KINDS), t))
    out, seen = [], set()
    for kind, n in specs:
        if (kind, n) not in seen:
            seen.add((kind, n))
            out.append((kind, n))
    return out


def add_ws_elements(rng, b, specs):
    """Adds one element of the requested kind per name to the built problem (extra types with one object each, fluents,
    actions, objects, parameters of an extra action, quantifier variables).  A name the problem refuses (already used and
    error_used_name set) is left out."""
    import unified_planning as up
    from unified_planning.model import Object, Fluent, InstantaneousAction, Variable
    p, env = b.p, b.env
    tm, em = env.type_manager, env.expression_manager
    f0 = p.fluents[0]
    t0 = b.types[0]
    probe = None                                            # unary fluent for the quantifier variables
    placed = []
    fresh = [0]

    def fresh_name(prefix):
        while True:
            fresh[0] += 1
            n = "%s%d" % (prefix, fresh[0])
            if not p.has_name(n):
                return n

    params, variables = [], []
    for kind, name in specs:
        try:
            if kind == "type":
                # add_object registers the object before the type: a refused type would leave an orphan object
                if any(t.name == name for t in p.user_types) or (p.has_name(name) and env.error_used_name):
                    continue
                t = tm.UserType(name, rng.choice(b.types) if (b.types and rng.random() < 0.3 and
                                                                any(x.father is not None for x in b.types)) else None)
                p.add_object(Object(fresh_name("wo"), t, env))
                if t not in p.user_types:
                    continue
                b.types.append(t)
            elif kind == "fluent":
                fl = Fluent(name, tm.BoolType(), environment=env)
                p.add_fluent(fl, default_initial_value=False)
            elif kind == "action":
                a = InstantaneousAction(name, _env=env)
                a.add_effect(f0(), True)
                p.add_action(a)
            elif kind == "object":
                p.add_object(Object(name, rng.choice(b.types), env))
            elif kind == "parameter":
                if name in params:
                    continue
                params.append(name)
            else:
                variables.append(name)
            placed.append((kind, name))
        except Exception:
            if kind in ("parameter", "variable"):
                raise
            continue
    if params or variables:
        try:
            a = InstantaneousAction(fresh_name("wa"), _parameters=dict((x, rng.choice(b.types)) for x in params), _env=env)
            a.add_effect(f0(), True)
            if variables:
                probe = Fluent(fresh_name("wf"), tm.BoolType(), _signature=[up.model.Parameter(rng.choice(params + ["q"]), t0, env)],
                               environment=env)
                p.add_fluent(probe, default_initial_value=False)
                for vn in variables:
                    v = Variable(vn, t0, env)
                    body = em.FluentExp(probe, [em.VariableExp(v)])
                    a.add_precondition(em.Exists(body, v) if rng.random() < 0.5 else em.Forall(body, v))
            p.add_action(a)
        except Exception:
            placed = [x for x in placed if x[0] not in ("parameter", "variable")]
    return placed


# ------------------------------------------------------------------------------------------------ problems
class Built:
    pass


PROFILES = [(), ("events",), ("processes",), ("events", "processes"), ("durative_actions",), ("trajectory_constraints",),
            ("contingent",), None]      # None: a random combination
COND_TABLES = ("PDDL_PLUS_KEYWORDS", "TEMPORAL_PDDL_KEYWORDS", "PDDL3_KEYWORDS", "CONTINGENT_PDDL_KEYWORDS")


def keyword_variants(rng, profile, k):
    """Names spelled exactly like the conditionally reserved words (in several case variants), biased to the tables
    that the profile switches on / leaves off."""
    words = []
    want = {"events": "PDDL_PLUS_KEYWORDS", "processes": "PDDL_PLUS_KEYWORDS", "durative_actions": "TEMPORAL_PDDL_KEYWORDS",
            "trajectory_constraints": "PDDL3_KEYWORDS", "contingent": "CONTINGENT_PDDL_KEYWORDS"}
    on = sorted(set(want[f] for f in profile))
    for _ in range(k):
        t = rng.choice(on) if (on and rng.random() < 0.7) else rng.choice(COND_TABLES)
        w = rng.choice(PINNED_KEYWORDS[t])
        words.append(rng.choice([w, w, w.upper(), w.capitalize(), w.swapcase() if len(w) < 6 else w.title()]))
    out = []
    for w in words:
        if w not in out:
            out.append(w)
    return out


def build_problem(rng, kw_pool, thorough, profile=(), ws_chars=None, index=0):
    """A small problem whose identifiers come from one adversarial pool.  `profile` lists the problem features that
    decide which conditional keyword tables apply (events, processes, durative_actions, trajectory_constraints,
    contingent); some elements are named exactly like conditionally reserved words."""
    import unified_planning as up
    from unified_planning.model import (Problem, Object, Fluent, InstantaneousAction, DurativeAction, Variable, EndTiming,
                                        Process, Event)
    from unified_planning.model.contingent import ContingentProblem, SensingAction
    env = up.environment.Environment()
    env.credits_stream = None
    shared = rng.random() < 0.25            # error_used_name disabled: kinds may share names
    if shared:
        env.error_used_name = False
    tm, em = env.type_manager, env.expression_manager
    maxlen = 6 if thorough else 4
    n_types = rng.randint(1, 3)
    n_objs = rng.randint(2, 6 if thorough else 4)
    n_fl = rng.randint(2, 3)
    n_act = rng.randint(1, 2)
    temporal = "durative_actions" in profile
    n_extra = 4                             # durative action, event, process, sensing action
    total = n_types + n_objs + n_fl + n_act + n_extra
    forced = keyword_variants(rng, profile, rng.randint(2, 4))
    pool = forced + [x for x in name_pool(rng, total + 6, kw_pool, maxlen) if x not in forced]
    if shared:
        def draw(k):
            return rng.sample(pool[:max(k, total // 2)], k)
        tnames, onames, fnames, anames = draw(n_types), draw(n_objs), draw(n_fl), draw(n_act + n_extra)
    else:
        rest = rng.sample(pool[len(forced):], total - len(forced))
        # the reserved-word look-alikes always become elements (objects first, then fluents, actions, types)
        onames = forced[:n_objs] + rest[:max(0, n_objs - len(forced))]
        rest = forced[n_objs:] + rest[max(0, n_objs - len(forced)):]
        rng.shuffle(onames)
        fnames, rest = rest[:n_fl], rest[n_fl:]
        anames, rest = rest[:n_act + n_extra], rest[n_act + n_extra:]
        tnames = rest[:n_types]
    pname = rng.choice([None, rng.choice(pool), rand_name(rng), rng.choice(kw_pool)])
    p = (ContingentProblem if "contingent" in profile else Problem)(pname, env)
    types = []
    hier = rng.random() < 0.5
    for i, tn in enumerate(tnames):
        father = rng.choice(types) if (hier and types and rng.random() < 0.7) else None
        types.append(tm.UserType(tn, father))
    for on in onames:
        p.add_object(Object(on, rng.choice(types), env))
    fluents = []
    f0 = None
    for i, fn in enumerate(fnames):
        if i == 0:
            fl = Fluent(fn, tm.BoolType(), environment=env)
            f0 = fl
        else:
            k = rng.randint(1, 2)
            pn = rng.sample(pool, k)
            typ = rng.choice([tm.BoolType(), tm.BoolType(), tm.IntType(0, 5), tm.IntType(), tm.RealType()])
            fl = Fluent(fn, typ, _signature=[up.model.Parameter(x, rng.choice(types), env) for x in pn], environment=env)
        fluents.append(fl)
        p.add_fluent(fl, default_initial_value=(False if fl.type.is_bool_type() else 0))
    unary = [f for f in fluents if f.arity == 1 and f.type.is_bool_type()]

    def params(k):
        return dict((x, rng.choice(types)) for x in rng.sample(pool, k))

    for i in range(n_act):
        a = InstantaneousAction(anames[i], _parameters=params(rng.randint(0, 3)), _env=env)
        a.add_effect(f0(), True)
        if unary and rng.random() < 0.6:
            f = rng.choice(unary)
            v = Variable(rng.choice(pool), f.signature[0].type, env)
            body = em.FluentExp(f, [em.VariableExp(v)])
            a.add_precondition(em.Exists(body, v) if rng.random() < 0.5 else em.Forall(body, v))
        for prm in a.parameters:
            cand = [f for f in unary if f.signature[0].type == prm.type]
            if cand and rng.random() < 0.5:
                a.add_effect(rng.choice(cand)(prm), True)
        p.add_action(a)
    if temporal:
        d = DurativeAction(anames[n_act], _parameters=params(rng.randint(0, 2)), _env=env)
        d.set_fixed_duration(1)
        d.add_effect(EndTiming(), f0(), False)
        p.add_action(d)
    if "events" in profile:
        e = Event(anames[n_act + 1], _parameters=params(rng.randint(0, 2)), _env=env)
        e.add_precondition(f0())
        e.add_effect(f0(), False)
        p.add_event(e)
    if "processes" in profile:
        r = Fluent("r_%d" % rng.randrange(1000), tm.RealType(), environment=env)
        p.add_fluent(r, default_initial_value=0)
        pr = Process(anames[n_act + 2], _parameters=params(rng.randint(0, 1)), _env=env)
        pr.add_precondition(f0())
        pr.add_increase_continuous_effect(r(), 1)
        p.add_process(pr)
    if "contingent" in profile:
        sa = SensingAction(anames[n_act + 3], _parameters=params(rng.randint(0, 1)), _env=env)
        sa.add_observed_fluent(f0())
        p.add_action(sa)
    if "trajectory_constraints" in profile:
        p.add_trajectory_constraint(em.Sometime(f0()))
    p.add_goal(f0())
    b = Built()
    b.p, b.env, b.pool, b.types, b.shared, b.temporal = p, env, pool, types, shared, temporal
    b.profile, b.forced = tuple(sorted(profile)), forced
    b.ws = []
    if ws_chars:
        # white-space family: elements of every kind whose names differ from identifiers only by white space / control
        # characters, next to twins with the same cleaned name
        b.ws = add_ws_elements(rng, b, ws_specs(rng, index, kw_pool, problem_names(p), ws_chars))
        b.pool = pool + [n for _, n in b.ws if n not in pool]
    return b


def problem_features(p):
    """The features PDDLWriter.__init__ may look at, computed from the Problem by the harness."""
    import unified_planning as up
    from unified_planning.model.contingent import ContingentProblem
    f = []
    if len(p.processes) > 0:
        f.append("processes")
    if len(p.events) > 0:
        f.append("events")
    if len(p.trajectory_constraints) > 0:
        f.append("trajectory_constraints")
    if any(isinstance(a, up.model.DurativeAction) for a in p.actions):
        f.append("durative_actions")
    if isinstance(p, ContingentProblem):
        f.append("contingent")
    return f


def problem_names(p):
    from typing import cast
    return ([a.name for a in p.actions] + [f.name for f in p.fluents] + [o.name for o in p.all_objects]
            + [t.name for t in p.user_types])


class Ids:
    """item -> (class name, identity number, name); identity = Python dictionary-key equality."""

    def __init__(self):
        self.d = {}

    def __call__(self, item):
        cls = type(item).__name__
        if cls in ("_BoolType", "_IntType", "_RealType"):
            if cls == "_BoolType" or (item.lower_bound is None and item.upper_bound is None):
                return (cls, 0, "")
            return None                      # bounded numeric type: rendered range, not modelled
        n = self.d.setdefault(item, len(self.d) + 1)
        return (cls, n, item.name if item.name is not None else "")


def foreign_items(rng, b, k):
    """Items that are not part of the problem (objects, parameters, variables with adversarial names)."""
    import unified_planning as up
    out = []
    for _ in range(k):
        nm = rng.choice(b.pool + problem_names(b.p)) if rng.random() < 0.8 else rand_name(rng)
        t = rng.choice(b.types)
        c = rng.randrange(4)
        if c == 0:
            out.append(up.model.Object(nm, t, b.env))
        elif c == 1:
            out.append(up.model.Parameter(nm, t, b.env))
        elif c == 2:
            out.append(up.model.Variable(nm, t, b.env))
        else:
            out.append(b.env.type_manager.UserType(nm))
    return out


def all_items(b):
    p = b.p
    items = list(p.user_types) + list(p.fluents) + list(p.actions) + list(p.all_objects)
    for f in p.fluents:
        items += list(f.signature)
    for a in list(p.actions) + list(p.processes) + list(p.events):
        items += list(a.parameters)
    items += list(p.processes) + list(p.events)
    return items


# ------------------------------------------------------------------------------------------------ the oracle
PDDL_ID = re.compile(r"[a-zA-Z][a-zA-Z0-9_-]*")
ANML_ID = re.compile(r"[a-zA-Z][a-zA-Z0-9_]*")


# A wrong answer of a helper on a probe (no element of a problem was given a wrong name by it in that case) is reported,
# but it is not by itself a failing input of the property: only wrongly chosen names are.
HELPER = "helper: "


def split_bad(bad):
    prop = [m for m in bad if not m.startswith(HELPER)]
    return prop + [m for m in bad if m.startswith(HELPER)], bool(prop)


def token_form(name, fold_case):
    """What a reader of the written text sees of a name: white space separates tokens and is not part of them; PDDL
    does not distinguish case."""
    t = " ".join(name.split())
    return t.lower() if fold_case else t


def describe(item):
    return "%s %r" % (type(item).__name__, getattr(item, "name", None))


def failure_tags(bad, names=()):
    """Narrow tags for an oracle failure: which clause of the property, and whether a name of the white-space family /
    the empty name is involved."""
    tags = []
    text = " ".join(bad)
    for key, tag in (("is not a", "not-identifier"), ("keyword", "keyword"), ("names two different", "not-injective"),
                     ("same token", "token-clash"), ("not inverse", "lookup"), ("lookup raised", "lookup"),
                     ("not invertible", "not-injective"), ("does not occur", "output-text"), ("declared", "output-text"),
                     ("_is_valid_anml_name", "is-valid"), ("lacks '?'", "not-identifier")):
        if key in text and tag not in tags:
            tags.append(tag)
    inv = [n for n in names if isinstance(n, str) and repr(n) in text]
    if any(n == "" for n in inv):
        tags.append("empty-name")
    if any(n != "".join(n.split()) for n in inv):
        tags.append("ws-name")
        if any(n != n.rstrip() and n.rstrip() == "".join(n.split()) and n.rstrip() for n in inv):
            tags.append("ws-trailing")
        if any(re.fullmatch(r"[A-Za-z][A-Za-z0-9_]*\n", n) for n in inv):
            tags.append("ws-trailing-single-newline")
    return tags


def expected_pddl_keywords(p, T):
    import unified_planning as up
    from unified_planning.model.contingent import ContingentProblem
    def tab(t):
        return set(T.get(t, [])) | set(PINNED_KEYWORDS[t])
    k = tab("GENERAL_PDDL_KEYWORDS")
    if len(p.processes) > 0 or len(p.events) > 0:
        k |= tab("PDDL_PLUS_KEYWORDS")
    if len(p.trajectory_constraints) > 0:
        k |= tab("PDDL3_KEYWORDS")
    if any(isinstance(a, up.model.DurativeAction) for a in p.actions):
        k |= tab("TEMPORAL_PDDL_KEYWORDS")
    if isinstance(p, ContingentProblem):
        k |= tab("CONTINGENT_PDDL_KEYWORDS")
    return k


def oracle_pddl(w, p, T):
    """Property C38 on the implementation, from the text: valid, not keyword, injective, inverse lookups."""
    from unified_planning.exceptions import UPException
    bad = []
    kws = expected_pddl_keywords(p, T)
    seen = {}
    toks = {}
    for item, name in w.otn_renamings.items():
        cls = type(item).__name__
        body = name
        if cls in ("Parameter", "Variable"):
            if not name.startswith("?"):
                bad.append("variable name %r lacks '?'" % name)
            body = name[1:]
        if not isinstance(body, str) or PDDL_ID.fullmatch(body) is None:
            bad.append("%r (chosen for %s) is not a PDDL identifier" % (name, describe(item)))
        if body.lower() in kws or name.lower() in kws:
            bad.append("%r (chosen for %s) is a PDDL keyword" % (name, describe(item)))
        low = name.lower()
        if low in seen and not (seen[low] == item):
            bad.append("%r names two different items (%s and %s)" % (name, describe(seen[low]), describe(item)))
        seen[low] = item
        tok = token_form(name, True)
        if tok in toks and not (toks[tok][0] == item) and toks[tok][1].lower() != low:
            bad.append("%r (chosen for %s) and %r (chosen for %s) are the same token %r in PDDL text" % (
                name, describe(item), toks[tok][1], describe(toks[tok][0]), tok))
        toks.setdefault(tok, (item, name))
        try:
            if not (w.get_item_named(name) == item) or w.get_pddl_name(item) != name:
                bad.append("lookups are not inverse at %r" % name)
        except UPException:
            bad.append("lookup raised for %r" % name)
    for name, item in w.nto_renamings.items():
        try:
            if w.get_pddl_name(item) != name or not (w.get_item_named(name) == item):
                bad.append("lookups are not inverse at %r (nto side)" % name)
        except UPException:
            bad.append("lookup raised for %r (nto side)" % name)
    if len(w.otn_renamings) != len(w.nto_renamings):
        bad.append("dictionaries have different sizes")
    return bad


def oracle_anml(mapping, T):
    bad = []
    seen = {}
    toks = {}
    for item, name in mapping.items():
        cls = type(item).__name__
        if cls in ("_BoolType", "_IntType", "_RealType"):
            continue
        if not isinstance(name, str) or ANML_ID.fullmatch(name) is None:
            bad.append("%r (chosen for %s) is not an ANML identifier" % (name, describe(item)))
            if not isinstance(name, str):
                continue
        tok = token_form(name, False)
        if name in T["ANML_KEYWORDS"] or name in PINNED_KEYWORDS["ANML_KEYWORDS"]:
            bad.append("%r (chosen for %s) is an ANML keyword" % (name, describe(item)))
        elif tok in T["ANML_KEYWORDS"] or tok in PINNED_KEYWORDS["ANML_KEYWORDS"]:
            bad.append("%r (chosen for %s) reads as the ANML keyword %r" % (name, describe(item), tok))
        if name in seen and not (seen[name] == item):
            bad.append("%r names two different items (%s and %s)" % (name, describe(seen[name]), describe(item)))
        seen[name] = item
        if tok in toks and not (toks[tok][0] == item) and toks[tok][1] != name:
            bad.append("%r (chosen for %s) and %r (chosen for %s) are the same token %r in ANML text" % (
                name, describe(item), toks[tok][1], describe(toks[tok][0]), tok))
        toks.setdefault(tok, (item, name))
    inv = {}
    for item, name in mapping.items():
        inv.setdefault(name, []).append(item)
    if any(len(v) > 1 for v in inv.values()):
        bad.append("mapping is not invertible")
    return bad


def tokens(text):
    return set(re.split(r"[\s()]+", text))


def pddl_output_check(w, p, dom, prob):
    """The chosen names are the ones that appear in the emitted text."""
    bad = []
    toks = tokens(dom) | tokens(prob)
    for item, name in w.otn_renamings.items():
        if name not in toks:
            bad.append("name %r chosen for %s does not occur in the PDDL text" % (name, type(item).__name__))
    for a in p.actions:
        nm = w.otn_renamings.get(a)
        if nm is None or not re.search(r"\(:(durative-)?action %s\s" % re.escape(nm), dom):
            bad.append("action %r not declared under its chosen name %r" % (a.name, nm))
    return bad


def anml_output_check(mapping, p, text):
    bad = []
    decl_types = re.findall(r"^type (\S+?)(?: < \S+)?;$", text, re.M)
    if sorted(decl_types) != sorted(mapping[t] for t in p.user_types):
        bad.append("declared types %r differ from the mapping" % decl_types)
    decl_act = re.findall(r"^action (\S+?)\(", text, re.M)
    if sorted(decl_act) != sorted(mapping[a] for a in p.actions):
        bad.append("declared actions %r differ from the mapping" % decl_act)
    decl_fl = re.findall(r"^(?:fluent|constant) .*? (\S+?)(?:\(.*\))?;$", text, re.M)
    if sorted(decl_fl) != sorted(mapping[f] for f in p.fluents):
        bad.append("declared fluents %r differ from the mapping" % decl_fl)
    inst = []
    for line in re.findall(r"^instance \S+ (.*);$", text, re.M):
        inst += line.split(", ")
    if sorted(inst) != sorted(mapping[o] for o in p.all_objects):
        bad.append("declared instances %r differ from the mapping" % inst)
    idents = set(re.findall(r"[A-Za-z_][A-Za-z0-9_]*", text))
    for it in list(p.user_types) + list(p.actions) + list(p.fluents) + list(p.all_objects):
        if mapping.get(it) not in idents:
            bad.append("name %r chosen for %s does not occur in the ANML text as an identifier" % (mapping.get(it), describe(it)))
    return bad


# ------------------------------------------------------------------------------------------------ case construction
GEN_NAMES = {"GENERAL_PDDL_KEYWORDS": "pddl_general_keywords", "TEMPORAL_PDDL_KEYWORDS": "pddl_temporal_keywords",
             "PDDL3_KEYWORDS": "pddl3_keywords", "PDDL_PLUS_KEYWORDS": "pddl_plus_keywords",
             "CONTINGENT_PDDL_KEYWORDS": "pddl_contingent_keywords"}


class KwTable:
    """Keyword lists are long and repeat.  A list that is (as a set) the union of some of the keyword tables the
    translator read from the source is written as the concatenation of the generated tables (the model only tests
    membership and takes the length as loop fuel); any other list is defined once in the preamble."""

    def __init__(self, T):
        self.names = {}
        self.unions = {}
        tabs = [t for t in GEN_NAMES if t in T]
        for mask in range(1, 2 ** len(tabs)):
            sel = [t for k, t in enumerate(tabs) if mask >> k & 1]
            key = frozenset(sum((T[t] for t in sel), []))
            if key not in self.unions or len(sel) < self.unions[key][0]:
                self.unions[key] = (len(sel), "(" + " ++ ".join(GEN_NAMES[t] for t in sel) + ")%list")

    def ref(self, ks):
        key = tuple(ks)
        if len(set(ks)) == len(ks) and frozenset(ks) in self.unions:
            return self.unions[frozenset(ks)][1]
        if key not in self.names:
            self.names[key] = "KW%d" % len(self.names)
        return self.names[key]

    def preamble(self):
        return "".join("Definition %s : list string := %s.\n" % (n, glist([gs(k) for k in ks]))
                       for ks, n in self.names.items())


class Intern:
    """Per-case table of string / item literals: every literal is written once (let-bound) and then referenced by a
    local name -- parsing literals dominates coqc's time on the generated files."""

    def __init__(self):
        self.s, self.i = {}, {}

    def str(self, x):
        if x not in self.s:
            self.s[x] = "s%d" % len(self.s)
        return self.s[x]

    def item(self, it):
        it = tuple(it)
        if it not in self.i:
            self.i[it] = ("i%d" % len(self.i), "(mk_item %s %s %s)" % (self.str(it[0]), gn(it[1]), self.str(it[2])))
        return self.i[it][0]

    def wrap(self, body):
        lets = ["let %s := %s in" % (n, gs(x)) for x, n in self.s.items()]
        lets += ["let %s := %s in" % (n, d) for n, d in self.i.values()]
        return "(" + " ".join(lets) + " " + body + ")"


def ser_pcase(c, kwt):
    t = Intern()
    body = ("PC {| p_kws := %s; p_feats := %s; p_hier := %s; p_pnames := %s; p_reqs := %s; p_names := %s; p_otn := %s; p_nto := %s; "
            "p_item_q := %s; p_name_q := %s; p_direct := %s |}" % (
                kwt.ref(c["kws"]), glist([t.str(f) for f in c["feats"]]), gbool(c["hier"]), glist([t.str(n) for n in c["pnames"]]),
                glist([t.item(i) for i in c["reqs"]]), glist([t.str(n) for n in c["names"]]),
                glist([gpair(t.item(i), t.str(n)) for i, n in c["otn"]]),
                glist([gpair(t.str(n), t.item(i)) for n, i in c["nto"]]),
                glist([gpair(t.item(i), gopt(None if n is None else t.str(n))) for i, n in c["item_q"]]),
                glist([gpair(t.str(n), gopt(None if i is None else t.item(i))) for n, i in c["name_q"]]),
                glist(["(%s, %s, %s)" % (t.item(i), kwt.ref(ks), t.str(o)) for i, ks, o in c["direct"]])))
    return t.wrap(body)


def ser_acase(c):
    t = Intern()
    ops = ["%s %s" % ("APre" if k == "pre" else "AReq", t.item(i)) for k, i in c["ops"]]
    start = "(anml_init anml_builtin_names)" if c["start"] == "init" else glist([gpair(t.item(i), t.str(n)) for i, n in c["start"]])
    body = ("AC {| a_start := %s; a_ops := %s; a_obs := %s; a_map := %s; a_valid_q := %s; a_direct := %s |}" % (
        start, glist(ops), glist([gopt(None if n is None else t.str(n)) for n in c["obs"]]),
        glist([gpair(t.item(i), t.str(n)) for i, n in c["map"]]),
        glist([gpair(t.str(x), gbool(v)) for x, v in c["valid_q"]]),
        glist([gpair(t.item(i), t.str(n)) for i, n in c["direct"]])))
    return t.wrap(body)


def is_ascii(s):
    return all(ord(ch) < 128 for ch in s)


def case_names(c):
    """Every string of a recorded case (names requested, returned, probed)."""
    out = []

    def walk(x):
        if isinstance(x, str):
            out.append(x)
        elif isinstance(x, (list, tuple)):
            for y in x:
                walk(y)
        elif isinstance(x, dict):
            for y in x.values():
                walk(y)
    walk(c)
    return out


def pddl_case(rng, b, T, mode, stats):
    """mode 'writer': get_domain()+get_problem() with every _get_mangled_name call recorded;
       mode 'direct': random request order with repeats and foreign items, no text produced."""
    import unified_planning.io.pddl_writer as pw
    from unified_planning.io import PDDLWriter
    from unified_planning.exceptions import UPException
    p = b.p
    ids = Ids()
    w = PDDLWriter(p)
    calls = []
    orig = w._get_mangled_name

    def rec(item):
        r = orig(item)
        calls.append((item, r))
        return r

    w._get_mangled_name = rec
    extra_bad = []
    if mode == "writer":
        dom = w.get_domain()
        prob = w.get_problem()
        extra_bad += pddl_output_check(w, p, dom, prob)
        if p.name is not None:
            m = re.search(r"\(domain (\S+)-domain\)", dom)
            if m is None or m.group(1) != pw._get_pddl_name(p, w.pddl_keywords):
                extra_bad.append("domain name in the text differs from _get_pddl_name(problem)")
        queries = []
    else:
        items = all_items(b) + foreign_items(rng, b, rng.randint(1, 5))
        rng.shuffle(items)
        seq = items + [rng.choice(items) for _ in range(rng.randint(0, 4))]
        for it in seq:
            w._get_mangled_name(it)
        queries = foreign_items(rng, b, 2)
    kws = sorted(w.pddl_keywords)
    pn = problem_names(p)
    # the harness's reading of has_name agrees with the implementation on every name in play
    for n in set(b.pool + pn + [r for _, r in calls]):
        if p.has_name(n) != (n in pn):
            extra_bad.append("has_name(%r) disagrees with the element names" % n)
    c = {"kws": kws, "feats": problem_features(p), "hier": bool(w.problem_kind.has_hierarchical_typing() or len(p.user_types) > 1), "pnames": pn,
         "reqs": [ids(i) for i, _ in calls], "names": [r for _, r in calls],
         "otn": [(ids(i), n) for i, n in w.otn_renamings.items()],
         "nto": [(n, ids(i)) for n, i in w.nto_renamings.items()], "item_q": [], "name_q": [], "direct": []}
    for it in list(w.otn_renamings.keys()) + queries:
        try:
            c["item_q"].append((ids(it), w.get_pddl_name(it)))
        except UPException:
            c["item_q"].append((ids(it), None))
    for n in list(w.nto_renamings.keys()) + rng.sample(b.pool, min(4, len(b.pool))) + pn[:3]:
        try:
            c["name_q"].append((n, ids(w.get_item_named(n))))
        except UPException:
            c["name_q"].append((n, None))
    # _get_pddl_name directly, under random keyword subsets
    allk = sorted(set(sum((T[t] for t in ("GENERAL_PDDL_KEYWORDS", "TEMPORAL_PDDL_KEYWORDS", "PDDL3_KEYWORDS",
                                          "PDDL_PLUS_KEYWORDS", "CONTINGENT_PDDL_KEYWORDS")), [])))
    cand = list(w.otn_renamings.keys())
    if p.name is not None:
        cand.append(p)
    for it in rng.sample(cand, min(3, len(cand))):
        ks = rng.choice(T["_subsets"]) if rng.random() < 0.5 else kws
        obs = pw._get_pddl_name(it, set(ks))
        c["direct"].append(((type(it).__name__, 0, it.name) if it is p else ids(it), ks, obs))
        body = obs[1:] if type(it).__name__ in ("Parameter", "Variable") else obs
        if PDDL_ID.fullmatch(body) is None or obs in ks:
            extra_bad.append("_get_pddl_name returned %r (not an identifier / a keyword)" % obs)
    bad = oracle_pddl(w, p, T) + extra_bad
    renamed = sum(1 for i, n in w.otn_renamings.items() if n != i.name)
    stats["pddl_items"] += len(w.otn_renamings)
    stats["pddl_renamed"] += renamed
    stats["pddl_counter_suffix"] += sum(1 for i, n in w.otn_renamings.items() if re.search(r"_\d+$", n) and n != i.name)
    return c, bad, renamed


def anml_case(rng, b, T, mode, stats):
    import unified_planning.io.anml_writer as aw
    from unified_planning.io import ANMLWriter
    p = b.p
    ids = Ids()
    calls = []
    holder = {}
    orig = aw._get_anml_name

    def rec(item, mapping):
        r = orig(item, mapping)
        holder["m"] = mapping
        calls.append((item, r))
        return r

    extra_bad = []
    if mode == "writer":
        aw._get_anml_name = rec
        try:
            text = ANMLWriter(p).get_problem()
        finally:
            aw._get_anml_name = orig
        mapping = holder.get("m", {})
        ops = [("pre", ids(x)) for x in list(p.user_types) + list(p.actions) + list(p.fluents) + list(p.all_objects)]
        obs = [None] * len(ops)
        start = "init"
        extra_bad += anml_output_check(mapping, p, text)
    else:
        tm = b.env.type_manager
        if rng.random() < 0.7:
            mapping = {tm.BoolType(): "boolean", tm.IntType(): "integer", tm.RealType(): "float"}
            start = "init"
        else:
            mapping = {}
            start = []
        ops, obs = [], []
        items = all_items(b) + foreign_items(rng, b, rng.randint(1, 5)) + [tm.BoolType()]
        rng.shuffle(items)
        seq = items + [rng.choice(items) for _ in range(rng.randint(0, 4))]
        if start == []:
            seq = [x for x in seq if type(x).__name__ != "_BoolType"]   # no entry for bool in an empty mapping
        for it in seq:
            calls.append((it, aw._get_anml_name(it, mapping)))
    for it, r in calls:
        k = ids(it)
        if k is None:
            continue
        ops.append(("req", k))
        obs.append(r)
    c = {"start": start, "ops": ops, "obs": obs,
         "map": [(ids(i), n) for i, n in mapping.items() if ids(i) is not None], "valid_q": [], "direct": []}
    probes = rng.sample(b.pool, min(5, len(b.pool))) + [rng.choice(T["ANML_KEYWORDS"])] + [n for _, n in list(mapping.items())[-3:]]
    probes += [n for _, n in b.ws][:6]
    for s in probes:
        v = bool(aw._is_valid_anml_name(s))
        c["valid_q"].append((s, v))
        if v != (ANML_ID.fullmatch(s) is not None and s not in T["ANML_KEYWORDS"]):
            extra_bad.append(HELPER + "_is_valid_anml_name(%r) = %r contradicts the definition (letter, then letters/digits/_; "
                             "reserved words excluded)" % (s, v))
    named = [i for i in mapping.keys() if type(i).__name__ not in ("_BoolType", "_IntType", "_RealType")]
    for it in rng.sample(named, min(3, len(named))):
        c["direct"].append((ids(it), aw._get_anml_valid_name(it)))
    bad = oracle_anml(mapping, T) + extra_bad
    renamed = sum(1 for i, n in mapping.items() if getattr(i, "name", None) is not None and n != i.name)
    stats["anml_items"] += len(mapping)
    stats["anml_renamed"] += renamed
    return c, bad, renamed


# ------------------------------------------------------------------------------------------------ run
def run(ctx):
    stats = {"pddl_items": 0, "pddl_renamed": 0, "pddl_counter_suffix": 0, "anml_items": 0, "anml_renamed": 0,
             "skipped_problem_construction": 0, "ws_elements": {}, "ws_shapes": {}, "oracle_only_cases": 0, "shared_name_problems": 0, "temporal_problems": 0, "profiles": {}, "reserved_word_lookalikes": 0,
             "modes": {"pddl-writer": 0, "pddl-direct": 0, "anml-writer": 0, "anml-direct": 0}}
    # ---- translator tie (two readings of the constants)
    rc, tlog, T = run_translator()
    translator_ok = rc == 0 and T is not None
    if not translator_ok:
        T = fallback_tables()
    ensure_makefile()
    ok_proofs = ctx.check_props(extra=["theories/Corr/Corr_C38.v"])

    import unified_planning  # noqa: F401
    import unified_planning.io.pddl_writer as pw
    import unified_planning.io.anml_writer as aw
    # in-process second reading, before any writer exists in this process
    live_diff = []
    for t in ("GENERAL_PDDL_KEYWORDS", "TEMPORAL_PDDL_KEYWORDS", "PDDL3_KEYWORDS", "PDDL_PLUS_KEYWORDS", "CONTINGENT_PDDL_KEYWORDS"):
        if sorted(getattr(pw, t)) != sorted(T[t]):
            live_diff.append(t)
    if sorted(aw.ANML_KEYWORDS) != sorted(T["ANML_KEYWORDS"]):
        live_diff.append("ANML_KEYWORDS")
    kw_pool = sorted(set(sum((T[t] for t in T if t.endswith("KEYWORDS")), [])) | set(sum(PINNED_KEYWORDS.values(), [])))
    dropped = sorted((t, k) for t, ks in PINNED_KEYWORDS.items() for k in ks if k not in T.get(t, []))
    kwt = KwTable(T)

    rng = ctx.rng
    allk = sorted(set(sum((T[t] for t in T if t.endswith("PDDL_KEYWORDS") or t == "PDDL3_KEYWORDS"), [])))
    T["_subsets"] = [sorted(rng.sample(allk, rng.randint(0, 25))) for _ in range(3)] + [[], allk, sorted(T["GENERAL_PDDL_KEYWORDS"])]
    n_problems = 100 if ctx.quick else 1800
    # extra problems whose white-space family uses non-ASCII separators (NEL, NBSP, LS, PS): outside the Coq model's
    # scope, run through the real writers and judged by the Python oracle only
    n_wide = 16 if ctx.quick else 160
    cases, raw, oracle_bad = [], [], []
    nontrivial = set()
    for k in range(n_problems + n_wide):
        try:
            profile = PROFILES[k % len(PROFILES)]
            if profile is None:
                profile = tuple(f for f in ("events", "processes", "durative_actions", "trajectory_constraints", "contingent")
                                if rng.random() < 0.4)
            ws_chars = WS_ASCII if k < n_problems else WS_WIDE + ["\n", " "]
            b = build_problem(rng, kw_pool, not ctx.quick, profile, ws_chars, k)
            for kind_, name_ in b.ws:
                stats["ws_elements"][kind_] = stats["ws_elements"].get(kind_, 0) + 1
            stats["profiles"]["+".join(b.profile) or "none"] = stats["profiles"].get("+".join(b.profile) or "none", 0) + 1
            stats["reserved_word_lookalikes"] += len(b.forced)
        except Exception as e:  # a generated problem the library refuses (e.g. duplicate parameter names) is skipped
            stats["skipped_problem_construction"] += 1
            continue
        stats["shared_name_problems"] += int(b.shared)
        stats["temporal_problems"] += int(b.temporal)
        for kind, mode, fn in (("pddl", "writer", pddl_case), ("pddl", "direct", pddl_case),
                               ("anml", "writer", anml_case), ("anml", "direct", anml_case)):
            try:
                c, bad, renamed = fn(rng, b, T, mode, stats)
            except Exception as e:
                import traceback
                ctx.fail("impl-exception", "%s %s raised %r on an adversarial identifier set" % (kind, mode, e),
                         [kind, mode, "exception", type(e).__name__],
                         {"names": problem_names(b.p), "traceback": traceback.format_exc()[-1500:]}, True)
                continue
            txt = json.dumps(c, default=str)
            r = {"kind": kind, "mode": mode, "shared_names": b.shared, "profile": list(b.profile),
                 "element_names": problem_names(b.p), "ws_family": [list(x) for x in b.ws], "case": c}
            ftags = failure_tags(bad, problem_names(b.p) + [n for _, n in b.ws] + b.pool + case_names(c)) if bad else []
            if not is_ascii(json.dumps(c, default=str, ensure_ascii=False)):
                # names outside the ASCII scope of the model: the real writers were run, the oracle judges
                stats["oracle_only_cases"] += 1
                if bad:
                    oracle_bad.append((None, r, bad, ftags))
                continue
            stats["modes"]["%s-%s" % (kind, mode)] += 1
            raw.append(r)
            cases.append(ser_pcase(c, kwt) if kind == "pddl" else ser_acase(c))
            if renamed > 0:
                nontrivial.add(hashlib.sha1(txt.encode()).hexdigest())
            if bad:
                oracle_bad.append((len(cases) - 1, r, bad, ftags))

    bad_idx = []
    coq_error = None
    import time
    t_gen = round(time.time() - ctx.t0, 1)
    try:
        # at most two coqc processes at a time (several checks share the machine)
        shard = 250
        for base in range(0, len(cases), 2 * shard):
            part = cases[base:base + 2 * shard]
            bad_idx += [base + i for i in ctx.coq_failing(part, "ok", imports=IMPORTS, preamble=kwt.preamble(),
                                                          shard=max(1, min(shard, (len(part) + 1) // 2)), ty="case")]
    except Exception as e:
        coq_error = str(e)[-1500:]
    t_coq = round(time.time() - ctx.t0 - t_gen, 1)
    oracle_map = dict((i, (bad, ftags)) for i, _, bad, ftags in oracle_bad if i is not None)
    for i in bad_idx:
        r = raw[i]
        model = ctx.coq_show("model_answer c", imports=IMPORTS, preamble=kwt.preamble() + "Definition c : case := %s.\n" % cases[i])
        obad, otags = oracle_map.get(i, ([], []))
        obad, ofails = split_bad(obad)
        ctx.fail("corr", "%s writer (%s): implementation and model disagree on the chosen names (corr:C38:%s)%s" % (
                     r["kind"].upper(), r["mode"], "pddl_run" if r["kind"] == "pddl" else "anml_run_from",
                     "; property C38 fails on the implementation: " + "; ".join(obad[:3]) if obad else ""),
                 ["c38", r["kind"], r["mode"]] + (["shared-names"] if r["shared_names"] else []) + otags,
                 {"case": r, "model": model, "oracle": obad,
                  "theorem_or_corr": "corr:C38:%s" % r["kind"]}, ofails)
    for i, r, bad, ftags in oracle_bad:
        if i is not None and i in bad_idx:
            continue
        bad, fails = split_bad(bad)
        ctx.fail("oracle", "%s writer (%s): property C38 fails on the implementation: %s" % (r["kind"].upper(), r["mode"], "; ".join(bad[:3])),
                 ["c38", r["kind"], r["mode"], "oracle"] + (["shared-names"] if r["shared_names"] else [])
                 + ["feature:" + f for f in r["profile"]] + ftags + ([] if i is not None else ["outside-model-scope"])
                 + ([] if fails else ["helper-only"]),
                 {"case": r, "oracle": bad}, fails)
    if coq_error:
        ctx.fail("corr", "the correspondence cases could not be evaluated: %s" % coq_error[-300:], ["c38", "coq-error"],
                 {"log": coq_error}, False)
    if not translator_ok:
        # the tie is broken; the search above ran the real writers all the same: attach the smallest failing input found
        found = sorted((f for f in ctx.failures if f.property_fails), key=lambda f: len(json.dumps(f.payload, default=str)))
        ctx.fail("translator", "tools/gen_keywords.py failed closed (rc=%s): the name functions / tables of the writers "
                 "no longer have the translated shape%s" % (
                     rc, "; failing input found by running the real writers: " + found[0].what if found else ""),
                 ["c38", "translator"] + ([t for t in found[0].tags if t not in ("c38", "translator")] if found else []),
                 {"log": tlog, "failing_input": found[0].payload if found else None}, bool(found))
    if dropped:
        ctx.fail("oracle", "reserved words of the reference snapshot are no longer in the writers' keyword tables: %s" % dropped[:6],
                 ["c38", "keyword-dropped"], {"dropped": dropped},
                 any(f.property_fails for f in ctx.failures))
    if live_diff:
        ctx.fail("translator", "constants read from the AST and from the imported modules differ: %s" % live_diff,
                 ["c38", "two-readings"], {"tables": live_diff}, False)
    if not ok_proofs:
        ctx.proof_broken("Gen_Keywords.v regenerated from the current source no longer satisfies the side conditions / proofs")
    hashes = ast_hashes()
    drift = sorted(k for k, v in hashes.items() if MODELLED_SHA.get(k) != v)
    ctx.finish({
        "evaluations": len(cases),
        "distinct_nontrivial": len(nontrivial),
        "rule": "distinct serialised cases (identifier set + request order + observed answers) in which at least one item "
                "was renamed; every case has adversarially related identifiers (case variants, keywords, symbols, leading "
                "digits, mangled forms, prefixes; 25% of the problems share names across kinds)",
        "samples": raw[:2],
        "distribution": stats,
        "translator": {"ok": translator_ok, "log": tlog[-300:]},
        "model_drift": drift,
        "seconds": {"translator+proofs+generation+implementation": t_gen, "model evaluation in Coq": t_coq},
        "oracle_failures": len(oracle_bad),
        "traces_validated_against_impl": len(cases),
    }, "proof", assumptions=[
        "names are ASCII (non-ASCII identifiers are outside the model)",
        "the problem is not edited while a writer is alive (has_name is a fixed finite set)",
        "PDDL keyword set of a writer is a subset of the declared tables (checked by the translator on __init__)",
        "ANML: bounded int/real type renderings are not named elements (not modelled); name->item lookup is the inverse relation of names_mapping",
    ])
