"""C31 — Meta-engines return only valid plans and truthful statuses.

Theorems: coq/theories/Props/C31.v (models Model/Oversub.v, Model/IFPlanner.v; the underlying planner is a
universally quantified function assumed sound and complete).

Tie.  Generated problems with oversubscription metrics / with interpreted functions in preconditions, effect values
and effect conditions are solved OFFLINE through the REAL meta engines `oversubscription[bfs]` and
`interpreted_functions_planning[bfs]`, wrapped around the exact breadth-first planner of harness/bfs_planner.py, which
the harness registers in the problem's environment factory.
 * replay (correspondence): every call to the breadth-first planner (and, for the IF planner, every compile and every
   validation) is recorded; the Coq models are run on the recorded answer tables and must ask the same questions in the
   same order and return the same status and plan (Corr_C31.ok_o / ok_i);
 * oracle (independent of the planners): Coq enumerates every state reachable with the documented step
   `spec_step false` from the ground action instances and decides validity of the returned plan (`valid_plan false`),
   solvability and the maximal oversubscription gain (Corr_C31.ocode / icode); the same is computed with the model of
   the simulator (short-circuit evaluation) to recognise inherited simulator deviations, and with the real simulator
   and validator in Python;
 * the IF families: hand-written regression corpus, IFProblem (random), dependency chains (chain_corpus / gen_chain),
   twin applications (twin_corpus / gen_twin: ONE function applied 2-3 times in one action to different fluent
   arguments, solution only after the values were learnt), C01-grammar problems with the ifuns knob;
 * hypotheses of ifplanner_complete, per instance: learnt values are true values (consistency), knowledge grows on a
   failed validation (else the planner raises), and relaxation: every valid plan of the original problem up to the
   tier's length lifts to a valid plan of the compiled problem, for the knowledge of every turn (real validator) and,
   for the first relaxed problem, again inside Coq (Corr_C31.rcode).
"""
import json
import warnings
from collections import OrderedDict
from fractions import Fraction
from itertools import product

from harness import bfs_planner as B
from harness import simexplore as sx
from harness.core import gn, gnat, glist, gpair, gopt, gbool
from harness.gen.problems import GenProblem, SerProblem
from harness.ser import ser_value, ser_expr, gqc

META = {
    "level": "proof",
    "technique": "Coq proofs about Gallina models of the two meta-engine loops with the underlying planner as a Section variable (sorted powerset + truthful answers => maximal gain; refinement loop: soundness by validation, completeness/termination from relaxation + strictly growing bounded knowledge) + replay of the real meta engines' recorded planner/validator answers through the models + exhaustive reachability oracle by vm_compute",
    "text": "oversub_optimal / ifplanner_sound / ifplanner_complete (and truthful negative statuses) are proved for every planner function that is sound and complete; the models are tied to oversubscription_planner.py / interpreted_functions_planner.py by replaying the recorded answers of a harness-registered exact breadth-first planner, and the returned plan, status, solvability and maximal gain are checked against an exhaustive enumeration of reachable states under the documented semantics.",
    "note": "Relative to the oracle: InterpretedFunctionsRemover (the compiler) is NOT modelled; the relaxation and growth hypotheses of ifplanner_complete are validated per instance. Timeouts are out of scope. No axioms. Trusted: Coq kernel/vm_compute, harness serialiser, harness/bfs_planner.py (exact BFS over the real UPSequentialSimulator), recording hooks (subclasses of InterpretedFunctionsRemover / SequentialPlanValidator patched into the planner module's namespace for observation only).",
}

IMPORTS = ["UPV.Core.Expr", "UPV.Core.Eval", "UPV.Core.Interp", "UPV.Planning.Problem", "UPV.Planning.Sem",
           "UPV.Planning.SeqValidate", "UPV.Corr.Corr_C01", "UPV.Model.Oversub", "UPV.Model.IFPlanner", "UPV.Corr.Corr_C31"]

STATUS = {"SOLVED_SATISFICING": "SolvedSat", "SOLVED_OPTIMALLY": "SolvedOpt", "UNSOLVABLE_PROVEN": "UnsolvProven",
          "UNSOLVABLE_INCOMPLETELY": "UnsolvIncomplete", "TIMEOUT": "Timeout", "MEMOUT": "Memout",
          "INTERNAL_ERROR": "InternalError", "UNSUPPORTED_PROBLEM": "Unsupported", "INTERMEDIATE": "Intermediate"}

OVERSUB = "oversubscription[bfs]"
IFPLAN = "interpreted_functions_planning[bfs]"


# ====================================================================== generators
class HandProblem(sx.HandProblem):
    pass


def oversub_corpus():
    """hand-written oversubscription problems: conflicting soft goals, soft goal against a hard goal, negative and
    fractional gains, ties, zero gain, every gain negative, unsolvable hard goals, no soft goal achievable"""
    from unified_planning.environment import Environment
    from unified_planning.model import Fluent, Problem, InstantaneousAction
    from unified_planning.model.metrics import Oversubscription
    out = []

    def base(label):
        env = Environment()
        env.credits_stream = None
        tm, em = env.type_manager, env.expression_manager
        p = Problem(label, env)
        x = Fluent("x", tm.IntType(0, 3), environment=env)
        d = Fluent("d", tm.BoolType(), environment=env)
        e = Fluent("e", tm.BoolType(), environment=env)
        p.add_fluent(x, default_initial_value=0)
        p.add_fluent(d, default_initial_value=False)
        p.add_fluent(e, default_initial_value=False)
        inc = InstantaneousAction("inc", _env=env)
        inc.add_precondition(em.Not(d))
        inc.add_increase_effect(x, 1)
        lock = InstantaneousAction("lock", _env=env)
        lock.add_effect(d, True)
        sete = InstantaneousAction("sete", _env=env)
        sete.add_precondition(em.LE(2, x))
        sete.add_effect(e, True)
        sete.add_effect(x, 0)
        for a in (inc, lock, sete):
            p.add_action(a)
        return env, em, p, x, d, e

    specs = [
        ("conflicting-soft-goals", lambda em, x, d, e: ([], {em.Equals(x, 1): 5, em.Equals(x, 2): 4, em.And(d, e): Fraction(1, 2)})),
        ("soft-against-hard", lambda em, x, d, e: ([d], {em.Not(d): 7, em.Equals(x, 3): 2, e: Fraction(3, 2)})),
        ("all-negative", lambda em, x, d, e: ([em.LE(1, x)], {em.LE(1, x): -2, d: Fraction(-1, 3), em.Not(e): -1})),
        ("ties-and-zero", lambda em, x, d, e: ([], {d: 1, e: 1, em.Equals(x, 3): 0, em.Equals(x, 0): 1})),
        ("negative-unavoidable", lambda em, x, d, e: ([e], {em.LE(0, x): -3, em.Equals(x, 0): Fraction(5, 2), d: -1})),
        ("hard-unsolvable", lambda em, x, d, e: ([em.And(e, em.Equals(x, 3), em.Not(d), em.LE(4, x))], {d: 1, e: 2})),
        ("soft-unreachable", lambda em, x, d, e: ([], {em.And(em.Equals(x, 3), e, em.Not(d), em.LT(x, 3)): 9, em.And(d, em.Not(d)): 4})),
        ("fraction-sum-tie", lambda em, x, d, e: ([], {d: Fraction(1, 2), e: Fraction(1, 2), em.Equals(x, 2): 1, em.Or(d, e): Fraction(-1, 2)})),
    ]
    for label, mk in specs:
        env, em, p, x, d, e = base(label)
        hard, soft = mk(em, x, d, e)
        for g in hard:
            p.add_goal(g)
        p.add_quality_metric(Oversubscription(soft, environment=env))
        out.append(HandProblem(p, label))
    # no metric at all: the meta engine must answer SATISFICING
    env, em, p, x, d, e = base("no-metric")
    p.add_goal(e)
    out.append(HandProblem(p, "no-metric"))
    return out


def gen_oversub(rng):
    """C01 grammar problem + an oversubscription metric with 2-4 soft goals"""
    from unified_planning.model.metrics import Oversubscription
    g = GenProblem(rng, metrics=False, invariants=False, undefined=False, forall=False, num_params=False, ifuns=False,
                   max_actions=3, bounded=True)
    p, em = g.problem, g.em
    goals = OrderedDict()
    n = rng.randint(2, 4)
    pool = [1, 2, -1, Fraction(3, 2), 5, Fraction(-5, 2), Fraction(1, 3), 0, 2, -2, 3]
    tries = 0
    while len(goals) < n and tries < 20:
        tries += 1
        r = rng.random()
        if goals and r < 0.2:
            e = em.Not(rng.choice(list(goals)))                      # conflicts with another soft goal
        elif p.goals and r < 0.35:
            e = em.Not(rng.choice(p.goals))                          # conflicts with a hard goal
        else:
            e = g.gen_bool(rng.randint(1, 2), [], ())
        if e.is_bool_constant() or e in goals:
            continue
        goals[e] = rng.choice(pool)
    if not goals:
        goals[em.FluentExp(g.fluents[0])] = 1
    m = Oversubscription(goals, environment=g.env)
    p.add_quality_metric(m)
    g.metric = m
    g.label = "gen-oversub"
    return g


class IFProblem:
    """Small problems whose preconditions, effect values and effect conditions apply interpreted functions (random
    total tables) to fluents, parameters, constants and other applications; goals never contain them."""

    def __init__(self, rng, cond_effects=True, nested=True):
        import unified_planning as up
        from unified_planning.environment import Environment
        from unified_planning.model import Fluent, Object, Problem, InstantaneousAction, InterpretedFunction
        self.rng = rng
        self.label = "gen-if"
        self.cond_effects, self.nested = cond_effects, nested
        env = self.env = Environment()
        env.credits_stream = None
        tm, em = env.type_manager, env.expression_manager
        self.em = em
        Bt = tm.BoolType()
        It = tm.IntType(0, 3)
        T = self.T = tm.UserType("T")
        p = self.problem = Problem("ifp", env)
        self.objs = [Object("o%d" % i, T, env) for i in range(2)]
        p.add_objects(self.objs)
        self.bools = [Fluent("b%d" % i, Bt, environment=env) for i in range(rng.randint(2, 3))]
        self.ints = [Fluent(n, It, environment=env) for n in ["x", "y"][:rng.randint(1, 2)]]
        self.q = Fluent("q", Bt, OrderedDict([("t", T)]), env) if rng.random() < 0.4 else None
        self.of = Fluent("of", T, environment=env) if rng.random() < 0.3 else None
        for f in self.bools:
            p.add_fluent(f, default_initial_value=rng.random() < 0.3)
        for f in self.ints:
            p.add_fluent(f, default_initial_value=rng.randint(0, 2))
        if self.q is not None:
            p.add_fluent(self.q, default_initial_value=False)
            if rng.random() < 0.5:
                p.set_initial_value(self.q(rng.choice(self.objs)), True)
        if self.of is not None:
            p.add_fluent(self.of, default_initial_value=self.objs[0])
        self.ifuns = {}
        self.seed_tbl = rng.getrandbits(30)

        def mk(name, ret, sig, kind):
            f = InterpretedFunction(name, ret, OrderedDict(sig), lambda *a, name=name, kind=kind: self.call(name, kind, a), env)
            self.ifuns[name] = f
            return f
        mk("fi", tm.IntType() if rng.random() < 0.5 else tm.IntType(-1, 4), [("a", tm.IntType())], "int")
        mk("fb", Bt, [("a", tm.IntType())], "bool")
        if rng.random() < 0.5:
            mk("f2", tm.IntType(), [("a", tm.IntType()), ("b", tm.IntType())], "int")
        if rng.random() < 0.4:
            mk("fq", Bt, [("o", T)], "bool")
        if self.of is not None and rng.random() < 0.7:
            mk("fo", T, [("a", tm.IntType())], "obj")
        self.used = {"pre": 0, "effval": 0, "effcond": 0}
        self.actions = []
        for ai in range(rng.randint(2, 4)):
            params = OrderedDict([("p", T)]) if rng.random() < 0.3 else OrderedDict()
            a = InstantaneousAction("a%d" % ai, params, env)
            ps = list(a.parameters)
            for _ in range(rng.randint(0, 2)):
                a.add_precondition(self.cond(ps, 0.7, "pre"))
            n = rng.randint(1, 2)
            tries = 0
            while n > 0 and tries < 10:
                tries += 1
                try:
                    self.effect(a, ps)
                    n -= 1
                except (up.exceptions.UPConflictingEffectsException, up.exceptions.UPTypeError,
                        up.exceptions.UPUsageError, up.exceptions.UPProblemDefinitionError, AssertionError):
                    pass
            if not a.effects:
                a.add_effect(self.bools[0], True)
            p.add_action(a)
            self.actions.append(a)
        self.goal_from_walk = False
        if rng.random() < 0.8:
            self.walk_goal()
        if not p.goals:
            for _ in range(rng.randint(1, 2)):
                p.add_goal(self.cond([], 0.0, None))

    def call(self, name, kind, args):
        """the interpreted function bodies: deterministic pseudo-random total tables"""
        import random
        r = random.Random("%d:%s:%s" % (self.seed_tbl, name, tuple(str(a) for a in args)))
        if kind == "int":
            return r.randint(-1, 4)
        if kind == "bool":
            return r.random() < 0.5
        return r.choice(self.objs)

    def ground_instances(self):
        return B.ground_instances(self.problem)

    def walk_goal(self):
        """goal = 1-2 facts of a state reached by a random walk that differ from the initial state"""
        from unified_planning.engines.sequential_simulator import UPSequentialSimulator
        rng, p, em = self.rng, self.problem, self.em
        with warnings.catch_warnings():
            warnings.simplefilter("ignore")
            sim = UPSequentialSimulator(p, error_on_failed_checks=False)
        s0 = sim.get_initial_state()
        insts = B.ground_instances(p)
        gfe = B.ground_fluent_exps(p)
        st = s0
        for _ in range(rng.randint(2, 5)):
            rng.shuffle(insts)
            for a, args in insts:
                try:
                    nxt = sim.apply(st, a, args)
                except Exception:  # noqa
                    nxt = None
                if nxt is not None and any(nxt.get_value(fe) != st.get_value(fe) for fe in gfe):
                    st = nxt
                    break
        diff = [fe for fe in gfe if st.get_value(fe) != s0.get_value(fe)]
        rng.shuffle(diff)
        for fe in diff[:rng.randint(1, 2)]:
            v = st.get_value(fe)
            if v.is_bool_constant():
                p.add_goal(fe if v.bool_constant_value() else em.Not(fe))
            else:
                p.add_goal(em.Equals(fe, v))
            self.goal_from_walk = True

    # ---- expressions
    def num(self, ps, pif, where, depth=1):
        em, rng = self.em, self.rng
        if rng.random() < pif and depth >= 0:
            if where:
                self.used[where] += 1
            inner = pif / 3 if self.nested else 0
            if "f2" in self.ifuns and rng.random() < 0.3:
                return em.InterpretedFunctionExp(self.ifuns["f2"], [self.num(ps, inner, where, depth - 1), self.num(ps, 0, where, depth - 1)])
            return em.InterpretedFunctionExp(self.ifuns["fi"], [self.num(ps, inner, where, depth - 1)])
        r = rng.random()
        if r < 0.5:
            return em.FluentExp(rng.choice(self.ints))
        if r < 0.75 or depth <= 0:
            return em.Int(rng.randint(0, 3))
        return rng.choice([em.Plus, em.Minus])(self.num(ps, pif / 2, where, depth - 1), em.Int(1))

    def obj(self, ps):
        em, rng = self.em, self.rng
        c = [em.ObjectExp(o) for o in self.objs] + [em.ParameterExp(pp) for pp in ps] * 2
        if self.of is not None:
            c.append(em.FluentExp(self.of))
        return rng.choice(c)

    def cond(self, ps, pif, where):
        em, rng = self.em, self.rng
        if rng.random() < pif:
            k = rng.random()
            if where:
                self.used[where] += 1
            if k < 0.35:
                e = em.InterpretedFunctionExp(self.ifuns["fb"], [self.num(ps, 0.1 if self.nested else 0, where)])
            elif k < 0.5 and "fq" in self.ifuns:
                e = em.InterpretedFunctionExp(self.ifuns["fq"], [self.obj(ps)])
            elif k < 0.6 and "fo" in self.ifuns:
                e = em.Equals(em.InterpretedFunctionExp(self.ifuns["fo"], [self.num(ps, 0, where)]), self.obj(ps))
            else:
                e = rng.choice([em.LE, em.LT, em.Equals, em.GE])(self.num(ps, 1.0, None), self.num(ps, 0.1, where))
            return em.Not(e) if rng.random() < 0.25 else e
        r = rng.random()
        if r < 0.4:
            e = em.FluentExp(rng.choice(self.bools))
            return em.Not(e) if rng.random() < 0.3 else e
        if r < 0.5 and self.q is not None:
            return em.FluentExp(self.q, (self.obj(ps),))
        if r < 0.85:
            return rng.choice([em.LE, em.LT, em.Equals, em.GE])(em.FluentExp(rng.choice(self.ints)), self.num(ps, 0, None))
        if r < 0.92 and where is not None:
            return em.Or(self.cond(ps, pif, where), self.cond(ps, pif, where))
        if r < 0.96 and where is not None:
            return em.And(self.cond(ps, pif, where), self.cond(ps, pif, where))
        if self.of is not None:
            return em.Equals(em.FluentExp(self.of), self.obj(ps))
        return em.FluentExp(rng.choice(self.bools))

    def effect(self, a, ps):
        em, rng = self.em, self.rng
        c = True
        if self.cond_effects and rng.random() < 0.3:
            c = self.cond(ps, 0.4, "effcond")
        r = rng.random()
        if r < 0.4:
            f = rng.choice(self.bools)
            if rng.random() < 0.35:
                self.used["effval"] += 1
                a.add_effect(f, em.InterpretedFunctionExp(self.ifuns["fb"], [self.num(ps, 0.1 if self.nested else 0, "effval")]), c)
            elif "fq" in self.ifuns and rng.random() < 0.2:
                self.used["effval"] += 1
                a.add_effect(f, em.InterpretedFunctionExp(self.ifuns["fq"], [self.obj(ps)]), c)
            else:
                a.add_effect(f, rng.random() < 0.7, c)
        elif r < 0.5 and self.q is not None:
            tgt = em.ObjectExp(rng.choice(self.objs)) if not ps or rng.random() < 0.3 else em.ParameterExp(ps[0])
            a.add_effect(self.q(tgt), rng.random() < 0.7, c)
        elif r < 0.6 and self.of is not None:
            if "fo" in self.ifuns and rng.random() < 0.6:
                self.used["effval"] += 1
                a.add_effect(self.of, em.InterpretedFunctionExp(self.ifuns["fo"], [self.num(ps, 0, None)]), c)
            else:
                a.add_effect(self.of, self.obj(ps), c)
        else:
            f = rng.choice(self.ints)
            k = rng.random()
            v = self.num(ps, 0.5, "effval")
            if k < 0.5:
                a.add_effect(f, v, c)
            elif k < 0.8:
                a.add_increase_effect(f, v if rng.random() < 0.5 else 1, c)
            else:
                a.add_decrease_effect(f, v if rng.random() < 0.3 else 1, c)


def if_corpus():
    """hand-written interpreted-function problems: one regression problem per repaired defect of the compiler and one
    witness per open finding (the function bodies are explicit tables)"""
    from unified_planning.environment import Environment
    from unified_planning.model import Fluent, Problem, InstantaneousAction, InterpretedFunction
    out = []

    def base(label, x0=0):
        env = Environment()
        env.credits_stream = None
        tm, em = env.type_manager, env.expression_manager
        p = Problem(label, env)
        fl = {}
        x = Fluent("x", tm.IntType(0, 3), environment=env)
        p.add_fluent(x, default_initial_value=x0)
        fl["x"] = x
        for n in ("d", "e", "g"):
            fl[n] = Fluent(n, tm.BoolType(), environment=env)
            p.add_fluent(fl[n], default_initial_value=False)
        fi = InterpretedFunction("fi", tm.IntType(), OrderedDict([("a", tm.IntType())]), lambda a: {0: 2, 1: 0, 2: 1}.get(a, 3), env)
        fb = InterpretedFunction("fb", tm.BoolType(), OrderedDict([("a", tm.IntType())]), lambda a: a in (0, 2), env)

        def act(name):
            return InstantaneousAction(name, _env=env)
        return env, em, p, fl, fi, fb, act

    # regression 83e753e: a conditional IF-valued effect that does not fire must not make its fluent unknown
    env, em, p, fl, fi, fb, act = base("cond-if-effect-not-firing")
    a = act("a"); a.add_effect(fl["x"], em.InterpretedFunctionExp(fi, [fl["x"]]), em.GE(fl["x"], 2))
    b = act("b"); b.add_increase_effect(fl["x"], 1)
    p.add_action(a); p.add_action(b); p.add_goal(em.Equals(fl["x"], 1))
    out.append(HandProblem(p, "cond-if-effect-not-firing"))
    # regression e85b684: an increase of an unknown fluent leaves it unknown
    env, em, p, fl, fi, fb, act = base("increase-after-unknown")
    a = act("a"); a.add_precondition(em.Not(fl["d"])); a.add_effect(fl["x"], em.InterpretedFunctionExp(fi, [em.Int(0)])); a.add_effect(fl["d"], True)
    b = act("b"); b.add_precondition(fl["d"]); b.add_precondition(em.Not(fl["e"])); b.add_increase_effect(fl["x"], 1); b.add_effect(fl["e"], True)
    p.add_action(a); p.add_action(b); p.add_goal(em.Equals(fl["x"], 3)); p.add_goal(fl["e"])
    out.append(HandProblem(p, "increase-after-unknown"))
    # regression 0b8b470: fi known at the argument, fb never evaluated
    env, em, p, fl, fi, fb, act = base("two-functions-one-known", x0=1)
    z = act("z"); z.add_precondition(em.Equals(em.InterpretedFunctionExp(fi, [fl["x"]]), 7)); z.add_effect(fl["g"], True)
    b = act("b"); b.add_precondition(em.InterpretedFunctionExp(fb, [em.InterpretedFunctionExp(fi, [fl["x"]])])); b.add_effect(fl["g"], True)
    p.add_action(z); p.add_action(b); p.add_goal(fl["g"])
    out.append(HandProblem(p, "two-functions-one-known"))
    # open finding C31-IF-EFFECT-CONDITION-READS-UNKNOWN: the condition of b's effect is decided on the stale value of x
    env, em, p, fl, fi, fb, act = base("effect-condition-reads-unknown")
    a = act("a"); a.add_effect(fl["x"], em.InterpretedFunctionExp(fi, [em.Int(0)]))
    b = act("b"); b.add_effect(fl["g"], True, em.Equals(fl["x"], 2))
    p.add_action(a); p.add_action(b); p.add_goal(fl["g"])
    out.append(HandProblem(p, "effect-condition-reads-unknown"))
    # open finding C31-IF-BOUNDED-STALE-VALUE: x -= 1 is checked against the bounds on the stale value 0
    env, em, p, fl, fi, fb, act = base("bounded-stale-value")
    a = act("a"); a.add_effect(fl["x"], em.InterpretedFunctionExp(fi, [em.Int(0)]))
    b = act("b"); b.add_decrease_effect(fl["x"], 1); b.add_effect(fl["g"], True)
    p.add_action(a); p.add_action(b); p.add_goal(fl["g"])
    out.append(HandProblem(p, "bounded-stale-value"))
    # several turns: the plan needs three values of fi
    env, em, p, fl, fi, fb, act = base("chain-of-values")
    a = act("a"); a.add_effect(fl["x"], em.InterpretedFunctionExp(fi, [fl["x"]]))
    b = act("b"); b.add_precondition(em.Equals(em.InterpretedFunctionExp(fi, [fl["x"]]), 0)); b.add_effect(fl["g"], True)
    p.add_action(a); p.add_action(b); p.add_goal(fl["g"])
    out.append(HandProblem(p, "chain-of-values"))
    return out


def chain_problem(label, order, kind="int", arg=0, guard=False, distractor=False, tail_goal=True, rng=None):
    """A dependency chain through copying actions: `assign: x := f(arg)`, `copy1: y := x`, (`copy2: z := y`), declared in
    the given order (a permutation of the action names), goal on the last fluent of the chain.  The fluents are
    unbounded integers / Booleans whose true value differs from the initial (stale) one, so the problem is solvable
    only through the interpreted function and a fluent that the compiler fails to track makes the compiled problem
    unsolvable."""
    from unified_planning.environment import Environment
    from unified_planning.model import Fluent, Problem, InstantaneousAction, InterpretedFunction
    env = Environment()
    env.credits_stream = None
    tm, em = env.type_manager, env.expression_manager
    p = Problem(label, env)
    n = len(order)                         # 2: x -> y, 3: x -> y -> z
    names = ["x", "y", "z"][:n]
    if kind == "int":
        fls = [Fluent(nm, tm.IntType(), environment=env) for nm in names]
        for f in fls:
            p.add_fluent(f, default_initial_value=0)
        fun = InterpretedFunction("fi", tm.IntType(), OrderedDict([("a", tm.IntType())]), lambda a: a + 2, env)
        target = em.Equals(fls[-1], arg + 2)
        mid = em.Equals(fls[0], arg + 2)
    else:
        fls = [Fluent(nm, tm.BoolType(), environment=env) for nm in names]
        for f in fls:
            p.add_fluent(f, default_initial_value=False)
        fun = InterpretedFunction("fb", tm.BoolType(), OrderedDict([("a", tm.IntType())]), lambda a: True, env)
        target = em.FluentExp(fls[-1])
        mid = em.FluentExp(fls[0])
    d = Fluent("d", tm.BoolType(), environment=env)
    p.add_fluent(d, default_initial_value=False)
    acts = {}
    a = InstantaneousAction("assign", _env=env)
    if guard:
        a.add_precondition(d)
    a.add_effect(fls[0], em.InterpretedFunctionExp(fun, [em.Int(arg)]))
    acts["assign"] = a
    for i in range(1, n):
        c = InstantaneousAction("copy%d" % i, _env=env)
        c.add_effect(fls[i], fls[i - 1])
        acts["copy%d" % i] = c
    todo = list(order)
    if distractor or guard:
        s = InstantaneousAction("setd", _env=env)
        s.add_effect(d, True)
        acts["setd"] = s
        pos = 0 if rng is None else rng.randint(0, len(todo))
        todo.insert(pos, "setd")
    for nm in todo:
        p.add_action(acts[nm])
    p.add_goal(target)
    if not tail_goal:
        p.add_goal(mid)
    return HandProblem(p, label)


def chain_corpus():
    """every declaration order of the chain actions relative to the action with the interpreted-function assignment,
    chains of length 2 and 3, integer and Boolean"""
    from itertools import permutations
    out = []
    for n in (2, 3):
        names = ["assign"] + ["copy%d" % i for i in range(1, n)]
        for k, order in enumerate(permutations(names)):
            kind = "int" if (k + n) % 2 == 0 else "bool"
            out.append(chain_problem("chain%d-%s-%s" % (n, kind, ">".join(order)), order, kind=kind))
    return out


def gen_chain(rng):
    names3 = ["assign", "copy1", "copy2"]
    n = rng.randint(2, 3)
    order = names3[:n]
    rng.shuffle(order)
    hp = chain_problem("gen-chain", order, kind=rng.choice(["int", "bool"]), arg=rng.randint(0, 3),
                       guard=rng.random() < 0.4, distractor=rng.random() < 0.4, tail_goal=rng.random() < 0.7, rng=rng)
    return hp


# ---- one interpreted function applied several times in one action ("twin applications")
# conditions over the applications t[0..k-1]: name -> (k, conjuncts(em, t), the same predicate on the values)
TWIN_COND = OrderedDict([
    ("lt", (2, lambda em, t: [em.LT(t[0], t[1])], lambda v: v[0] < v[1])),
    ("gt", (2, lambda em, t: [em.GT(t[0], t[1])], lambda v: v[0] > v[1])),
    ("ne", (2, lambda em, t: [em.Not(em.Equals(t[0], t[1]))], lambda v: v[0] != v[1])),
    ("le", (2, lambda em, t: [em.LE(t[0], t[1])], lambda v: v[0] <= v[1])),
    ("eq", (2, lambda em, t: [em.Equals(t[0], t[1])], lambda v: v[0] == v[1])),
    ("diff", (2, lambda em, t: [em.Equals(em.Minus(t[0], t[1]), 2)], lambda v: v[0] - v[1] == 2)),
    ("split2", (2, lambda em, t: [em.LE(t[0], 1), em.GE(t[1], 2)], lambda v: v[0] <= 1 and v[1] >= 2)),
    ("sum3", (3, lambda em, t: [em.LT(em.Plus(t[0], t[1]), t[2])], lambda v: v[0] + v[1] < v[2])),
    ("dist3", (3, lambda em, t: [em.GT(em.Minus(t[0], t[1]), t[2])], lambda v: v[0] - v[1] > v[2])),
    ("split3", (3, lambda em, t: [em.LE(t[0], 1), em.GE(t[1], 2), em.Not(em.Equals(t[2], 0))],
                lambda v: v[0] <= 1 and v[1] >= 2 and v[2] != 0)),
])
# conjuncts that SHARE an application (`fr(a) < fr(b)`, `fr(b) != fr(c)` as two preconditions, or one `and`, which the
# compiler splits): open finding C31-ifplanner-shared-application-across-conditions (shape tag
# `two-conditions-share-application`), see notes/C31.md "Seeded change C31-5"
TWIN_COND["chain3"] = (3, lambda em, t: [em.And(em.LT(t[0], t[1]), em.LT(t[1], t[2]))], lambda v: v[0] < v[1] < v[2])
TWIN_COND["share3"] = (3, lambda em, t: [em.LT(t[0], t[1]), em.Not(em.Equals(t[1], t[2]))], lambda v: v[0] < v[1] and v[1] != v[2])
# effect values over the applications: name -> (k, Boolean value?, value(em, t), the same on the values)
TWIN_VAL = OrderedDict([
    ("minus", (2, False, lambda em, t: em.Minus(t[0], t[1]), lambda v: v[0] - v[1])),
    ("pack", (2, False, lambda em, t: em.Plus(em.Times(t[0], 5), t[1]), lambda v: 5 * v[0] + v[1])),
    ("blt", (2, True, lambda em, t: em.LT(t[0], t[1]), lambda v: v[0] < v[1])),
    ("mix3", (3, False, lambda em, t: em.Plus(em.Minus(t[0], t[1]), em.Times(t[2], 3)), lambda v: v[0] - v[1] + 3 * v[2])),
    ("bchain3", (3, True, lambda em, t: em.And(em.LT(t[0], t[1]), em.LE(t[1], t[2])), lambda v: v[0] < v[1] <= v[2])),
])


def twin_configs(hi, inits, moves):
    """the dial configurations reachable from `inits` (per dial: 'up' / 'down' / 'both' by one) with their distance"""
    doms = []
    for i0, m in zip(inits, moves):
        doms.append([d for d in range(hi + 1) if (m == "both" or (m == "up" and d >= i0) or (m == "down" and d <= i0))])
    return [(cfg, sum(abs(d - i0) for d, i0 in zip(cfg, inits))) for cfg in product(*doms)]


def twin_values(table, args, cfg):
    return [table.get(cfg[d] + off, 0) for d, off in args]


def twin_problem(label, site, form, args, table, hi, inits, moves, target=None, one_shot=False, bounded_ret=False):
    """ONE interpreted function `fr` applied two or three times, to different argument lists that all contain fluents
    (`args`: (dial, offset) = the dial fluent or the dial fluent +/- a constant), in one action `gate`:
     site 'pre'     -- the applications are compared in the precondition(s) of `gate` (form: TWIN_COND), goal `g`;
     site 'effcond' -- the same condition guards gate's effect `g := true`;
     site 'effval'  -- gate assigns `out := E(applications)` (unbounded integer, goal `out == target`) or the Boolean
                       `g := E(applications)` (form: TWIN_VAL).
    The dials (integers 0..hi) are moved by one by `up<i>` / `down<i>`; `fr` is the explicit table `table` (0 elsewhere).
    While some argument value is still unknown the compiled problem's optimistic variant of `gate` is used; once every
    value on the way is known, only the 'known values' variant remains, with one value per APPLICATION."""
    from unified_planning.environment import Environment
    from unified_planning.model import Fluent, Problem, InstantaneousAction, InterpretedFunction
    env = Environment()
    env.credits_stream = None
    tm, em = env.type_manager, env.expression_manager
    p = Problem(label, env)
    n = len(inits)
    dials = [Fluent(nm, tm.IntType(0, hi), environment=env) for nm in ["u", "v", "w"][:n]]
    for f, i0 in zip(dials, inits):
        p.add_fluent(f, default_initial_value=i0)
    g = Fluent("g", tm.BoolType(), environment=env)
    p.add_fluent(g, default_initial_value=False)
    tbl = dict(table)
    ret = tm.IntType(min(0, min(tbl.values())), max(tbl.values())) if bounded_ret else tm.IntType()
    fr = InterpretedFunction("fr", ret, OrderedDict([("k", tm.IntType())]), lambda k: tbl.get(k, 0), env)
    for f, m in zip(dials, moves):
        if m in ("up", "both"):
            a = InstantaneousAction("up_" + f.name, _env=env)
            a.add_precondition(em.LT(f, hi))
            a.add_increase_effect(f, 1)
            p.add_action(a)
        if m in ("down", "both"):
            a = InstantaneousAction("down_" + f.name, _env=env)
            a.add_precondition(em.GT(f, 0))
            a.add_decrease_effect(f, 1)
            p.add_action(a)

    def arg(d, off):
        fe = em.FluentExp(dials[d])
        return fe if off == 0 else (em.Plus(fe, off) if off > 0 else em.Minus(fe, -off))
    t = [em.InterpretedFunctionExp(fr, [arg(d, off)]) for d, off in args]
    gate = InstantaneousAction("gate", _env=env)
    if one_shot:
        done = Fluent("done", tm.BoolType(), environment=env)
        p.add_fluent(done, default_initial_value=False)
        gate.add_precondition(em.Not(done))
        gate.add_effect(done, True)
    if site in ("pre", "effcond"):
        conj = TWIN_COND[form][1](em, t)
        if site == "pre":
            for c in conj:
                gate.add_precondition(c)
            gate.add_effect(g, True)
        else:
            gate.add_effect(g, True, em.And(conj))
        p.add_goal(g)
    else:
        _, is_bool, val, _ = TWIN_VAL[form]
        if is_bool:
            gate.add_effect(g, val(em, t))
            p.add_goal(g)
        else:
            out = Fluent("out", tm.IntType(), environment=env)
            p.add_fluent(out, default_initial_value=-9)
            gate.add_effect(out, val(em, t))
            p.add_goal(em.Equals(out, target))
    p.add_action(gate)
    return HandProblem(p, label)


def twin_corpus():
    """two dials, `u` turned up from 0 and `v` turned down from 2, fr = {0: 2, 1: 2, 2: 1, 3: 0}: the gate opens only at
    configurations that the planner reaches after it has evaluated fr at every dial position (failed attempts first)"""
    tb = {0: 2, 1: 2, 2: 1, 3: 0}
    mv = ("up", "down")
    specs = [
        ("pre", "lt", [(0, 0), (1, 0)], None),                       # fr(u) < fr(v)
        ("pre", "split2", [(0, 0), (1, 0)], None),                   # fr(u) <= 1, fr(v) >= 2 (two preconditions)
        ("pre", "diff", [(1, 0), (0, 1)], None),                     # fr(v) - fr(u + 1) == 2
        ("pre", "sum3", [(0, 1), (0, 0), (1, 0)], None),             # fr(u + 1) + fr(u) < fr(v)
        ("pre", "chain3", [(0, 1), (0, 0), (1, 0)], None),           # fr(u + 1) < fr(u) and fr(u) < fr(v): open finding
        ("effcond", "lt", [(0, 0), (1, 0)], None),
        ("effval", "minus", [(0, 0), (1, 0)], -1),                   # out := fr(u) - fr(v), goal out == -1
        ("effval", "blt", [(0, 0), (1, 0)], None),                   # g := fr(u) < fr(v)
        ("effval", "mix3", [(0, 0), (1, 0), (0, 1)], -1),            # out := fr(u) - fr(v) + 3 * fr(u + 1), goal out == -1
    ]
    out = []
    for site, form, args, target in specs:
        label = "twin-%s-%s-%s" % (site, form, "".join("uvw"[d] + ("%+d" % o if o else "") for d, o in args))
        hp = twin_problem(label, site, form, args, tb, 2, (0, 2), mv, target=target)
        hp.twin = {"site": site, "form": form, "apps": len(args)}
        out.append(hp)
    return out


def gen_twin(rng):
    """random member of the twin-application family; 70 %: table / initial dials drawn again (<= 40 times) until the
    problem is solvable and every solving configuration is at least two moves away (so the planner first fails and
    learns the values), the rest unconstrained (trivial and unsolvable ones included)"""
    site = rng.choice(["pre", "pre", "pre", "effcond", "effval", "effval", "effval"])
    forms = TWIN_VAL if site == "effval" else TWIN_COND
    weights = {"le": 1, "eq": 1}
    form = rng.choice([f for f in forms for _ in range(weights.get(f, 3))])
    k = forms[form][0]
    n = 2 if rng.random() < 0.7 else 3
    hi = rng.randint(2, 3) if n == 2 else 2
    args = []
    while len(args) < k:
        a = (rng.randrange(n), rng.choice([0, 0, 0, 1, -1]))
        if a not in args:
            args.append(a)
    if len(set(d for d, _ in args)) == 1 and rng.random() < 0.7:      # mostly: at least two different fluents
        args[-1] = ((args[0][0] + 1) % n, 0)
    want_hard = rng.random() < 0.7
    fn = forms[form][3] if site == "effval" else forms[form][2]
    is_bool = site != "effval" or forms[form][1]
    for _ in range(40):
        moves = tuple(rng.choice(["up", "down", "both", "both"]) for _ in range(n))
        inits = tuple(rng.randint(0, 1) if m == "up" else rng.randint(hi - 1, hi) if m == "down" else rng.randint(0, hi)
                      for m in moves)
        table = {i: rng.randint(0, 3) for i in range(-1, hi + 2)}
        cfgs = twin_configs(hi, inits, moves)
        vals = [(fn(twin_values(table, args, cfg)), dist) for cfg, dist in cfgs]
        target = None
        if is_bool:
            good = [dist for v, dist in vals if v]
        else:
            v0 = fn(twin_values(table, args, inits))
            cands = sorted(set(v for v, _ in vals if v != v0)) or [v0]
            target = rng.choice(cands)
            good = [dist for v, dist in vals if v == target]
        if not want_hard or (good and min(good) >= 2):
            break
    hp = twin_problem("gen-twin", site, form, args, table, hi, inits, moves, target=target,
                      one_shot=rng.random() < 0.25, bounded_ret=rng.random() < 0.3)
    hp.twin = {"site": site, "form": form, "apps": k}
    return hp


def gen_c01_if(rng):
    """C01 grammar problem that applies its interpreted function `fi` (GenProblem's ifuns knob)"""
    for _ in range(40):
        g = GenProblem(rng, metrics=False, invariants=False, undefined=False, forall=False, num_params=False, ifuns=True,
                       max_actions=3, bounded=True)
        if g.ifuns and problem_ifun_apps(g.problem):
            g.label = "gen-c01-if"
            return g
    return None


# ====================================================================== helpers on problems
def all_exprs(problem):
    out = []
    for a in problem.actions:
        out += [("pre", c) for c in a.preconditions]
        for e in a.effects:
            out += [("effval", e.value), ("effcond", e.condition)] + [("effarg", x) for x in e.fluent.args]
    out += [("goal", g) for g in problem.goals]
    return out


def subterms(e):
    seen, stack = set(), [e]
    while stack:
        x = stack.pop()
        if x in seen:
            continue
        seen.add(x)
        stack.extend(x.args)
    return seen


def problem_ifun_apps(problem):
    return [(w, x) for w, e in all_exprs(problem) for x in subterms(e) if x.is_interpreted_function_exp()]


class IFSer(SerProblem):
    """SerProblem whose interpreted-function table covers, per parameter type, every argument the generated problems
    can produce (integers -3..6: fluents and constants are in 0..3, function values in -1..4,
    at most one +1/-1 around them; both Booleans; every object)."""

    INT_DOMAIN = list(range(-3, 7))

    def ifun_table(self):
        p = self.problem
        funs = OrderedDict()
        exprs = [e for _, e in all_exprs(p)]
        for e in exprs:
            for x in subterms(e):
                if x.is_interpreted_function_exp():
                    funs[x.interpreted_function()] = True
        rows = []
        for f in sorted(funs, key=lambda f: f.name):
            doms = []
            for pp in f.signature:
                t = pp.type
                if t.is_user_type():
                    doms.append(list(p.objects(t)))
                elif t.is_bool_type():
                    doms.append([False, True])
                else:
                    doms.append(self.INT_DOMAIN)
            for args in product(*doms):
                v = f.function(*args)
                rows.append("(%s, %s, %s)" % (gn(self.names.ifun(f)), glist([ser_value(a, self.names) for a in args]),
                                             ser_value(v, self.names)))
        return glist(rows)


def const_value(x):
    if x.is_bool_constant():
        return x.bool_constant_value()
    if x.is_object_exp():
        return x.object()
    return Fraction(x.constant_value())


def true_value(x):
    """value of a ground expression built from constants and interpreted-function applications (None: not such)"""
    if x.is_constant():
        v = const_value(x)
        return int(v) if isinstance(v, Fraction) and v.denominator == 1 else v
    if x.is_interpreted_function_exp():
        args = [true_value(a) for a in x.args]
        if any(a is None for a in args):
            return None
        return x.interpreted_function().function(*args)
    return None


def ser_plan(ser, plan_steps):
    n = ser.names
    return glist([gpair(gn(n.act(a)), glist([ser_value(sx.arg_value(x), n) for x in args])) for a, args in plan_steps])


def plan_key(plan):
    return None if plan is None else tuple((ai.action.name, tuple(str(x) for x in ai.actual_parameters)) for ai in plan.actions)


def plan_json(plan):
    return None if plan is None else ["%s(%s)" % (ai.action.name, ", ".join(str(x) for x in ai.actual_parameters)) for ai in plan.actions]


def status_name(st):
    return str(st).split(".")[-1]


# ====================================================================== Python oracle over the REAL simulator
class PyReach:
    """every state reachable through the real UPSequentialSimulator (cap), goal states, soft-goal values"""

    def __init__(self, problem, cap=3000):
        from unified_planning.engines.sequential_simulator import UPSequentialSimulator
        from unified_planning.model.walkers import StateEvaluator
        import unified_planning as up
        self.problem = problem
        with warnings.catch_warnings():
            warnings.simplefilter("ignore")
            self.sim = UPSequentialSimulator(problem, error_on_failed_checks=False)
        self.se = StateEvaluator(problem)
        sim = self.sim
        s0 = sim.get_initial_state()
        gfe = B.ground_fluent_exps(problem)
        self.insts = B.ground_instances(problem)
        k0 = B.state_key(s0, gfe)
        self.states = OrderedDict([(k0, s0)])
        self.complete = True
        queue = [k0]
        while queue:
            k = queue.pop(0)
            st = self.states[k]
            for a, args in self.insts:
                try:
                    nxt = sim.apply(st, a, args)
                except Exception:  # noqa
                    nxt = None
                if nxt is None:
                    continue
                nk = B.state_key(nxt, gfe)
                if nk in self.states:
                    continue
                if len(self.states) >= cap or B.too_big(nk):
                    self.complete = False
                    queue = []
                    break
                self.states[nk] = nxt
                queue.append(nk)
        self.goal_states = []
        for st in self.states.values():
            try:
                if sim.is_goal(st):
                    self.goal_states.append(st)
            except up.exceptions.UPStateMissingFluentError:
                pass

    def gain(self, st, soft):
        import unified_planning as up
        tot = Fraction(0)
        try:
            for g, w in soft:
                if self.se.evaluate(g, st).bool_constant_value():
                    tot += Fraction(w)
        except up.exceptions.UPStateMissingFluentError:
            return None
        return tot

    def max_gain(self, soft):
        vals = [self.gain(st, soft) for st in self.goal_states]
        vals = [v for v in vals if v is not None]
        return max(vals) if vals else None

    def valid_plans(self, maxlen, cap):
        """plans (lists of ground instances) of length <= maxlen that the real simulator runs into a goal state"""
        import unified_planning as up
        out = []
        s0 = self.sim.get_initial_state()

        def isgoal(st):
            try:
                return self.sim.is_goal(st)
            except up.exceptions.UPStateMissingFluentError:
                return False

        def go(st, pref):
            if len(out) >= cap:
                return
            if isgoal(st):
                out.append(list(pref))
            if len(pref) >= maxlen:
                return
            for a, args in self.insts:
                try:
                    nxt = self.sim.apply(st, a, args)
                except Exception:  # noqa
                    nxt = None
                if nxt is not None:
                    go(nxt, pref + [(a, args)])
        go(s0, [])
        return out


# ====================================================================== running the real meta engines
def solve_with(problem, engine_name, max_states=None):
    """solve through the REAL meta engine wrapped around the registered BFS planner; returns (result | None,
    exception | None, recorded BFS calls)"""
    fac = B.register(problem.environment)
    problem.environment.credits_stream = None
    B.BFSPlanner.calls = []
    old = B.BFSPlanner.max_states
    if max_states is not None:
        B.BFSPlanner.max_states = max_states
    res, exc = None, None
    try:
        with warnings.catch_warnings():
            warnings.simplefilter("ignore")
            with fac.OneshotPlanner(name=engine_name) as pl:
                res = pl.solve(problem)
    except Exception as e:  # noqa
        exc = e
    finally:
        B.BFSPlanner.max_states = old
    calls = B.BFSPlanner.calls
    B.BFSPlanner.calls = []
    return res, exc, calls


def supported(problem, engine_name):
    fac = B.register(problem.environment)
    return fac.engine(engine_name).supports(problem.kind)


class IFRecorder:
    """observation hooks for InterpretedFunctionsPlanner._solve: the knowledge given to every compile, the compiler's
    action map, every validation on the original problem and its calculated_interpreted_functions"""

    def __enter__(self):
        import unified_planning.engines.interpreted_functions_planner as ifp
        rec = self
        self.mod = ifp
        self.compiles, self.validations = [], []
        self.orig = (ifp.InterpretedFunctionsRemover, ifp.SequentialPlanValidator)
        Rem, Val = self.orig

        class RecordingRemover(Rem):
            def __init__(self, interpreted_functions_values=None):
                Rem.__init__(self, interpreted_functions_values)
                self._rec = {"knowledge": list((interpreted_functions_values or {}).items()), "map": None, "problem": None}
                rec.compiles.append(self._rec)

            def _compile(self, problem, compilation_kind):
                res = Rem._compile(self, problem, compilation_kind)
                self._rec["problem"] = res.problem
                self._rec["map"] = dict(res.map_back_action_instance.keywords["map"])
                return res

        class RecordingValidator(Val):
            def validate(self, problem, plan):
                res = Val.validate(self, problem, plan)
                rec.validations.append({"plan": plan, "status": status_name(res.status),
                                        "calc": list((res.calculated_interpreted_functions or {}).items())})
                return res

        ifp.InterpretedFunctionsRemover = RecordingRemover
        ifp.SequentialPlanValidator = RecordingValidator
        return self

    def __exit__(self, *a):
        self.mod.InterpretedFunctionsRemover, self.mod.SequentialPlanValidator = self.orig
        return False


# ====================================================================== oversubscription part
def soft_goals(problem):
    if not problem.quality_metrics:
        return []
    return list(problem.quality_metrics[0].goals.items())


def mask_of_call(problem, soft, sub):
    """which subset a derived problem stands for: the goals appended after the original ones are, per soft goal and in
    order, the goal itself or its negation (a goal equal to TRUE is dropped by add_goal)"""
    em = problem.environment.expression_manager
    extra = list(sub.goals)[len(problem.goals):]
    mask, i = [], 0
    for g, _ in soft:
        if i < len(extra) and extra[i] == g:
            mask.append(True)
            i += 1
        elif i < len(extra) and extra[i] == em.Not(g):
            mask.append(False)
            i += 1
        elif g == em.TRUE():
            mask.append(True)
        elif em.Not(g) == em.TRUE():
            mask.append(False)
        else:
            return None
    return mask if i == len(extra) else None


def gmask(m):
    return glist([gbool(b) for b in m])


def run_oversub(ctx, items, out):
    """items: list of (gen, max_states or None)"""
    import unified_planning as up
    from unified_planning.engines.plan_validator import SequentialPlanValidator
    from unified_planning.engines.results import ValidationResultStatus
    from unified_planning.engines.sequential_simulator import UPSequentialSimulator
    stats = out["stats"]
    for gen, max_states in items:
        p = gen.problem
        label = getattr(gen, "label", "gen")
        try:
            with warnings.catch_warnings():
                warnings.simplefilter("ignore")
                s0 = UPSequentialSimulator(p, error_on_failed_checks=False).get_initial_state()
            ok_kind = supported(p, OVERSUB)
        except (up.exceptions.UPProblemDefinitionError, up.exceptions.UPUsageError):
            stats["oversub_skipped_init"] += 1
            continue
        if not ok_kind:
            stats["oversub_skipped_unsupported_kind"] += 1
            continue
        soft = soft_goals(p)
        hard = p.clone()
        hard.clear_quality_metrics()
        pr = PyReach(hard, cap=out["coq_state_cap"])
        if not pr.complete:
            stats["oversub_skipped_large_state_space"] += 1
            continue
        res, exc, calls = solve_with(p, OVERSUB, max_states)
        out["npi"] += 1
        pi = out["npi"]
        ser = IFSer(p)
        rec = {"part": "oversub", "label": label, "problem": pi, "n_soft": len(soft), "gains": [str(w) for _, w in soft],
               "max_states": max_states, "status": None if res is None else status_name(res.status),
               "plan": None if res is None else plan_json(res.plan), "raised": None if exc is None else "%s: %s" % (type(exc).__name__, str(exc)[:120]),
               "engine_calls": [{"status": status_name(c["status"]), "states": c["states"], "plan": plan_json(c["plan"])} for c in calls]}
        if exc is not None:
            out["fails"].append(("impl-exception", "oversubscription[bfs].solve raised %s" % rec["raised"],
                                 ["c31", "oversub", "raises", type(exc).__name__], rec, p, True))
            stats["oversub_raised"] += 1
            continue
        # ---- replay case
        masks = [mask_of_call(p, soft, c["problem"]) for c in calls]
        if any(m is None for m in masks):
            out["fails"].append(("corr", "a derived problem of the oversubscription planner is not 'goals + (g | not g) per soft goal'",
                                 ["c31", "oversub", "derived-problem-shape"], rec, p, False))
        else:
            rec["queries"] = ["".join("1" if b else "0" for b in m) for m in masks]
            plans = {}

            def pid(plan, plans=plans):
                k = plan_key(plan)
                return None if k is None else plans.setdefault(k, len(plans))
            table = [gpair(gmask(m), gpair(STATUS[status_name(c["status"])], gopt(None if c["plan"] is None else gn(pid(c["plan"])))))
                     for m, c in zip(masks, calls)]
            ocase = "{| oc_ws := %s; oc_table := %s; oc_queries := %s; oc_result := %s |}" % (
                glist([gqc(w) for _, w in soft]), glist(table), glist([gmask(m) for m in masks]),
                gpair(STATUS[rec["status"]], gopt(None if res.plan is None else gn(pid(res.plan)))))
            out["replay"].append(("RO (%s)" % ocase, rec, p, "oversub"))
        # ---- oracle case
        rec["py_states"] = len(pr.states)
        rec["py_max_gain"] = None if pr.max_gain(soft) is None else str(pr.max_gain(soft))
        plan_gain, plan_valid = None, None
        if res.plan is not None:
            v = SequentialPlanValidator(environment=p.environment).validate(p, res.plan)
            plan_valid = v.status == ValidationResultStatus.VALID
            if plan_valid and v.metric_evaluations:
                plan_gain = Fraction(list(v.metric_evaluations.values())[0])
        rec["py_plan_valid"], rec["py_plan_gain"] = plan_valid, None if plan_gain is None else str(plan_gain)
        rec["py"] = py_verdict_oversub(rec, pr, soft, res, plan_valid, plan_gain)
        stats["oversub_status_" + rec["status"]] += 1
        stats["oversub_calls"] += len(calls)
        if any(marks_incomplete(c["status"]) for c in calls):
            stats["oversub_with_incomplete_engine_answer"] += 1
        if len(pr.states) > out["coq_state_cap"] or not pr.complete:
            stats["oversub_coq_oracle_skipped_large"] += 1
            if rec["py"]:
                out["fails"].append(("oracle", "oversubscription planner: " + ", ".join(rec["py"]) + " (real-simulator oracle; state space too large for the Coq oracle)",
                                     ["c31", "oversub", "python-oracle-only"] + rec["py"], rec, p, True))
            continue
        out["defs"][pi] = ["Definition P%d : problem := %s." % (pi, ser.render())]
        steps = None if res.plan is None else [(ai.action, ai.actual_parameters) for ai in res.plan.actions]
        pcase = "CO P%d ({| pc_init := %s; pc_insts := %s; pc_fuel := %s; pc_soft := %s; pc_status := %s; pc_raised := false; pc_plan := %s |})" % (
            pi, ser.ser_state(ser.read_state(s0)), ser_plan(ser, pr.insts), gnat(min(4999, 2 * len(pr.states) + 20)),
            glist([gpair(ser_expr(g, ser.names), gqc(w)) for g, w in soft]), STATUS[rec["status"]],
            gopt(None if steps is None else ser_plan(ser, steps)))
        out["oracle"].append((pi, "CO", pcase, (rec, p, gen, False)))


def marks_incomplete(st):
    return status_name(st) in ("MEMOUT", "INTERNAL_ERROR", "UNSUPPORTED_PROBLEM", "UNSOLVABLE_INCOMPLETELY")


def py_verdict_oversub(rec, pr, soft, res, plan_valid, plan_gain):
    """the property, decided with the real simulator/validator (obviously-correct reading of the property text)"""
    bad = []
    st = rec["status"]
    mx = pr.max_gain(soft)
    if res.plan is not None and not plan_valid:
        bad.append("returned-plan-invalid")
    if st == "SOLVED_OPTIMALLY" and res.plan is not None and plan_valid and pr.complete and mx is not None and (plan_gain is None or plan_gain < mx):
        bad.append("optimal-not-maximal")
    if st == "UNSOLVABLE_PROVEN" and pr.complete and mx is not None:
        bad.append("unsolvable-proven-but-solvable")
    if st in ("SOLVED_OPTIMALLY", "SOLVED_SATISFICING") and res.plan is None:
        bad.append("positive-status-without-plan")
    return bad


# ====================================================================== interpreted-functions part
def lift_plan(steps, comp):
    """a plan of the compiled problem that maps back to `steps` and is valid there (real simulator), or None"""
    import unified_planning as up
    from unified_planning.engines.sequential_simulator import UPSequentialSimulator
    pc, amap = comp["problem"], comp["map"]
    em = pc.environment.expression_manager
    with warnings.catch_warnings():
        warnings.simplefilter("ignore")
        sim = UPSequentialSimulator(pc, error_on_failed_checks=False)
    by_old = {}
    for na, oa in amap.items():
        by_old.setdefault(oa, []).append(na)

    def isgoal(st):
        try:
            return sim.is_goal(st)
        except up.exceptions.UPStateMissingFluentError:
            return False

    def go(st, i, acc):
        if i == len(steps):
            return acc if isgoal(st) else None
        a, args = steps[i]
        for na in by_old.get(a, []):
            extra = list(na.parameters)[len(a.parameters):]
            for ex in product(*[[em.ObjectExp(o) for o in pc.objects(pp.type)] for pp in extra]):
                try:
                    nxt = sim.apply(st, na, tuple(args) + tuple(ex))
                except Exception:  # noqa
                    nxt = None
                if nxt is not None:
                    r = go(nxt, i + 1, acc + [(na, tuple(args) + tuple(ex))])
                    if r is not None:
                        return r
        return None
    return go(sim.get_initial_state(), 0, [])


def shape_tags(problem):
    """narrow description of how the problem uses interpreted functions (what known-finding signatures match on)"""
    from unified_planning.engines.compilers.interpreted_functions_remover import InterpretedFunctionsRemover
    tags = set()
    changing = InterpretedFunctionsRemover()._find_changing_fluents(problem)
    for a in problem.actions:
        elems = []                   # the compiler's condition elements: conjuncts of the preconditions
        todo = list(a.preconditions)
        while todo:
            c = todo.pop()
            if c.is_and():
                todo.extend(c.args)
            else:
                elems.append(set(x for x in subterms(c) if x.is_interpreted_function_exp()))
        for i, ai in enumerate(elems):
            for aj in elems[i + 1:]:
                if (ai & aj) and (len(ai) >= 2 or len(aj) >= 2):
                    tags.add("two-conditions-share-application")
        for c in a.preconditions:
            parts = list(c.args) if c.is_and() else [c]
            for part in parts:
                apps = [x for x in subterms(part) if x.is_interpreted_function_exp()]
                if len(set(x.interpreted_function() for x in apps)) >= 2:
                    tags.add("condition-applies-two-functions")
                if len(apps) >= 2:
                    tags.add("condition-with-two-applications")
        for e in a.effects:
            val_if = any(x.is_interpreted_function_exp() for x in subterms(e.value))
            if any(x.is_interpreted_function_exp() for x in subterms(e.condition)):
                tags.add("if-in-effect-condition")
            if e.is_conditional() and (val_if or e.fluent.fluent() in changing):
                tags.add("conditional-effect-on-if-dependent-fluent")
            if e.is_conditional() and any(x.is_fluent_exp() and x.fluent() in changing for x in subterms(e.condition)):
                tags.add("effect-condition-reads-if-dependent-fluent")
            if not e.is_assignment() and (val_if or e.fluent.fluent() in changing):
                tags.add("increase-of-if-dependent-fluent")
            ft = e.fluent.fluent().type
            bounded = (ft.is_int_type() or ft.is_real_type()) and (ft.lower_bound is not None or ft.upper_bound is not None)
            reads_dep = any(x.is_fluent_exp() and x.fluent() in changing for x in subterms(e.value))
            if bounded and e.fluent.fluent() in changing and not val_if and (not e.is_assignment() or reads_dep):
                # the compiled problem computes the new value from a stale one and checks the bounds on it
                tags.add("bounded-if-dependent-fluent-updated-from-stale-value")
    for w, x in problem_ifun_apps(problem):
        if any(y.is_interpreted_function_exp() for arg in x.args for y in subterms(arg)):
            tags.add("nested-application")
    for g in problem.goals:
        if any(x.is_interpreted_function_exp() for x in subterms(g)):
            tags.add("if-in-goal")
    return sorted(tags)


def run_ifplanner(ctx, gens, out):
    import unified_planning as up
    from unified_planning.engines.plan_validator import SequentialPlanValidator
    from unified_planning.engines.results import ValidationResultStatus
    from unified_planning.engines.sequential_simulator import UPSequentialSimulator
    stats = out["stats"]
    maxlen, plan_cap = out["relax_len"], out["relax_cap"]
    for gen in gens:
        p = gen.problem
        label = getattr(gen, "label", "gen")
        try:
            with warnings.catch_warnings():
                warnings.simplefilter("ignore")
                s0 = UPSequentialSimulator(p, error_on_failed_checks=False).get_initial_state()
            ok_kind = supported(p, IFPLAN)
        except (up.exceptions.UPProblemDefinitionError, up.exceptions.UPUsageError):
            stats["if_skipped_init"] += 1
            continue
        if not ok_kind:
            stats["if_skipped_unsupported_kind"] += 1
            continue
        apps = problem_ifun_apps(p)
        for w in set(w for w, _ in apps):
            stats["if_problems_with_ifun_in_" + w] += 1
        if getattr(gen, "twin", None):
            stats["twin_%s_%d_applications" % (gen.twin["site"], gen.twin["apps"])] += 1
        with IFRecorder() as recd:
            res, exc, calls = solve_with(p, IFPLAN)
        out["npi"] += 1
        pi = out["npi"]
        ser = IFSer(p)
        shape = shape_tags(p)
        rec = {"part": "ifplanner", "label": label, "problem": pi, "shape": shape,
               "status": None if res is None else status_name(res.status), "plan": None if res is None else plan_json(res.plan),
               "raised": None if exc is None else "%s: %s" % (type(exc).__name__, str(exc)[:120]),
               "turns": len(recd.compiles),
               "engine_calls": [{"status": status_name(c["status"]), "states": c["states"]} for c in calls],
               "knowledge": [["%s" % k, "%s" % v] for k, v in (recd.compiles[-1]["knowledge"] if recd.compiles else [])],
               "validations": [{"plan": plan_json(v["plan"]), "status": v["status"], "learnt": ["%s=%s" % kv for kv in v["calc"]]} for v in recd.validations]}
        internal = exc is not None and isinstance(exc, up.exceptions.UPException) and "Internal Error" in str(exc)
        asserted = exc is not None and isinstance(exc, AssertionError) and not str(exc)
        if exc is not None and not internal:
            out["fails"].append(("impl-exception", "interpreted_functions_planning[bfs].solve raised %s" % rec["raised"],
                                 ["c31", "ifplanner", "raises", type(exc).__name__] + shape, rec, p, True))
            stats["if_raised_other"] += 1
            continue
        stats["if_turns_%d" % min(len(recd.compiles), 6)] += 1
        # ---- replay case
        keys, vals, plans = {}, {}, {}

        def kid(k):
            return keys.setdefault(k, len(keys))

        def vid(v):
            return vals.setdefault(v, len(vals))

        def pid(plan):
            k = plan_key(plan)
            return None if k is None else plans.setdefault(k, len(plans))

        def gkn(items):
            return glist([gpair(gn(kid(k)), gn(vid(v))) for k, v in items])
        consistent = True
        for v in recd.validations:
            for k, val in v["calc"]:
                truth = true_value(k)
                if truth is not None:
                    consistent = consistent and const_value(val) == truth
        rec["learnt_values_true"] = consistent
        vi = 0
        ptable = []
        ok_shape = len(calls) == len(recd.compiles)
        for comp, c in zip(recd.compiles, calls):
            positive = status_name(c["status"]) in ("SOLVED_SATISFICING", "SOLVED_OPTIMALLY")
            plan_id = None
            if positive and c["plan"] is not None:
                if vi < len(recd.validations):
                    plan_id = pid(recd.validations[vi]["plan"])
                    vi += 1
                else:
                    ok_shape = False
            ptable.append(gpair(gkn(comp["knowledge"]), gpair(STATUS[status_name(c["status"])], gopt(None if plan_id is None else gn(plan_id)))))
        vtable = []
        for v in recd.validations:
            vtable.append(gpair(gn(pid(v["plan"])), gpair(gbool(v["status"] == "VALID"), gkn(v["calc"]))))
        if internal:
            iout = "IRaised"
        else:
            iout = "(IReturned %s %s)" % (STATUS[rec["status"]], gopt(None if res.plan is None else gn(pid(res.plan))))
        if not ok_shape:
            out["fails"].append(("corr", "the IF planner's compile / solve / validate calls do not pair up as one per turn",
                                 ["c31", "ifplanner", "turn-shape"], rec, p, False))
        else:
            out["replay"].append(("RI {| ic_planner := %s; ic_validate := %s; ic_queries := %s; ic_out := %s |}" % (
                glist(ptable), glist(vtable), glist([gkn(comp["knowledge"]) for comp in recd.compiles]), iout), rec, p, "ifplanner"))
        if not consistent:
            out["fails"].append(("oracle", "a value learnt by the IF planner is not the value of the interpreted function (consistency hypothesis)",
                                 ["c31", "ifplanner", "learnt-value-wrong"] + shape, rec, p, False))
        # ---- oracle: the real simulator on the original problem
        pr = PyReach(p, cap=2000)
        rec["py_states"], rec["py_solvable"] = len(pr.states), bool(pr.goal_states)
        plan_valid = None
        if res is not None and res.plan is not None:
            plan_valid = SequentialPlanValidator(environment=p.environment).validate(p, res.plan).status == ValidationResultStatus.VALID
        rec["py_plan_valid"] = plan_valid
        bad = []
        if plan_valid is False:
            bad.append("returned-plan-invalid")
        if pr.goal_states and (res is None or res.plan is None):
            bad.append("gives-up-on-solvable")
            bad.append("raises-internal-error" if internal else "answer-" + rec["status"])
            if not internal and rec["status"] == "UNSOLVABLE_PROVEN":
                bad.append("unsolvable-proven-but-solvable")
        if res is not None and rec["status"] in ("SOLVED_SATISFICING", "SOLVED_OPTIMALLY") and res.plan is None:
            bad.append("positive-status-without-plan")
        rec["py"] = bad
        key = "if_" + ("raised_internal_error" if internal else "status_" + rec["status"]) + ("_solvable" if pr.goal_states else "_unsolvable")
        stats[key] += 1
        # ---- hypotheses of ifplanner_complete, per instance
        relax_bad = []
        vplans = pr.valid_plans(maxlen, plan_cap) if pr.goal_states else []
        lifted0 = []
        for ci, comp in enumerate(recd.compiles):
            if comp["problem"] is None:
                continue
            for steps in vplans:
                stats["relaxation_checks"] += 1
                lp = lift_plan(steps, comp)
                if lp is None:
                    relax_bad.append({"turn": ci, "plan": ["%s(%s)" % (a.name, ", ".join(map(str, args))) for a, args in steps]})
                elif ci == 0 and len(lifted0) < 2:
                    lifted0.append((steps, lp))
        rec["relaxation_violations"] = relax_bad[:4]
        if relax_bad:
            stats["relaxation_violations"] += len(relax_bad)
            stats["problems_with_relaxation_violation"] += 1
            out["relax_examples"].append({"label": label, "shape": shape, "answer": rec["status"] or rec["raised"],
                                          "solved": bool(res is not None and res.plan is not None), "violations": relax_bad[:2]})
        if len(pr.states) > out["coq_state_cap"] or not pr.complete:
            stats["if_coq_oracle_skipped_large"] += 1
            if bad:
                out["fails"].append(("oracle", "IF planner: " + ", ".join(bad) + " (real-simulator oracle; state space too large for the Coq oracle)",
                                     ["c31", "ifplanner", "python-oracle-only"] + bad + shape + (["relaxation-violated"] if relax_bad else []), rec, p, True))
            continue
        out["defs"][pi] = ["Definition P%d : problem := %s." % (pi, ser.render())]
        steps = None if (res is None or res.plan is None) else [(ai.action, ai.actual_parameters) for ai in res.plan.actions]
        pcase = "CI P%d ({| pc_init := %s; pc_insts := %s; pc_fuel := %s; pc_soft := []; pc_status := %s; pc_raised := %s; pc_plan := %s |})" % (
            pi, ser.ser_state(ser.read_state(s0)), ser_plan(ser, pr.insts), gnat(min(4999, 2 * len(pr.states) + 20)),
            "InternalError" if internal else STATUS[rec["status"]], gbool(internal),
            gopt(None if steps is None else ser_plan(ser, steps)))
        out["oracle"].append((pi, "CI", pcase, (rec, p, gen, bool(relax_bad))))
        # ---- relaxation, first relaxed problem, inside Coq
        if lifted0 and recd.compiles and recd.compiles[0]["problem"] is not None:
            pc = recd.compiles[0]["problem"]
            try:
                serc = IFSer(pc)
                with warnings.catch_warnings():
                    warnings.simplefilter("ignore")
                    sc0 = UPSequentialSimulator(pc, error_on_failed_checks=False).get_initial_state()
                defs = "Definition PC%d : problem := %s." % (pi, serc.render())
                rcs = []
                for steps_o, steps_c in lifted0:
                    rcs.append("CR P%d PC%d ({| rc_init := %s; rc_initc := %s; rc_plan := %s; rc_planc := %s |})" % (
                        pi, pi, ser.ser_state(ser.read_state(s0)), serc.ser_state(serc.read_state(sc0)),
                        ser_plan(ser, steps_o), ser_plan(serc, steps_c)))
                out["defs"][pi].append(defs)
                out["oracle"] += [(pi, "CR", rc, (rec, p, gen, False)) for rc in rcs]
            except ValueError as e:      # expression outside the modelled IR
                stats["relaxation_coq_skipped_unmodelled"] += 1


# ====================================================================== classification of oracle codes
def inherited_tags(gen, problem):
    """recorded simulator deviations that can explain a difference between the documented semantics and what the
    planners (which run on the real simulator) see"""
    from harness.props import c01
    tags = []
    try:
        ex = sx.Explored(0, gen, None)
        for a, args in B.ground_instances(problem):
            if c01.grounding_rejects_equal_assignments(ex, {"action": a, "args": args}):
                tags.append("grounding-rejects-equal-valued-assignments")
                break
    except Exception:  # noqa
        pass
    return tags


def run(ctx):
    from collections import Counter
    ok_proofs = ctx.check_props(extra=["theories/Corr/Corr_C31.v"])
    rng = ctx.rng
    out = {"defs": {}, "npi": 0, "relax_examples": [], "replay": [], "oracle": [], "fails": [], "stats": Counter(),
           "coq_state_cap": 120 if ctx.quick else 500, "relax_len": 3 if ctx.quick else 4, "relax_cap": 12 if ctx.quick else 40}
    import time
    import faulthandler
    import signal
    faulthandler.register(signal.SIGUSR1)       # `kill -USR1 <pid>` prints where a slow run is
    out["times"] = {}
    t0 = time.time()
    n_over = 36 if ctx.quick else 300
    n_if = 90 if ctx.quick else 700
    n_c01if = 10 if ctx.quick else 100
    # ---------------- oversubscription
    items = [(hp, None) for hp in oversub_corpus()]
    items += [(hp, None) for hp in sx.metric_corpus() if hp.label == "metric-oversub"]
    items += [(hp, 2) for hp in oversub_corpus()[:4]]                 # an engine that gives up early: incomplete answers
    for i in range(n_over):
        g = gen_oversub(rng)
        for _ in range(5):           # the meta engines do not accept Boolean action parameters: draw again
            if supported(g.problem, OVERSUB):
                break
            g = gen_oversub(rng)
        items.append((g, None if rng.random() < 0.85 else rng.randint(1, 4)))
    run_oversub(ctx, items, out)
    out["times"]["oversub_python"] = round(time.time() - t0, 1)
    t0 = time.time()
    # ---------------- interpreted functions
    gens = list(if_corpus()) + list(chain_corpus())
    for i in range(12 if ctx.quick else 120):
        gens.append(gen_chain(rng))
    gens += twin_corpus()
    rng_twin = __import__("random").Random("C31-twin:%d" % ctx.seed)    # own stream: the other families keep their draws
    for i in range(14 if ctx.quick else 150):
        gens.append(gen_twin(rng_twin))
    for i in range(n_if):
        gens.append(IFProblem(rng, cond_effects=rng.random() < 0.6, nested=rng.random() < 0.4))
    for i in range(n_c01if):
        g = gen_c01_if(rng)
        if g is not None:
            gens.append(g)
    run_ifplanner(ctx, gens, out)
    out["times"]["if_python"] = round(time.time() - t0, 1)
    t0 = time.time()
    stats = out["stats"]
    # ---------------- Coq: replay of the recorded answers through the models
    rcases = [r[0] for r in out["replay"]]
    bad_r = ctx.coq_failing(rcases, "ok_replay", imports=IMPORTS, shard=400) if rcases else []
    for i in bad_r:
        case, rec, p, part = out["replay"][i]
        if part == "oversub":
            term = "match c with RO c => Some (oversub_solve N (tbl_planner (oc_table c)) (oc_ws c), oversub_queries N (tbl_planner (oc_table c)) (oc_ws c)) | _ => None end"
            what = "OversubscriptionPlanner._solve and the model disagree on the subsets asked or on the answer (corr:C31:oversub_solve)"
        else:
            term = "match c with RI c => Some (iout_of (ifp_loop N kn kn (itbl_planner (ic_planner c)) (itbl_validate (ic_validate c)) kn_update (@length _) (S (S (length (ic_queries c)))) [])) | _ => None end"
            what = "InterpretedFunctionsPlanner._solve and the model disagree on the turns or on the answer (corr:C31:ifp_loop)"
        model = ctx.coq_show(term, imports=IMPORTS, preamble="Definition c := %s.\n" % case)
        ctx.fail("corr", what, ["c31", part, "model-drift"], {"case": rec, "model": model, "problem_text": str(p)}, bool(rec.get("py")))
    out["times"]["coq_replay"] = round(time.time() - t0, 1)
    t0 = time.time()
    # ---------------- Coq: oracle (chunks of problems, each file defines only its own problems)
    from concurrent.futures import ThreadPoolExecutor
    pis = sorted(set(o[0] for o in out["oracle"]))
    per = max(1, (len(pis) + 1) // 2) if ctx.quick else 60        # quick: one file per worker (coqc start-up dominates)
    chunks = [pis[i:i + per] for i in range(0, len(pis), per)]

    def one(ci_chunk):
        ci, chunk = ci_chunk
        cs = [o for o in out["oracle"] if o[0] in set(chunk)]
        pre = "\n".join(d for pi in chunk for d in out["defs"][pi]) + "\n"
        codes = ctx.coq_codes([o[2] for o in cs], "anycode", imports=IMPORTS, preamble=pre, shard=100000, label="oracle%d" % ci)
        return list(zip(cs, codes))
    results = []
    with ThreadPoolExecutor(max_workers=2) as ex:
        for r in ex.map(one, list(enumerate(chunks))):
            results += r
    out["times"]["coq_oracle"] = round(time.time() - t0, 1)
    O_NAMES = {1: "returned-plan-invalid", 2: "optimal-not-maximal", 4: "unsolvable-proven-but-solvable", 8: "positive-status-without-plan"}
    I_NAMES = {1: "returned-plan-invalid", 2: "gives-up-on-solvable", 4: "unsolvable-proven-but-solvable", 8: "positive-status-without-plan"}
    for (pi, kind, case, owner), code in results:
        rec, p, gen, relax_bad = owner
        if kind == "CR":
            if code & 1:
                ctx.fail("oracle", "relaxation (first compiled problem): a plan valid for the original problem lifts, according to the real simulator, to a plan that the documented semantics rejects on the compiled problem",
                         ["c31", "ifplanner", "relaxation-coq-disagrees"] + rec.get("shape", []), {"case": rec, "problem_text": str(p)}, False)
            continue
        names, part = (O_NAMES, "oversub") if kind == "CO" else (I_NAMES, "ifplanner")
        spec, model = code & 31, (code >> 5) & 31
        rec["coq_code"] = code
        if spec & 16 or model & 16:
            stats["coq_oracle_out_of_fuel"] += 1
        spec_bad = sorted(names[b] for b in names if spec & b)
        model_bad = sorted(names[b] for b in names if model & b)
        py_bad = sorted(x for x in rec.get("py", []) if x in names.values())
        if not spec_bad and not py_bad:
            continue
        tags = ["c31", part] + sorted(set(spec_bad) | set(py_bad)) + [t for t in rec.get("py", []) if t.startswith("answer-") or t.startswith("raises-")]
        tags += rec.get("shape", [])
        if relax_bad:
            tags.append("relaxation-violated")
        if spec_bad and not model_bad and not py_bad:
            # the planners run on the real simulator: the answer is right for the code's reading of the semantics
            tags.append("impl-equals-short-circuit-model")
            tags += inherited_tags(gen, p)
        elif spec_bad != py_bad:
            tags.append("oracles-disagree")
            tags += inherited_tags(gen, p)
        ctx.fail("oracle", "%s: %s (documented semantics: %s; model of the simulator: %s; real simulator: %s)" % (
            "oversubscription[bfs]" if part == "oversub" else "interpreted_functions_planning[bfs]",
            ", ".join(sorted(set(spec_bad) | set(py_bad))), spec_bad, model_bad, py_bad), tags,
            {"case": rec, "problem_text": str(p), "code_bits": code}, True)
    for kind, what, tags, rec, p, pf in out["fails"]:
        ctx.fail(kind, what, tags, {"case": rec, "problem_text": str(p)}, pf)
    ftags = Counter(" ".join(f.tags) for f in ctx.failures)
    if not ok_proofs:
        ctx.proof_broken()
    nontrivial = set()
    for case, rec, p, part in out["replay"]:
        if part == "oversub" and len(rec["engine_calls"]) >= 2:
            nontrivial.add(json.dumps([rec["label"], str(p)], default=str))
        if part == "ifplanner" and (rec["turns"] >= 2 or (rec.get("py_solvable") and rec["plan"])):
            nontrivial.add(json.dumps([rec["label"], str(p)], default=str))
    samples = [r[1] for r in out["replay"] if r[3] == "oversub"][:2] + [r[1] for r in out["replay"] if r[3] == "ifplanner"][:2]
    stats["oversub_problems"] = sum(1 for r in out["replay"] if r[3] == "oversub")
    stats["if_problems"] = sum(1 for r in out["replay"] if r[3] == "ifplanner")
    ctx.finish({
        "evaluations": len(out["replay"]) + len(out["oracle"]),
        "distinct_nontrivial": len(nontrivial),
        "rule": "one replay case + one exhaustive-oracle case per solved problem (+ relaxation cases); non-trivial = oversubscription run with >= 2 engine calls, or IF run with >= 2 turns or a solvable problem solved; distinct by problem text",
        "samples": samples,
        "distribution": dict(stats),
        "failure_tags": dict(ftags),
        "relaxation_violation_examples": out["relax_examples"][:8],
        "phase_seconds": out["times"],
        "traces_validated_against_impl": len(out["replay"]),
        "states": sum(o[3][0].get("py_states", 0) for o in out["oracle"] if o[1] != "CR"),
        "trusted_extra": ["harness/bfs_planner.py: exact BFS planner over the real UPSequentialSimulator (the 'underlying planner' the property assumes)",
                          "InterpretedFunctionsRemover is not modelled: relaxation/growth hypotheses validated per instance"],
    }, "proof", assumptions=["underlying planner sound and complete (theorem hypothesis; the BFS planner is exhaustive on the generated finite problems)",
                             "relaxation and growth hypotheses of ifplanner_complete (validated per instance, not proved)",
                             "timeouts out of scope", "soft goals are distinct expressions (dict keys)"])
