"""C02 — Simulator applicability queries agree with apply.

Theorems: coq/theories/Props/C02.v.  Tie: the same exploration as C01 (all ground instances of every reachable state);
the property is evaluated directly on the implementation's answers (is_applicable vs apply, get_applicable_actions vs
the instances for which apply succeeds, is_goal vs get_unsatisfied_goals, state unchanged) and inside Coq (code bit 3),
plus random query interleavings on ONE simulator instance compared with a fresh simulator, plus listing histories:
get_applicable_actions asked in permuted state orders on a new simulator (every problem) and on every ordered pair of
explored states of C02's own family of problems whose effects conflict only in some states (conflict_family,
pair_histories; notes/C02.md).
"""
import json

from harness import simexplore as sx
from harness.props import c01

META = {
    "level": "proof",
    "technique": "Coq proof (is_applicable = isSome apply, applicable-actions exactness, is_goal <-> no unsatisfied goal about the model of the repaired full-check path) + direct oracle on the implementation over explored states and query interleavings",
    "text": "The model's full-check applicability path is proved equal to 'apply returns a state' for all problems/states/actions; on the implementation the statement is checked on every explored (state, ground instance) pair, on get_applicable_actions, on goal queries, on random query interleavings of one simulator instance against fresh instances, and on get_applicable_actions histories (every ordered pair of states of problems with state-dependent effect conflicts; permuted state orders on every problem).",
    "note": "Purity under interleavings is trivial in the (pure) model and therefore only validated on the implementation (theorem named _partial). Same trusted base as C01.",
}


def conflict_family():
    """C02's own corner problems (not shared with C01/C03/C04): actions whose effects conflict only in SOME reachable
    states, together with actions that move between conflicting and non-conflicting states in both directions.  The
    applicability verdict of such an action is state dependent, so nothing about it may be remembered across queries."""
    from unified_planning.model import Fluent, Object, Problem, InstantaneousAction, Variable
    from unified_planning.environment import Environment
    out = []

    def base(label):
        env = Environment()
        tm, em = env.type_manager, env.expression_manager
        T = tm.UserType("T")
        p = Problem(label, env)
        o1, o2 = Object("o1", T, env), Object("o2", T, env)
        p.add_objects([o1, o2])
        return env, tm, em, T, p, o1, o2

    def toggle(env, em, name, f):
        a = InstantaneousAction(name, _env=env)
        a.add_effect(f, em.Not(f))
        return a

    # 1. an unconditional assignment and a conditional one with another value: level := 1; when boost: level := 2
    env, tm, em, T, p, o1, o2 = base("conflict-conditional-overrides-unconditional")
    boost = Fluent("boost", tm.BoolType(), environment=env)
    level = Fluent("level", tm.IntType(0, 5), environment=env)
    p.add_fluent(boost, default_initial_value=True); p.add_fluent(level, default_initial_value=0)
    a = InstantaneousAction("set_level", _env=env)
    a.add_effect(level, 1); a.add_effect(level, 2, boost)
    off = InstantaneousAction("boost_off", _env=env); off.add_precondition(boost); off.add_effect(boost, False)
    on = InstantaneousAction("boost_on", _env=env); on.add_precondition(em.Not(boost)); on.add_effect(boost, True)
    for x in (a, off, on):
        p.add_action(x)
    p.add_goal(em.Equals(level, 1))
    out.append(sx.HandProblem(p, p.name))
    # 2. two conditional assignments of different values whose conditions can both hold (and can both fail)
    env, tm, em, T, p, o1, o2 = base("conflict-two-conditionals-both-may-hold")
    c1 = Fluent("c1", tm.BoolType(), environment=env)
    c2 = Fluent("c2", tm.BoolType(), environment=env)
    x = Fluent("x", tm.IntType(0, 5), environment=env)
    p.add_fluent(c1, default_initial_value=False); p.add_fluent(c2, default_initial_value=True); p.add_fluent(x, default_initial_value=0)
    a = InstantaneousAction("pick", _env=env)
    a.add_effect(x, 1, c1); a.add_effect(x, 2, c2)
    for z in (a, toggle(env, em, "tog1", c1), toggle(env, em, "tog2", c2)):
        p.add_action(z)
    p.add_goal(em.Equals(x, 1))
    out.append(sx.HandProblem(p, p.name))
    # 3. an object fluent assigned under numeric conditions that overlap in exactly one value of the counter
    env, tm, em, T, p, o1, o2 = base("conflict-object-fluent-numeric-conditions")
    loc = Fluent("loc", T, environment=env)
    n = Fluent("n", tm.IntType(0, 4), environment=env)
    p.add_fluent(loc, default_initial_value=o1); p.add_fluent(n, default_initial_value=2)
    a = InstantaneousAction("place", _env=env)
    a.add_effect(loc, o1, em.LE(n, 2)); a.add_effect(loc, o2, em.LE(2, n))
    inc = InstantaneousAction("inc", _env=env); inc.add_increase_effect(n, 1)
    dec = InstantaneousAction("dec", _env=env); dec.add_decrease_effect(n, 1)
    for z in (a, inc, dec):
        p.add_action(z)
    p.add_goal(em.Equals(loc, o2))
    out.append(sx.HandProblem(p, p.name))
    # 4. values read from the state: x := y; when b: x := z   (conflict iff b and y != z), and parameterised targets that
    #    coincide for some instances only: w(l1) := 1; when b: w(l2) := 2
    env, tm, em, T, p, o1, o2 = base("conflict-values-from-state-and-coinciding-targets")
    b = Fluent("b", tm.BoolType(), environment=env)
    x = Fluent("x", tm.IntType(0, 5), environment=env)
    y = Fluent("y", tm.IntType(0, 3), environment=env)
    z = Fluent("z", tm.IntType(0, 3), environment=env)
    w = Fluent("w", tm.IntType(0, 5), t=T, environment=env)
    p.add_fluent(b, default_initial_value=True); p.add_fluent(x, default_initial_value=0)
    p.add_fluent(y, default_initial_value=1); p.add_fluent(z, default_initial_value=2); p.add_fluent(w, default_initial_value=0)
    a = InstantaneousAction("copy", _env=env)
    a.add_effect(x, y); a.add_effect(x, z, b)
    c = InstantaneousAction("two", l1=T, l2=T, _env=env)
    c.add_effect(w(c.parameter("l1")), 1); c.add_effect(w(c.parameter("l2")), 2, b)
    inc = InstantaneousAction("incy", _env=env); inc.add_increase_effect(y, 1)
    for q in (a, c, inc, toggle(env, em, "togb", b)):
        p.add_action(q)
    p.add_goal(em.Equals(x, 2))
    out.append(sx.HandProblem(p, p.name))
    # 5. a conditional forall assignment whose instances conflict only when both are enabled: forall v. when m(v): r := k(v)
    env, tm, em, T, p, o1, o2 = base("conflict-forall-conditional-assignment")
    m = Fluent("m", tm.BoolType(), t=T, environment=env)
    k = Fluent("k", tm.IntType(0, 4), t=T, environment=env)
    r = Fluent("r", tm.IntType(0, 4), environment=env)
    p.add_fluent(m, default_initial_value=True); p.add_fluent(k, default_initial_value=1); p.add_fluent(r, default_initial_value=0)
    p.set_initial_value(k(o2), 2)
    v = Variable("v", T, env)
    a = InstantaneousAction("collect", _env=env)
    a.add_effect(r, k(v), m(v), forall=(v,))
    f = InstantaneousAction("flip", l=T, _env=env)
    f.add_effect(m(f.parameter("l")), em.Not(m(f.parameter("l"))))
    for q in (a, f):
        p.add_action(q)
    p.add_goal(em.Equals(r, 2))
    out.append(sx.HandProblem(p, p.name))
    return out


def _listed(sim, st):
    """get_applicable_actions fully consumed, as a set of (action name, argument strings); 'raised:..' on exception."""
    try:
        return set((a.name, tuple(str(x) for x in args)) for a, args in sim.get_applicable_actions(st))
    except Exception as e:  # noqa
        return "raised:" + type(e).__name__


def pair_histories(ctx, ex, stats, max_reports=3):
    """For every ordered pair (s1, s2) of explored states: a NEW simulator answers get_applicable_actions(s1) (fully
    consumed) and then get_applicable_actions(s2); the second answer must be the set of instances for which apply succeeds
    in s2 (the property's own oracle, computed by a simulator that never answered another listing) and must equal the
    answer of a fresh simulator; is_applicable asked afterwards on the same simulator must agree as well."""
    from unified_planning.engines.sequential_simulator import UPSequentialSimulator
    problem = ex.gen.problem
    insts = ex.gen.ground_instances()
    states = ex.state_objs[:len(ex.states)]
    oracle, fresh = [], []
    for st in states:
        sim = UPSequentialSimulator(problem)
        want = set()
        for a, args in insts:
            try:
                if sim.apply(st, a, args) is not None:
                    want.add((a.name, tuple(str(x) for x in args)))
            except Exception:  # noqa  (reported by the per-pair oracle; no listing oracle for this state)
                want = None
                break
        oracle.append(want)
        fresh.append(_listed(UPSequentialSimulator(problem), st))
    reports = 0
    for i, s1 in enumerate(states):
        for j, s2 in enumerate(states):
            if oracle[j] is None:
                continue
            sim = UPSequentialSimulator(problem)
            first = _listed(sim, s1)
            got = _listed(sim, s2)
            stats["history_pairs"] += 1
            later = {}
            for a, args in insts:
                key = (a.name, tuple(str(x) for x in args))
                try:
                    later[key] = bool(sim.is_applicable(s2, a, args))
                except Exception as e:  # noqa
                    later[key] = "raised:" + type(e).__name__
            bad_isapp = sorted(str(k) for k, v in later.items() if v != (k in oracle[j]))
            payload = {"first_state": ex.ser.json_state(ex.states[i]["vals"]), "second_state": ex.ser.json_state(ex.states[j]["vals"]),
                       "first_answer": sorted(map(str, first)) if isinstance(first, set) else first,
                       "second_answer": sorted(map(str, got)) if isinstance(got, set) else got,
                       "apply_succeeds_in_second_state": sorted(map(str, oracle[j])),
                       "fresh_simulator_answer": sorted(map(str, fresh[j])) if isinstance(fresh[j], set) else fresh[j],
                       "problem_text": str(problem)}
            if reports >= max_reports:
                continue
            if got != oracle[j]:
                reports += 1
                ctx.fail("oracle", "get_applicable_actions(s2) asked after a fully consumed get_applicable_actions(s1) on the same "
                         "simulator differs from the instances for which apply succeeds in s2 (missing %s, extra %s)" % (
                             sorted(map(str, oracle[j] - got)) if isinstance(got, set) else got,
                             sorted(map(str, got - oracle[j])) if isinstance(got, set) else got),
                         ["c02", "get_applicable_actions", "history"], payload, True)
            if got != fresh[j]:
                reports += 1
                ctx.fail("oracle", "query answer changed under interleaving (get_applicable_actions after get_applicable_actions "
                         "of another state): fresh %s, later %s" % (payload["fresh_simulator_answer"], payload["second_answer"]),
                         ["c02", "interleaving", "get_applicable_actions"], payload, True)
            if bad_isapp:
                reports += 1
                ctx.fail("oracle", "is_applicable asked after two get_applicable_actions queries disagrees with apply on %s" % bad_isapp,
                         ["c02", "interleaving", "isapp"], payload, True)
            if ex.ser.read_state(s1) != ex.states[i]["vals"] or ex.ser.read_state(s2) != ex.states[j]["vals"]:
                reports += 1
                ctx.fail("oracle", "a state passed to get_applicable_actions changed", ["c02", "state-changed"], payload, True)


def order_histories(ctx, ex, stats):
    """Cheap version for every explored problem: ONE new simulator lists the explored states in reverse and then in a
    random order; every answer must equal the first answer recorded by the explorer (which is compared with apply)."""
    from unified_planning.engines.sequential_simulator import UPSequentialSimulator
    n = len(ex.states)
    if n < 2:
        return
    sim = UPSequentialSimulator(ex.gen.problem)
    order = list(reversed(range(n)))
    rnd = list(range(n))
    ctx.rng.shuffle(rnd)
    for si in order + rnd:
        srec = ex.states[si]
        want = srec["applicable"] if srec["applicable"] is not None else None
        got = _listed(sim, ex.state_objs[si])
        stats["reordered_listings"] += 1
        if (got if isinstance(got, set) else None) != want:
            ctx.fail("oracle", "query answer changed under interleaving (get_applicable_actions asked in another order of states): "
                     "first %s, later %s" % (None if want is None else sorted(map(str, want)), sorted(map(str, got)) if isinstance(got, set) else got),
                     ["c02", "interleaving", "get_applicable_actions"],
                     {"state": ex.ser.json_state(srec["vals"]), "problem_text": str(ex.gen.problem)}, True)
            break


def run(ctx):
    import unified_planning as up
    from unified_planning.engines.sequential_simulator import UPSequentialSimulator
    ok_proofs = ctx.check_props(extra=["theories/Corr/Corr_C01.v"])
    if ctx.quick:
        exs = c01.gather(ctx, 35, depth=2, max_states=5, max_inst=60)
    else:
        exs = c01.gather(ctx, 400, depth=4, max_states=12, max_inst=200)
    # C02's own family: effects that conflict only in some states (explored like the corpus, then all state pairs)
    family = []
    for hp in conflict_family():
        ex = sx.explore_problem(len(exs), ctx.rng, 3 if ctx.quick else 4, 6 if ctx.quick else 12, 40, {}, gen=hp)
        exs.append(ex)
        family.append(ex)
    live = [ex for ex in exs if ex.skipped is None]
    pre = c01.preamble(live)
    cases, owners = [], []
    stats = {"problems": len(exs), "pairs": 0, "applicable": 0, "states": 0, "interleaved_queries": 0,
             "applicable_sets_checked": 0, "goal_queries": 0, "history_pairs": 0, "reordered_listings": 0,
             "state_dependent_conflict_instances": 0}
    nontrivial = set()
    for ex in live:
        insts = ex.gen.ground_instances()
        by_state = {}
        for rec in ex.pairs:
            stats["pairs"] += 1
            stats["applicable"] += rec["apply"] is not None
            cases.append("(P%d, %s)" % (ex.idx, sx.ser_pair_case(ex, rec)))
            owners.append((ex, rec))
            by_state.setdefault(rec["sidx"], []).append(rec)
            if rec["raised"] or rec["isapp"] != (rec["apply"] is not None) or rec.get("state_changed"):
                ctx.fail("oracle", "is_applicable=%s but apply %s (raised: %s; state changed: %s)" % (
                    rec["isapp"], "returned a state" if rec["apply"] is not None else "returned None", rec["raised"], rec.get("state_changed")),
                    ["c02", "is_applicable-vs-apply"] + (["raises"] if rec["raised"] else []),
                    {"pair": sx.pair_json(ex, rec), "problem_text": str(ex.gen.problem)}, True)
            if rec["apply"] is not None or rec["isapp"] is False:
                nontrivial.add(json.dumps(sx.pair_json(ex, rec), default=str, sort_keys=True))
        for si, srec in enumerate(ex.states):
            stats["states"] += 1
            stats["goal_queries"] += 1
            if srec["raised"]:
                ctx.fail("oracle", "query raised: %s" % srec["raised"], ["c02", "raises"],
                         {"state": ex.ser.json_state(srec["vals"]), "problem_text": str(ex.gen.problem)}, True)
                continue
            ok_goal = (srec["isgoal"] == (srec["nunsat"] == 0)) if srec["nunsat"] is not None else (srec["isgoal"] is False)
            if not ok_goal:
                ctx.fail("oracle", "is_goal=%s but get_unsatisfied_goals has %s entries" % (srec["isgoal"], srec["nunsat"]),
                         ["c02", "is_goal-vs-unsatisfied-goals"],
                         {"state": ex.ser.json_state(srec["vals"]), "problem_text": str(ex.gen.problem)}, True)
            recs = by_state.get(si, [])
            if len(recs) == len(insts) and srec["applicable"] is not None:
                stats["applicable_sets_checked"] += 1
                want = set((r["action"].name, tuple(str(x) for x in r["args"])) for r in recs if r["apply"] is not None)
                if want != srec["applicable"]:
                    ctx.fail("oracle", "get_applicable_actions differs from the instances for which apply succeeds",
                             ["c02", "get_applicable_actions"],
                             {"state": ex.ser.json_state(srec["vals"]), "extra": sorted(map(str, srec["applicable"] - want)),
                              "missing": sorted(map(str, want - srec["applicable"])), "problem_text": str(ex.gen.problem)}, True)
        # listing histories: all ordered state pairs on a new simulator (conflict family), reordered listings (all)
        if ex in family:
            verdicts = {}
            for rec in ex.pairs:
                verdicts.setdefault((rec["action"].name, tuple(map(str, rec["args"]))), set()).add(rec["apply"] is not None)
            stats["state_dependent_conflict_instances"] += sum(1 for v in verdicts.values() if len(v) == 2)
            pair_histories(ctx, ex, stats)
        order_histories(ctx, ex, stats)
        # query interleavings on the SAME simulator instance, against a fresh instance per query
        nq = 12 if ctx.quick else 60
        for _ in range(nq):
            if not ex.pairs:
                break
            rec = ctx.rng.choice(ex.pairs)
            st = ex.state_objs[rec["sidx"]]
            kind = ctx.rng.choice(["isapp", "apply", "goal", "isapp"])
            stats["interleaved_queries"] += 1
            try:
                if kind == "isapp":
                    got = bool(ex.sim.is_applicable(st, rec["action"], rec["args"]))
                    want = rec["isapp"]
                elif kind == "apply":
                    nxt = ex.sim.apply(st, rec["action"], rec["args"])
                    got = None if nxt is None else ex.ser.read_state(nxt)
                    want = rec["apply"]
                    fresh = UPSequentialSimulator(ex.gen.problem)
                    n2 = fresh.apply(st, rec["action"], rec["args"])
                    want2 = None if n2 is None else ex.ser.read_state(n2)
                    if want2 != got:
                        want = want2
                else:
                    got = bool(ex.sim.is_goal(st))
                    want = bool(UPSequentialSimulator(ex.gen.problem).is_goal(st))
            except Exception as e:  # noqa
                got, want = "raised:" + type(e).__name__, "no exception"
            if got != want or ex.ser.read_state(st) != rec["state"]:
                ctx.fail("oracle", "query answer changed under interleaving (%s): first/fresh %s, later %s" % (kind, want, got),
                         ["c02", "interleaving", kind],
                         {"pair": sx.pair_json(ex, rec), "problem_text": str(ex.gen.problem)}, True)
    codes = ctx.coq_codes(cases, "fun pc => code (fst pc) (snd pc)", imports=c01.IMPORTS, preamble=pre, shard=200, label="pairs")
    for (ex, rec), code in zip(owners, codes):
        if code & 8 and not rec["raised"] and rec["isapp"] == (rec["apply"] is not None):
            ctx.fail("harness", "Coq and Python disagree on the is_applicable/apply comparison", ["c02", "harness"],
                     {"pair": sx.pair_json(ex, rec)}, False)
    if not ok_proofs:
        ctx.proof_broken()
    ctx.finish({
        "evaluations": len(cases) + stats["states"] + stats["interleaved_queries"] + stats["history_pairs"] + stats["reordered_listings"],
        "distinct_nontrivial": len(nontrivial),
        "rule": "C01 exploration with ALL ground instances per reachable state; non-trivial = applicable or is_applicable False; plus goal queries, applicable-action sets, random query interleavings on one simulator instance, get_applicable_actions asked on every ordered pair of states of the state-dependent-conflict family and in permuted state orders on every problem",
        "samples": [sx.pair_json(ex, rec) for (ex, rec) in owners[:3]],
        "distribution": stats,
        "traces_validated_against_impl": len(cases),
    }, "proof", assumptions=["simulated effects are not generated"])
