"""C02 — Simulator applicability queries agree with apply.

Theorems: coq/theories/Props/C02.v.  Tie: the same exploration as C01 (all ground instances of every reachable state);
the property is evaluated directly on the implementation's answers (is_applicable vs apply, get_applicable_actions vs
the instances for which apply succeeds, is_goal vs get_unsatisfied_goals, state unchanged) and inside Coq (code bit 3),
plus random query interleavings on ONE simulator instance compared with a fresh simulator.
"""
import json

from harness import simexplore as sx
from harness.props import c01

META = {
    "level": "proof",
    "technique": "Coq proof (is_applicable = isSome apply, applicable-actions exactness, is_goal <-> no unsatisfied goal about the model of the repaired full-check path) + direct oracle on the implementation over explored states and query interleavings",
    "text": "The model's full-check applicability path is proved equal to 'apply returns a state' for all problems/states/actions; on the implementation the statement is checked on every explored (state, ground instance) pair, on get_applicable_actions, on goal queries and on random query interleavings of one simulator instance against fresh instances.",
    "note": "Purity under interleavings is trivial in the (pure) model and therefore only validated on the implementation (theorem named _partial). Same trusted base as C01.",
}


def run(ctx):
    import unified_planning as up
    from unified_planning.engines.sequential_simulator import UPSequentialSimulator
    ok_proofs = ctx.check_props(extra=["theories/Corr/Corr_C01.v"])
    if ctx.quick:
        exs = c01.gather(ctx, 35, depth=2, max_states=5, max_inst=60)
    else:
        exs = c01.gather(ctx, 400, depth=4, max_states=12, max_inst=200)
    live = [ex for ex in exs if ex.skipped is None]
    pre = c01.preamble(live)
    cases, owners = [], []
    stats = {"problems": len(exs), "pairs": 0, "applicable": 0, "states": 0, "interleaved_queries": 0,
             "applicable_sets_checked": 0, "goal_queries": 0}
    nontrivial = set()
    for ex in live:
        insts = ex.gen.ground_instances()
        by_state = {}
        for rec in ex.pairs:
            stats["pairs"] += 1
            stats["applicable"] += rec["apply"] is not None
            cases.append("(P%d, %s)" % (ex.idx, sx.ser_pair_case(ex, rec)))
            owners.append((ex, rec))
            by_state.setdefault(rec["sidx"], []).append(rec)
            if rec["raised"] or rec["isapp"] != (rec["apply"] is not None) or rec.get("state_changed"):
                ctx.fail("oracle", "is_applicable=%s but apply %s (raised: %s; state changed: %s)" % (
                    rec["isapp"], "returned a state" if rec["apply"] is not None else "returned None", rec["raised"], rec.get("state_changed")),
                    ["c02", "is_applicable-vs-apply"] + (["raises"] if rec["raised"] else []),
                    {"pair": sx.pair_json(ex, rec), "problem_text": str(ex.gen.problem)}, True)
            if rec["apply"] is not None or rec["isapp"] is False:
                nontrivial.add(json.dumps(sx.pair_json(ex, rec), default=str, sort_keys=True))
        for si, srec in enumerate(ex.states):
            stats["states"] += 1
            stats["goal_queries"] += 1
            if srec["raised"]:
                ctx.fail("oracle", "query raised: %s" % srec["raised"], ["c02", "raises"],
                         {"state": ex.ser.json_state(srec["vals"]), "problem_text": str(ex.gen.problem)}, True)
                continue
            ok_goal = (srec["isgoal"] == (srec["nunsat"] == 0)) if srec["nunsat"] is not None else (srec["isgoal"] is False)
            if not ok_goal:
                ctx.fail("oracle", "is_goal=%s but get_unsatisfied_goals has %s entries" % (srec["isgoal"], srec["nunsat"]),
                         ["c02", "is_goal-vs-unsatisfied-goals"],
                         {"state": ex.ser.json_state(srec["vals"]), "problem_text": str(ex.gen.problem)}, True)
            recs = by_state.get(si, [])
            if len(recs) == len(insts) and srec["applicable"] is not None:
                stats["applicable_sets_checked"] += 1
                want = set((r["action"].name, tuple(str(x) for x in r["args"])) for r in recs if r["apply"] is not None)
                if want != srec["applicable"]:
                    ctx.fail("oracle", "get_applicable_actions differs from the instances for which apply succeeds",
                             ["c02", "get_applicable_actions"],
                             {"state": ex.ser.json_state(srec["vals"]), "extra": sorted(map(str, srec["applicable"] - want)),
                              "missing": sorted(map(str, want - srec["applicable"])), "problem_text": str(ex.gen.problem)}, True)
        # query interleavings on the SAME simulator instance, against a fresh instance per query
        nq = 12 if ctx.quick else 60
        for _ in range(nq):
            if not ex.pairs:
                break
            rec = ctx.rng.choice(ex.pairs)
            st = ex.state_objs[rec["sidx"]]
            kind = ctx.rng.choice(["isapp", "apply", "goal", "isapp"])
            stats["interleaved_queries"] += 1
            try:
                if kind == "isapp":
                    got = bool(ex.sim.is_applicable(st, rec["action"], rec["args"]))
                    want = rec["isapp"]
                elif kind == "apply":
                    nxt = ex.sim.apply(st, rec["action"], rec["args"])
                    got = None if nxt is None else ex.ser.read_state(nxt)
                    want = rec["apply"]
                    fresh = UPSequentialSimulator(ex.gen.problem)
                    n2 = fresh.apply(st, rec["action"], rec["args"])
                    want2 = None if n2 is None else ex.ser.read_state(n2)
                    if want2 != got:
                        want = want2
                else:
                    got = bool(ex.sim.is_goal(st))
                    want = bool(UPSequentialSimulator(ex.gen.problem).is_goal(st))
            except Exception as e:  # noqa
                got, want = "raised:" + type(e).__name__, "no exception"
            if got != want or ex.ser.read_state(st) != rec["state"]:
                ctx.fail("oracle", "query answer changed under interleaving (%s): first/fresh %s, later %s" % (kind, want, got),
                         ["c02", "interleaving", kind],
                         {"pair": sx.pair_json(ex, rec), "problem_text": str(ex.gen.problem)}, True)
    codes = ctx.coq_codes(cases, "fun pc => code (fst pc) (snd pc)", imports=c01.IMPORTS, preamble=pre, shard=200, label="pairs")
    for (ex, rec), code in zip(owners, codes):
        if code & 8 and not rec["raised"] and rec["isapp"] == (rec["apply"] is not None):
            ctx.fail("harness", "Coq and Python disagree on the is_applicable/apply comparison", ["c02", "harness"],
                     {"pair": sx.pair_json(ex, rec)}, False)
    if not ok_proofs:
        ctx.proof_broken()
    ctx.finish({
        "evaluations": len(cases) + stats["states"] + stats["interleaved_queries"],
        "distinct_nontrivial": len(nontrivial),
        "rule": "C01 exploration with ALL ground instances per reachable state; non-trivial = applicable or is_applicable False; plus goal queries, applicable-action sets and random query interleavings on one simulator instance",
        "samples": [sx.pair_json(ex, rec) for (ex, rec) in owners[:3]],
        "distribution": stats,
        "traces_validated_against_impl": len(cases),
    }, "proof", assumptions=["simulated effects are not generated"])
