"""C25 — DeltaSTN decides temporal consistency exactly.

Theorems: coq/theories/Props/C25.v (model coq/theories/Model/Stn.v; proofs Proofs/Stn_proofs.v, Proofs/Stn_termination.v).
Tie: correspondence — (a) exhaustive trees of insertion sequences over 3 events with bounds -2..2, every node made by
copy_stn()+add() of its parent, (b) random histories of constructor/add/copy_stn calls over up to 6 events with rational
bounds; the real DeltaSimpleTemporalNetwork is run in-process, Coq runs the model on the same history and compares
check_stn, distances, get_stn_model, `in`, get_constraints.  An add() exceeding 2 s is reported as Diverged.
"""
import ast
import itertools
import json
import os
import signal
from fractions import Fraction

from harness.core import gn, gz, gq, gnat, gbool, glist, gopt, gpair, REPO

META = {
    "level": "proof",
    "technique": "Coq proof (loop invariants of the incremental Bellman-Ford propagation: feasibility coverage of the queue, walk witnesses, "
                 "negative closed walk at detection; termination by a potential argument with an explicit computed fuel) + "
                 "model/implementation correspondence by vm_compute (exhaustive insertion trees, random histories with copies)",
    "text": "For epsilon = 0 and arbitrary rational bounds, for every history of constructor/add/copy_stn calls: check_stn <=> the inserted "
            "constraints are solvable; while consistent the reported model is the least non-negative solution; every network's state depends "
            "only on its own lineage; _inc_check terminates (explicit fuel computed from the history).",
    "note": "No axioms (Print Assumptions closed). Theorems are for epsilon = 0 (class default); other epsilons only differentially tested. "
            "Linked DeltaNeighbors lists are modelled as persistent lists: no field of an existing cell is ever assigned (re-checked on the "
            "source with ast at every run), so sharing between copies is unobservable. Missing dict keys are read as the setdefault value; "
            "a KeyError/any exception of the implementation is reported. Trusted: Coq kernel/vm_compute, harness serialiser.",
}

IMPORTS = ["UPV.Model.Stn", "UPV.Corr.Corr_C25"]
FUEL = 4000


def coq_failing_2(ctx, cases, ok_fn, shard, **kw):
    """ctx.coq_failing, but at most two coqc processes at a time (the machine is shared)."""
    res = []
    for base in range(0, len(cases), 2 * shard):
        res += [base + i for i in ctx.coq_failing(cases[base:base + 2 * shard], ok_fn, shard=shard, **kw)]
    return res

TIME_LIMIT = 2.0


class Diverged(Exception):
    pass


def _alarm(signum, frame):
    raise Diverged()


def timed_add(stn, x, y, b):
    signal.signal(signal.SIGALRM, _alarm)
    signal.setitimer(signal.ITIMER_REAL, TIME_LIMIT)
    try:
        stn.add(x, y, b)
    finally:
        signal.setitimer(signal.ITIMER_REAL, 0)


# ------------------------------------------------------------------------------------------------------------------
def aliasing_check():
    """The model represents the linked neighbour lists by persistent lists.  That is sound only if no DeltaNeighbors
    field is assigned after construction and the dicts are copied by copy_stn.  Fail closed on anything else."""
    path = os.path.join(REPO, "unified_planning", "model", "delta_stn.py")
    tree = ast.parse(open(path).read())
    problems = []
    for node in ast.walk(tree):
        targets = []
        if isinstance(node, ast.Assign):
            targets = node.targets
        elif isinstance(node, (ast.AugAssign, ast.AnnAssign)):
            targets = [node.target]
        elif isinstance(node, ast.Delete):
            targets = node.targets
        for t in targets:
            for sub in ast.walk(t):
                if isinstance(sub, ast.Attribute) and sub.attr in ("next", "dst", "bound") and isinstance(sub.ctx, (ast.Store, ast.Del)):
                    problems.append("line %d: assignment to .%s" % (node.lineno, sub.attr))
        if isinstance(node, ast.Call) and isinstance(node.func, ast.Name) and node.func.id in ("setattr", "delattr"):
            problems.append("line %d: %s()" % (node.lineno, node.func.id))
    return problems


# ------------------------------------------------------------------------------------------------------------------
def bellman_ford(cs):
    """Independent oracle.  cs: list of (x, y, b) meaning x - y <= b.  Returns (solvable, least non-negative solution)."""
    ev = sorted(set(e for c in cs for e in c[:2]))
    d = {e: Fraction(0) for e in ev}
    for _ in range(len(ev) + 1):
        changed = False
        for x, y, b in cs:
            if d[x] + b < d[y]:
                d[y] = d[x] + b
                changed = True
        if not changed:
            return True, {e: -d[e] for e in ev}
    return False, None


def floyd_warshall_consistent(cs):
    ev = sorted(set(e for c in cs for e in c[:2]))
    INF = None
    w = {(a, b): (Fraction(0) if a == b else INF) for a in ev for b in ev}
    for x, y, b in cs:
        if w[(x, y)] is INF or b < w[(x, y)]:
            w[(x, y)] = Fraction(b)
    for k in ev:
        for i in ev:
            for j in ev:
                if w[(i, k)] is not INF and w[(k, j)] is not INF:
                    s = w[(i, k)] + w[(k, j)]
                    if w[(i, j)] is INF or s < w[(i, j)]:
                        w[(i, j)] = s
    return all(w[(e, e)] >= 0 for e in ev)


def property_violations(stn, cs, events):
    """Checks the PROPERTY on one implementation object against the oracle; returns a list of reasons."""
    why = []
    ok, least = bellman_ford(cs)
    assert ok == floyd_warshall_consistent(cs), "oracles disagree"
    if stn.check_stn() != ok:
        why.append("check_stn()=%s but the inserted constraints are %s" % (stn.check_stn(), "solvable" if ok else "unsolvable"))
    elif ok:
        for e in least:
            try:
                m = stn.get_stn_model(e)
            except Exception as ex:
                why.append("get_stn_model(%s) raised %r" % (e, ex))
                continue
            if m != least[e]:
                why.append("get_stn_model(%s)=%s, least non-negative solution has %s" % (e, m, least[e]))
    return why


# ------------------------------------------------------------------------------------------------------------------
def g_cstr(c):
    return "(%d%%N, %d%%N, %s)" % (c[0], c[1], gq(c[2]))


def g_op(o):
    if o[0] == "new":
        return "OpNew %s" % gq(o[1])
    if o[0] == "add":
        return "OpAdd %s %s %s %s" % (gnat(o[1]), gn(o[2]), gn(o[3]), gq(o[4]))
    return "OpCopy %s" % gnat(o[1])


def observe(stn, events):
    dist = [(k, Fraction(v)) for k, v in stn.distances.items()]
    model, contains = [], []
    for e in events:
        try:
            model.append(Fraction(stn.get_stn_model(e)))
        except KeyError:
            model.append(None)
        contains.append(e in stn)
    cons = [(k, [(Fraction(b), dst) for b, dst in lst]) for k, lst in stn.get_constraints().items()]
    return {"sat": stn.check_stn(), "dist": dist, "model": model, "contains": contains, "cons": cons}


def g_obs(o):
    return "mko %s %s %s %s %s" % (
        gbool(o["sat"]),
        glist([gpair(gn(k), gq(v)) for k, v in o["dist"]]),
        glist([gopt(None if m is None else gq(m)) for m in o["model"]]),
        glist([gbool(b) for b in o["contains"]]),
        glist([gpair(gn(k), glist([gpair(gq(b), gn(d)) for b, d in lst])) for k, lst in o["cons"]]))


def run_history(ops, events):
    """Runs the history on the real implementation."""
    from unified_planning.model.delta_stn import DeltaSimpleTemporalNetwork as STN
    heap, lineage, trace = [], [], []
    diverged = False
    error = None
    try:
        for o in ops:
            if o[0] == "new":
                heap.append(STN(epsilon=o[1]))
                lineage.append(([], o[1]))
                trace.append(heap[-1].check_stn())
            elif o[0] == "copy":
                heap.append(heap[o[1]].copy_stn())
                lineage.append((list(lineage[o[1]][0]), lineage[o[1]][1]))
                trace.append(heap[-1].check_stn())
            else:
                _, i, x, y, b = o
                timed_add(heap[i], x, y, b)
                lineage[i][0].append((x, y, b))
                trace.append(heap[i].check_stn())
    except Diverged:
        diverged = True
    except Exception as ex:  # the implementation must not raise
        error = "%s: %s" % (type(ex).__name__, ex)
    obs = [] if (diverged or error) else [observe(s, events) for s in heap]
    return heap, lineage, trace, obs, diverged, error


def g_case(ops, events, trace, obs, diverged):
    return "mk %s %s %s %s %s %s" % (
        gnat(FUEL), glist([gn(e) for e in events]), glist([g_op(o) for o in ops]), gbool(diverged),
        glist([gbool(t) for t in trace]), glist(["(%s)" % g_obs(o) for o in obs]))


# ------------------------------------------------------------------------------------------------------------------
def diamond_ops(rng):
    """Multi-path family: y reaches v over a short path (one edge, weight S) and over a longer but tighter path
    (k+1 edges, total L < S); v has a successor w.  All stored weights are >= 0, so all distances are 0 until the trigger
    x - y <= b (b very negative) lowers y: the breadth-first propagation then lowers v twice (first to d[y]+S, later to
    d[y]+L) and the second lowering has to reach w again.  A closing edge w -> x makes the network inconsistent exactly when
    the cycle over the LONG path is negative; in the inconsistent variant the cycle over the short path is not negative.
    Returns (events, ops, expected_consistent_per_network)."""
    scale = rng.choice([1, 1, 2, 3, Fraction(1, 2), Fraction(1, 3), Fraction(3, 2), Fraction(2, 3), Fraction(5, 4)])
    k = rng.randint(1, 2)
    nev = 4 + k + rng.randint(0, 1 if k == 1 else 0)
    perm = list(range(nev))
    rng.shuffle(perm)
    y, v, w, x = perm[0], perm[1], perm[2], perm[3]
    mids = perm[4:4 + k]
    lw = [rng.randint(0, 2) for _ in range(k + 1)]
    L = sum(lw)
    S = L + rng.randint(1, 4)
    c = rng.randint(0, 2)
    b = -(S + c + rng.randint(2, 6))
    chain = [y] + mids + [v]
    long_edges = [(chain[i], chain[i + 1], lw[i]) for i in range(k + 1)]
    first_long, other_long = long_edges[0], long_edges[1:]
    rng.shuffle(other_long)
    short = (y, v, S)
    succ = [(v, w, c)]
    if nev > 4 + k:                                           # a second successor, behind w
        succ.append((w, perm[4 + k], rng.randint(0, 2)))
    # y's neighbour list is scanned newest first: the short edge is inserted after y's first long edge in 80 % of the cases,
    # so that v is lowered over the short path before the long path reaches it
    pre = [first_long] + other_long + succ
    rng.shuffle(pre)
    if rng.random() < 0.8:
        pre.insert(rng.randint(pre.index(first_long) + 1, len(pre)), short)
    else:
        pre.insert(rng.randint(0, pre.index(first_long)), short)
    variant = rng.choice(["consistent", "inconsistent", "open"])
    lo, hi = -(b + S + c), -(b + L + c)                       # closing weight c2: short cycle >= 0 iff c2 >= lo; long cycle >= 0 iff c2 >= hi
    closing = None
    if variant == "consistent":
        closing = (w, x, hi + rng.randint(0, 2))
    elif variant == "inconsistent":
        closing = (w, x, rng.randint(lo, hi - 1))
    trigger = (x, y, b)
    sc = lambda e: (e[0], e[1], e[2] * scale)
    ops = [("new", 0)] + [("add", 0) + sc(e) for e in pre]
    tail = [trigger] + ([closing] if closing else [])
    if closing and rng.random() < 0.5:
        tail.reverse()                                        # closing edge first: the trigger's own propagation must detect the cycle
    nnet = 1
    if rng.random() < 0.5:                                    # the same tail on the original and on a copy taken before it
        ops.append(("copy", 0))
        nnet = 2
        ops += [("add", 1) + sc(e) for e in tail]
        if rng.random() < 0.5:
            ops += [("add", 0) + sc(e) for e in tail]
    else:
        ops += [("add", 0) + sc(e) for e in tail]
    return list(range(nev)), ops, nnet, variant


# ------------------------------------------------------------------------------------------------------------------
EV3 = [0, 1, 2]


def code(stn):
    c = 0
    for e in reversed(EV3):
        if e in stn:
            v = stn.distances[e]
            ce = int(v) + 20 if (v == int(v) and -19 <= v <= 0) else 31   # 31: a value the model never produces
        else:
            ce = 0
        c = ce + 32 * c
    return (1 if stn.check_stn() else 0) + 2 * c


def tree_codes(prefix, alphabet, depth):
    from unified_planning.model.delta_stn import DeltaSimpleTemporalNetwork as STN
    root = STN()
    for c in prefix:
        timed_add(root, *c)
    out = [code(root)]

    def rec(s, dpt):
        if dpt == 0:
            return
        for c in alphabet:
            s2 = s.copy_stn()
            timed_add(s2, *c)
            out.append(code(s2))
            rec(s2, dpt - 1)
        out.append(code(s))
    rec(root, depth)
    return out


def tree_find_violation(prefix, alphabet, depth):
    """Re-walks a failing tree with the oracle to find a node on which the PROPERTY fails (or copies interfere)."""
    from unified_planning.model.delta_stn import DeltaSimpleTemporalNetwork as STN
    root = STN()
    for c in prefix:
        root.add(*c)
    found = []

    def rec(s, seq, dpt):
        if found:
            return
        why = property_violations(s, seq, EV3)
        if why:
            found.append({"sequence": seq, "why": why, "kind": "property"})
            return
        if dpt == 0:
            return
        before = (s.check_stn(), dict(s.distances), s.get_constraints())
        for c in alphabet:
            s2 = s.copy_stn()
            s2.add(*c)
            rec(s2, seq + [c], dpt - 1)
            if found:
                return
            if (s.check_stn(), dict(s.distances), s.get_constraints()) != before:
                found.append({"sequence": seq, "then_on_copy": c, "why": ["an insertion into a copy changed the original"], "kind": "copy"})
                return
    rec(root, list(prefix), depth)
    return found[0] if found else None


# ------------------------------------------------------------------------------------------------------------------
def run(ctx):
    ok_proofs = ctx.check_props(extra=["theories/Corr/Corr_C25.v"])
    rng = ctx.rng
    dist = {"tree_nodes": 0, "trees": 0, "histories": 0, "ops": 0, "adds": 0, "copies": 0, "networks": 0,
            "inconsistent_networks": 0, "consistent_networks": 0, "eps_nonzero_histories": 0, "rational_bounds": 0, "diverged": 0}

    alias = aliasing_check()
    if alias:
        ctx.fail("translator", "delta_stn.py assigns DeltaNeighbors fields after construction; the persistent-list model of shared "
                 "adjacency lists is no longer justified: %s" % "; ".join(alias), ["c25", "aliasing"], {"problems": alias}, False)

    # ---- A. exhaustive trees.  alphabet: x - y <= b for x, y in 3 events, b in -2..2 (45 insertions).
    alphabet = [(x, y, b) for x in EV3 for y in EV3 for b in (-2, -1, 0, 1, 2)]
    if ctx.quick:
        # every sequence of length <= 3: one tree of depth 2 below each first insertion
        prefixes, depth = [[c] for c in alphabet], 2
        scope = "every insertion sequence of length <= 3 over 3 events, bounds -2..2 (45 + 45^2 + 45^3 nodes)"
    else:
        # every sequence of length <= 4, first insertion up to renaming of events: 0-0<=b or 0-1<=b
        prefixes, depth = [[(0, 0, b)] for b in (-2, -1, 0, 1, 2)] + [[(0, 1, b)] for b in (-2, -1, 0, 1, 2)], 3
        scope = "every insertion sequence of length <= 4 over 3 events, bounds -2..2, the first insertion up to renaming of events"
    tcases, traw, tdefs = [], [], []
    for p in prefixes:
        if dist["diverged"] >= 2:
            break                                             # every further tree would also wait for the time limit
        try:
            codes = tree_codes(p, alphabet, depth)
        except Diverged:
            dist["diverged"] += 1
            ctx.fail("diverged", "an add() call exceeded %.0f s in the exhaustive tree below %r" % (TIME_LIMIT, p),
                     ["c25", "diverged", "tree", "eps=0"], {"prefix": p}, True)
            continue
        except Exception as ex:
            ctx.fail("impl-exception", "exception in the exhaustive tree below %r: %r" % (p, ex), ["c25", "impl-exception", "tree"], {"prefix": p}, True)
            continue
        dist["tree_nodes"] += sum(len(alphabet) ** k for k in range(depth + 1))
        dist["trees"] += 1
        traw.append({"prefix": p, "depth": depth, "observations": len(codes)})
        # the expected observations are given in chunks (a single list literal of 10^5 numerals overflows coqc's stack)
        k = len(tcases)
        names = []
        for j in range(0, len(codes), 4000):
            names.append("exp_%d_%d" % (k, j // 4000))
            tdefs.append((k, "Definition %s : list Z := %s.\n" % (names[-1], glist([gz(c) for c in codes[j:j + 4000]]))))
        tcases.append("mkt %s %s %s %s %s %s" % (gnat(depth), gnat(FUEL), glist([gn(e) for e in EV3]), glist([g_cstr(c) for c in p]),
                                                 "alphabet", "(" + " ++ ".join(names) + ")"))
    pre = "Definition alphabet : list cstr := %s.\n" % glist([g_cstr(c) for c in alphabet])
    if ctx.quick:
        bad_t = coq_failing_2(ctx, tcases, "ok_tree", 23, imports=IMPORTS, preamble=pre + "".join(d for _, d in tdefs), timeout=1700)
    else:
        bad_t = []
        for k in range(0, len(tcases), 2):     # two trees (two coqc processes) at a time; both files carry the expected lists of the pair
            sub = [kk for kk in (k, k + 1) if kk < len(tcases)]
            bad_t += [sub[i] for i in ctx.coq_failing([tcases[kk] for kk in sub], "ok_tree", imports=IMPORTS, shard=1, timeout=1700,
                                                      preamble=pre + "".join(d for kk, d in tdefs if kk in sub))]
    for i in bad_t:
        v = tree_find_violation(traw[i]["prefix"], alphabet, depth)
        tags = ["c25", "tree", "eps=0"] + ([v["kind"]] if v else [])
        ctx.fail("corr", "exhaustive insertion tree below %r: implementation and model disagree (corr:C25:add/_inc_check/copy_stn)%s"
                 % (traw[i]["prefix"], ("; property fails: " + "; ".join(v["why"])) if v else ""),
                 tags, {"tree": traw[i], "violation": v, "theorem_or_corr": "corr:C25:tree"}, v is not None)

    # ---- B. random histories with copies, rational bounds, several networks
    n_hist = 250 if ctx.quick else 5000
    cases, raw = [], []
    nontrivial = set()
    pools = {
        "int": [-3, -2, -1, 0, 0, 1, 1, 2, 3, 4, 5],
        "rat": [Fraction(1, 2), Fraction(-1, 2), Fraction(3, 2), Fraction(-3, 2), Fraction(1, 3), Fraction(-2, 3), Fraction(5, 3),
                Fraction(7, 4), Fraction(-1, 4), 0, 1, 2, -1, 3, Fraction(5, 2)],
        "pos": [0, 1, 2, 3, Fraction(1, 2), Fraction(5, 2), 4, 6, -1, Fraction(-1, 2)],
    }
    n_diamond = 200 if ctx.quick else 2000
    dist["diamond_histories"] = {"consistent": 0, "inconsistent": 0, "open": 0}
    for h in range(n_diamond + n_hist):
        if dist["diverged"] >= 6:
            break
        if h < n_diamond:
            eps = 0
            events, ops, nnet, variant = diamond_ops(rng)
            nadd = sum(1 for o in ops if o[0] == "add")
            dist["diamond_histories"][variant] += 1
            dist["rational_bounds"] += sum(1 for o in ops if o[0] == "add" and Fraction(o[4]).denominator != 1)
        else:
            nev = rng.randint(2, 6)
            events = list(range(nev))
            eps = 0
            if rng.random() < 0.12:
                eps = rng.choice([Fraction(1, 10), Fraction(1, 2), 1])
                dist["eps_nonzero_histories"] += 1
            pool = pools[rng.choice(["int", "rat", "rat", "pos"])]
            nops = rng.randint(5, 45)
            ops = [("new", eps)]
            nnet = 1
            nadd = 0
            for _ in range(nops):
                r = rng.random()
                if r < 0.10 and nnet < 6:
                    ops.append(("copy", rng.randrange(nnet)))
                    nnet += 1
                elif r < 0.12 and nnet < 6:
                    ops.append(("new", eps))
                    nnet += 1
                elif nadd < 40:
                    x, y = rng.randrange(nev), rng.randrange(nev)
                    if rng.random() < 0.85:
                        while y == x and nev > 1:
                            y = rng.randrange(nev)
                    b = rng.choice(pool)
                    if isinstance(b, Fraction) and b.denominator != 1:
                        dist["rational_bounds"] += 1
                    ops.append(("add", rng.randrange(nnet) if rng.random() < 0.5 else nnet - 1, x, y, b))
                    nadd += 1
        heap, lineage, trace, obs, diverged, error = run_history(ops, events)
        dist["histories"] += 1
        dist["ops"] += len(ops)
        dist["adds"] += nadd
        dist["copies"] += sum(1 for o in ops if o[0] == "copy")
        dist["networks"] += nnet
        rec = {"events": events, "eps": str(eps), "ops": [[str(a) for a in o] for o in ops], "trace": trace,
               "final": [{"sat": o["sat"], "model": [None if m is None else str(m) for m in o["model"]]} for o in obs]}
        if error is not None:
            ctx.fail("impl-exception", "the implementation raised %s" % error, ["c25", "impl-exception", "eps=0" if eps == 0 else "eps!=0"], rec, eps == 0)
            continue
        if diverged:
            dist["diverged"] += 1
        for o in obs:
            dist["inconsistent_networks" if not o["sat"] else "consistent_networks"] += 1
        raw.append((rec, heap, lineage, eps, diverged))
        cases.append(g_case(ops, events, trace, obs, diverged))
        if nadd >= 5:
            nontrivial.add(json.dumps(rec["ops"]))

    bad = coq_failing_2(ctx, cases, "ok", 225 if ctx.quick else 350, imports=IMPORTS, timeout=1700)
    shown = 0
    for i in bad:
        rec, heap, lineage, eps, diverged = raw[i]
        why = []
        tags = ["c25", "history", "eps=0" if eps == 0 else "eps!=0"]
        if diverged:
            why.append("an add() call exceeded %.0f s (Diverged)" % TIME_LIMIT)
            tags.append("diverged")
        elif eps == 0:
            for k, s in enumerate(heap):
                w = property_violations(s, lineage[k][0], rec["events"])
                if w:
                    why += ["network %d: %s" % (k, x) for x in w]
                    tags.append("sat-mismatch" if "check_stn" in w[0] else "model-mismatch")
        model = ""
        if shown < 4:
            shown += 1
            model = ctx.coq_show("match run_trace %s [] (c_ops c) [] with Some (h, t) => Some (t, map (observe (c_events c)) h) | None => None end" % gnat(FUEL),
                                 imports=IMPORTS, preamble="Definition c := %s.\n" % cases[i])
        ctx.fail("corr", "STN history: implementation and model disagree (corr:C25:run_ops/observe)" + ("; property fails: " + "; ".join(why[:4]) if why else ""),
                 tags, {"case": rec, "lineages": [[(x, y, str(b)) for x, y, b in l[0]] for l in lineage], "model": model,
                        "theorem_or_corr": "corr:C25:history"}, bool(why) and eps == 0)

    if not ok_proofs:
        ctx.proof_broken()
    ctx.finish({
        "evaluations": dist["tree_nodes"] + len(cases),
        "distinct_nontrivial": dist["tree_nodes"] - dist["trees"] * (1 + len(alphabet)) + len(nontrivial),
        "exhaustive": True,
        "exhaustive_scope": scope,
        "rule": "tree part: one evaluation per node = per distinct insertion sequence (non-trivial: length >= 3); history part: distinct op lists "
                "with >= 5 insertions; every history has 1-6 networks, <= 40 insertions, <= 6 events",
        "samples": [r[0] for r in raw[:2]] + traw[:1],
        "distribution": dist,
        "traces_validated_against_impl": dist["tree_nodes"] + len(cases),
    }, "proof", assumptions=["theorems: epsilon = 0; epsilon != 0 only differentially tested (%d histories)" % dist["eps_nonzero_histories"],
                             "events are numbers", "model fuel %d pops per add in the correspondence; Python add() limited to %.0f s" % (FUEL, TIME_LIMIT)])
