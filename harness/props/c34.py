"""C34 — HTN task-network ordering extraction is exact.

Theorems: coq/theories/Props/C34.v (about coq/theories/Model/Htn.v, proofs in Proofs/Htn_proofs.v).
Tie: correspondence — task networks are built through the real API (TaskNetwork, HierarchicalProblem.task_network,
Method), partial_order()/total_order() are observed, and Coq evaluates the model on the same network (the harness
serialises what it BUILT, not what it reads back from the FNodes) and compares the answers as lists.
"""
import itertools
import json
from fractions import Fraction

from harness.core import gn, gz, gq, glist, gopt, gpair

META = {
    "level": "proof",
    "technique": "Coq proof (induction over the _build_total_order loop: unique linear extension <-> returned list; decoding lemma for "
                 "precedence constraints) + exhaustive/random model-implementation correspondence evaluated by vm_compute",
    "text": "For every number of subtasks and every finite list of temporal constraints: partial_order returns exactly the given precedences, "
            "total_order returns L iff L is the unique linear extension, any non-precedence temporal constraint gives neither; the Gallina "
            "model is tied to ordering.py/task_network.py by exhaustive enumeration of relations over <=4 subtasks and mixed random networks.",
    "note": "No axioms (Print Assumptions closed). Trusted: Coq kernel/vm_compute, harness serialiser (description of the built constraint -> "
            "Gallina literal). Subtask identifiers are numbers; Timing delays are exact rationals. total_order theorems assume both ends of "
            "every precedence are subtasks of the network (property text: 'precedences between its subtasks'). "
            "Defect #30 repaired in /repo by a fix commit (TotalOrder keeps the given precedences).",
}

IMPORTS = ["UPV.Model.Htn", "UPV.Corr.Corr_C34"]


def coq_failing_2(ctx, cases, ok_fn, shard, **kw):
    """ctx.coq_failing, but at most two coqc processes at a time (the machine is shared)."""
    res = []
    for base in range(0, len(cases), 2 * shard):
        res += [base + i for i in ctx.coq_failing(cases[base:base + 2 * shard], ok_fn, shard=shard, **kw)]
    return res

PREAMBLE = "Local Open Scope N_scope.\n"

# ---------------------------------------------------------------------------------------------------------------
# constraint descriptions.  ("prec", i, j, form) | ("lt", (kind, cont, delay), (kind, cont, delay)) with the operands also
# possibly "other" | ("other", what, i, j) | ("static", what)
KIND = {"start": "KStart", "end": "KEnd", "gstart": "KGlobalStart", "gend": "KGlobalEnd"}


def g_operand(o):
    if o == "other":
        return "EOther"
    k, c, d = o
    return "(TM %s %s %s)" % (KIND[k], "None" if c is None else "(Some %d)" % c, gq(d))


def g_cons(d):
    if d[0] == "prec":
        return "Pc %d %d" % (d[1], d[2])
    if d[0] == "lt":
        return "Lc %s %s" % (g_operand(d[1]), g_operand(d[2]))
    if d[0] == "other":
        return "Oc"
    if d[0] == "static":
        return "Sc"
    raise AssertionError(d)


def g_case(tasks, descs, total, partial):
    return "mk %s %s %s %s" % (
        glist([str(t) for t in tasks]),
        glist([g_cons(d) for d in descs]),
        gopt(None if total is None else glist([str(t) for t in total])),
        gopt(None if partial is None else glist(["(%d,%d)" % p for p in partial])))


# ---------------------------------------------------------------------------------------------------------------
class Builder:
    """Builds networks through the real API."""

    def __init__(self):
        import unified_planning as up
        from unified_planning.shortcuts import UserType, Object
        from unified_planning.model.htn import HierarchicalProblem, TaskNetwork, Method, Task
        self.up = up
        self.Task = Task
        self.TaskNetwork = TaskNetwork
        self.Method = Method
        self.HP = HierarchicalProblem
        self.Loc = UserType("Loc")
        self.objs = [Object("l%d" % i, self.Loc) for i in range(2)]
        self.task = Task("a")
        self.top = Task("top", x=self.Loc)
        self.nmeth = 0

    def container(self, which):
        """0: stand-alone TaskNetwork, 1: initial task network of a HierarchicalProblem, 2: Method."""
        if which == 0:
            tn = self.TaskNetwork()
            var = tn.add_variable("v", self.Loc)
        elif which == 1:
            pb = self.HP("p")
            pb.add_objects(self.objs)
            tn = pb.task_network
            var = tn.add_variable("v", self.Loc)
        else:
            self.nmeth += 1
            tn = self.Method("m%d" % self.nmeth, x=self.Loc)
            tn.set_task(self.top)
            var = tn.parameter("x")
        return tn, var

    def operand(self, o, sub):
        from unified_planning.model.timing import Timing, Timepoint, TimepointKind
        if o == "other":
            return 5
        k, c, d = o
        if k in ("gstart", "gend"):
            tp = Timepoint(TimepointKind.GLOBAL_START if k == "gstart" else TimepointKind.GLOBAL_END)
        elif c is None:
            tp = Timepoint(TimepointKind.START if k == "start" else TimepointKind.END)
        else:
            tp = sub[c].start if k == "start" else sub[c].end
        return Timing(delay=d, timepoint=tp)

    def add(self, tn, var, sub, foreign, d):
        """Adds the described constraint; returns True when the network's constraint list grew."""
        from unified_planning.shortcuts import LT, GT, LE, GE, Equals, Not, And, Or, Plus, ObjectExp
        allsub = dict(sub)
        allsub.update(foreign)
        before = len(tn.constraints)
        if d[0] == "prec":
            _, i, j, form = d
            a, b = allsub[i], allsub[j]
            if form == 0:
                tn.set_strictly_before(a, b)
            elif form == 1:
                tn.add_constraint(LT(a.end, b.start))
            elif form == 2:
                tn.add_constraint(GT(b.start, a.end))
            elif form == 3:
                tn.set_strictly_before(a.end + 0, b.start)
            else:
                tn.add_constraint(LT(a.end + Fraction(0), b.start - 0))
        elif d[0] == "lt":
            l = self.operand(d[1], allsub)
            r = self.operand(d[2], allsub)
            tn.add_constraint(LT(l, r))
        elif d[0] == "other":
            _, what, i, j = d
            a, b = allsub[i], allsub[j]
            if what == "le":
                c = LE(a.end, b.start)
            elif what == "ge":
                c = GE(b.start, a.end)
            elif what == "eq":
                c = Equals(a.end, b.start)
            elif what == "not":
                c = Not(LT(a.end, b.start))
            elif what == "and":
                c = And(LT(a.end, b.start), LT(b.end + 1, a.start))
            elif what == "or":
                c = Or(LT(a.end, b.start), LT(b.end, a.start))
            else:
                raise AssertionError(what)
            tn.add_constraint(c)
        elif d[0] == "static":
            what = d[1]
            if what == "var":
                tn.add_constraint(Equals(var, ObjectExp(self.objs[0])))
            elif what == "or":
                tn.add_constraint(Or(Equals(var, ObjectExp(self.objs[0])), Equals(var, ObjectExp(self.objs[1]))))
            elif what == "false":
                tn.add_constraint(False)
            else:
                tn.add_constraint(True)   # ignored by add_constraint
        return len(tn.constraints) > before

    def network(self, which, ids, descs, foreign_ids=()):
        tn, var = self.container(which)
        sub = {}
        for t in ids:
            sub[t] = tn.add_subtask(self.task, ident="t%d" % t)
        foreign = {}
        if foreign_ids:
            other = self.TaskNetwork()
            for t in foreign_ids:
                foreign[t] = other.add_subtask(self.task, ident="t%d" % t)
        kept = []
        for d in descs:
            if self.add(tn, var, sub, foreign, d):
                kept.append(d)
        try:
            to = tn.total_order()
            po = tn.partial_order()
        except Exception as e:  # the implementation must answer, never raise
            return kept, None, None, "%s: %s" % (type(e).__name__, e)
        num = lambda s: int(s[1:])
        try:
            total = None if to is None else [num(s) for s in to]
            partial = None if po is None else [(num(a), num(b)) for a, b in po]
        except Exception:
            return kept, None, None, "answer is not made of subtask identifiers: total_order=%r partial_order=%r" % (to, po)
        return kept, total, partial, None


# ---------------------------------------------------------------------------------------------------------------
def spec(ids, kept):
    """Independent oracle written from the property text.  Returns (claim_partial, expected_partial_set,
    claim_total, expected_total) where claim_* says whether the property makes a claim for this network."""
    temporal = [d for d in kept if d[0] != "static"]
    is_prec = lambda d: d[0] == "prec" or (
        d[0] == "lt" and d[1] != "other" and d[2] != "other" and d[1][0] == "end" and d[2][0] == "start"
        and d[1][1] is not None and d[2][1] is not None and d[1][2] == 0 and d[2][2] == 0)
    if not all(is_prec(d) for d in temporal):
        return True, None, True, None                      # any other kind of temporal constraint: neither
    pairs = [(d[1], d[2]) if d[0] == "prec" else (d[1][1], d[2][1]) for d in temporal]
    if not all(a in ids and b in ids for a, b in pairs):
        return True, set(pairs), False, None               # not 'between its subtasks': no claim about total_order
    exts = []
    for perm in itertools.permutations(sorted(ids)):
        pos = {t: k for k, t in enumerate(perm)}
        if all(pos[a] < pos[b] for a, b in pairs):
            exts.append(list(perm))
            if len(exts) > 1:
                break
    return True, set(pairs), True, (exts[0] if len(exts) == 1 else None)


def property_fails(ids, kept, total, partial):
    cp, ep, ct, et = spec(ids, kept)
    why = []
    if cp:
        if ep is None:
            if partial is not None:
                why.append("partial_order reported for a network with a non-precedence temporal constraint")
        elif partial is None or set(partial) != ep:
            why.append("partial_order != the given precedences")
    if ct and total != et:
        why.append("total_order != unique linear extension (or None)")
    return why


# ---------------------------------------------------------------------------------------------------------------
def iso_classes(n):
    """One representative bitmask per isomorphism class of irreflexive relations on n points."""
    cells = [(i, j) for i in range(n) for j in range(n) if i != j]
    idx = {c: k for k, c in enumerate(cells)}
    perms = []
    for p in itertools.permutations(range(n)):
        perms.append([idx[(p[i], p[j])] for (i, j) in cells])
    seen = bytearray(1 << len(cells))
    reps = []
    for m in range(1 << len(cells)):
        if seen[m]:
            continue
        reps.append(m)
        bits = [k for k in range(len(cells)) if m >> k & 1]
        for pm in perms:
            im = 0
            for k in bits:
                im |= 1 << pm[k]
            seen[im] = 1
    return cells, reps


def run(ctx):
    ok_proofs = ctx.check_props(extra=["theories/Corr/Corr_C34.v"])
    rng = ctx.rng
    B = Builder()
    cases, raw = [], []
    dist = {"exhaustive_n": {}, "total": 0, "partial_only": 0, "neither": 0, "containers": [0, 0, 0],
            "kinds": {}}
    nontrivial = set()

    def record(which, ids, descs, foreign=()):
        kept, total, partial, exc = B.network(which, ids, descs, foreign)
        if exc is not None:
            dist["impl_exceptions"] = dist.get("impl_exceptions", 0) + 1
            temporal = [d for d in kept if d[0] != "static"]
            ctx.fail("impl-exception", "total_order()/partial_order() misbehaved: %s" % exc,
                     ["c34", "impl-exception", "all-precedences" if all(d[0] == "prec" for d in temporal) else "mixed-constraints"],
                     {"container": which, "subtasks": list(ids), "constraints": kept, "exception": exc}, True)
            return
        raw.append({"container": ["TaskNetwork", "HierarchicalProblem.task_network", "Method"][which],
                    "subtasks": list(ids), "constraints": kept, "total_order": total, "partial_order": partial})
        cases.append(g_case(ids, kept, total, partial))
        dist["containers"][which] += 1
        if total is not None:
            dist["total"] += 1
        elif partial is not None:
            dist["partial_only"] += 1
        else:
            dist["neither"] += 1
        for d in kept:
            k = d[0] if d[0] in ("prec", "static") else (d[0] + ":" + (d[1] if d[0] == "other" else "timing"))
            dist["kinds"][k] = dist["kinds"].get(k, 0) + 1
        if len(ids) >= 2 and kept:
            nontrivial.add(json.dumps([sorted(ids), kept], default=str))

    def relation_case(n, pairs):
        """pairs over 0..n-1; subtasks get random distinct identifiers, are added in random order, the constraints are
        added in random order and in random syntactic forms."""
        names = rng.sample(range(12), n)
        ids = names[:]
        rng.shuffle(ids)
        descs = [("prec", names[i], names[j], rng.randrange(5)) for i, j in pairs]
        rng.shuffle(descs)
        record(rng.randrange(3), ids, descs)

    # ---- A. exhaustive: every relation (self-loops included) on n <= 3 subtasks, every irreflexive relation on 4
    #         (thorough: every relation on 4 incl. self loops, every irreflexive relation on 5 up to isomorphism)
    for n in range(0, 4):
        cells = [(i, j) for i in range(n) for j in range(n)]
        for m in range(1 << len(cells)):
            relation_case(n, [c for k, c in enumerate(cells) if m >> k & 1])
        dist["exhaustive_n"][str(n)] = 1 << len(cells)
    cells4 = [(i, j) for i in range(4) for j in range(4)]
    irr4 = [c for c in cells4 if c[0] != c[1]]
    if ctx.quick:
        for m in range(1 << len(irr4)):
            relation_case(4, [c for k, c in enumerate(irr4) if m >> k & 1])
        dist["exhaustive_n"]["4 (irreflexive)"] = 1 << len(irr4)
        nsl = 3000
        for _ in range(nsl):
            m = rng.randrange(1 << 16)
            relation_case(4, [c for k, c in enumerate(cells4) if m >> k & 1])
        dist["random_n4_with_self_loops"] = nsl
    else:
        for m in range(1 << 16):
            relation_case(4, [c for k, c in enumerate(cells4) if m >> k & 1])
        dist["exhaustive_n"]["4"] = 1 << 16
        cells5, reps5 = iso_classes(5)
        for m in reps5:
            relation_case(5, [c for k, c in enumerate(cells5) if m >> k & 1])
        dist["exhaustive_n"]["5 (irreflexive, one labelled instance per isomorphism class)"] = len(reps5)
    n_exh = len(cases)

    # ---- B. mixed networks: precedences together with delayed / non-qualitative / static constraints, chains with
    #         redundant precedences (defect #30 shape), foreign subtasks
    n_mixed = 2500 if ctx.quick else 40000
    fr = [Fraction(1, 2), Fraction(-3, 2), 1, 2, -1, 3, Fraction(7, 3)]
    for _ in range(n_mixed):
        n = rng.randint(1, 6)
        names = rng.sample(range(20), n)
        ids = names[:]
        rng.shuffle(ids)
        shape = rng.random()
        descs = []
        pick = lambda: rng.choice(names)
        foreign = []
        if shape < 0.3:
            # a total order given with redundant (transitive) precedences, shuffled
            order = names[:]
            rng.shuffle(order)
            pr = [(order[i], order[i + 1]) for i in range(n - 1)]
            extra = [(order[i], order[j]) for i in range(n) for j in range(i + 2, n) if rng.random() < 0.5]
            if rng.random() < 0.3 and pr:
                pr.pop(rng.randrange(len(pr)))            # ... or almost total
            descs = [("prec", a, b, rng.randrange(5)) for a, b in pr + extra]
            rng.shuffle(descs)
            if rng.random() < 0.3:
                descs.insert(rng.randint(0, len(descs)), ("static", rng.choice(["var", "or", "false", "true"])))
        else:
            for _k in range(rng.randint(0, 8)):
                r = rng.random()
                if r < 0.62:
                    descs.append(("prec", pick(), pick(), rng.randrange(5)))
                elif r < 0.70:
                    dl, dr = rng.choice([(rng.choice(fr), 0), (0, rng.choice(fr)), (rng.choice(fr), rng.choice(fr))])
                    descs.append(("lt", ("end", pick(), dl), ("start", pick(), dr)))
                elif r < 0.76:
                    kl, kr = rng.choice([("start", "start"), ("start", "end"), ("end", "end")])
                    descs.append(("lt", (kl, pick(), 0), (kr, pick(), 0)))
                elif r < 0.80:
                    descs.append(rng.choice([("lt", ("gstart", None, 0), ("start", pick(), 0)),
                                             ("lt", ("end", pick(), 0), ("gend", None, 0)),
                                             ("lt", ("end", None, 0), ("start", pick(), 0)),
                                             ("lt", ("end", pick(), 0), ("start", None, 0))]))
                elif r < 0.83:
                    descs.append(rng.choice([("lt", ("end", pick(), 0), "other"), ("lt", "other", ("start", pick(), 0))]))
                elif r < 0.90:
                    descs.append(("other", rng.choice(["le", "ge", "eq", "not", "and", "or"]), pick(), pick()))
                elif r < 0.97:
                    descs.append(("static", rng.choice(["var", "or", "false", "true"])))
                else:
                    f = 100 + rng.randrange(3)
                    if f not in foreign:
                        foreign.append(f)
                    descs.append(("prec", pick(), f, 1) if rng.random() < 0.5 else ("prec", f, pick(), 1))
        record(rng.randrange(3), ids, descs, foreign)

    bad = coq_failing_2(ctx, cases, "ok", 2600, imports=IMPORTS, preamble=PREAMBLE)
    shown = 0
    for i in bad:
        c = raw[i]
        why = property_fails(c["subtasks"], c["constraints"], c["total_order"], c["partial_order"])
        temporal = [d for d in c["constraints"] if d[0] != "static"]
        tags = ["c34", "container:" + c["container"], "n=%d" % len(c["subtasks"]),
                "all-precedences" if all(d[0] == "prec" for d in temporal) else "mixed-constraints"]
        cp, ep, ct, et = spec(c["subtasks"], c["constraints"])
        if et is not None:
            tags.append("unique-linear-extension")
        tags += ["fails:" + w.split(" ")[0] for w in why]
        model = "(not evaluated: only the first 5 failing cases are re-evaluated for the report)"
        if shown < 5:
            shown += 1
            model = ctx.coq_show("(tn_total_order (c_tasks c) (c_cons c), tn_partial_order (c_tasks c) (c_cons c))",
                                 imports=IMPORTS, preamble=PREAMBLE + "Definition c := %s.\n" % cases[i])
        ctx.fail("corr", "task network ordering: implementation and model disagree (corr:C34:ordering/_build_total_order)"
                 + ("; property fails: " + "; ".join(why) if why else ""), tags,
                 {"case": c, "model": model, "expected_partial_set": sorted(ep) if ep else ep, "expected_total": et,
                  "theorem_or_corr": "corr:C34:partial_order/total_order"}, bool(why))
    if not ok_proofs:
        ctx.proof_broken()
    ctx.finish({
        "evaluations": len(cases),
        "distinct_nontrivial": len(nontrivial),
        "exhaustive": True,
        "exhaustive_scope": dist["exhaustive_n"],
        "rule": "distinct = distinct (subtask set, list of added constraints); non-trivial = at least 2 subtasks and at least one constraint. "
                "Exhaustive part: %d relations (every relation incl. self-loops on <=3 subtasks; on 4 subtasks every irreflexive relation in quick, "
                "every relation in thorough; thorough adds one labelled instance per isomorphism class of irreflexive relations on 5), each built "
                "with random identifiers, insertion order, syntactic form and container; mixed part: %d random networks" % (n_exh, n_mixed),
        "samples": [raw[7], raw[n_exh - 1], raw[n_exh + 1], raw[-1]],
        "distribution": dist,
        "traces_validated_against_impl": len(cases),
    }, "proof", assumptions=["subtask identifiers are modelled by numbers", "the harness serialises the constraint it built (its description), "
                             "the model never sees FNodes", "total_order theorems: both ends of each precedence are subtasks of the network"])
