"""C21 — The two PDDL readers produce equivalent problems.

Validated property (see C18): PDDL texts from a small text-level generator (harness/gen/pddltext.py: forms the writer
never emits) and every domain/problem pair shipped under unified_planning/test/pddl are read with
PDDLReader(force_up_pddl_reader=True) and PDDLReader(force_ai_planning_reader=True).  When both readers accept a text the
two problems are serialised with one numbering of the (lower-cased) names and compared inside Coq by the verified
`bisim_check` (objects, initial state, applicability, successors, goals, metric values) and `metric_eqb`.
"""
import json
import os
import warnings

from harness import iocheck as io
from harness.core import REPO
from harness.gen.pddlgen import key_lower
from harness.gen.pddltext import PddlText, corpus_texts
from harness.props.c18 import features, report

META = {
    "level": "translation_validation",
    "technique": "Coq-verified bisimulation checker with behavioural metric comparison (soundness proved for all problems, metrics, states and plans) run on the problems the two real PDDL readers produce from generated texts and from the shipped PDDL files; independent simulator oracle for every disagreement",
    "text": "bisim_check compares the UPPDDLReader's and the AI-planning reader's problems for the same text: objects per type, initial state, applicability and successors on the explored reachable states, goal verdicts, action costs / final metric values, metric direction and class; sound for all plans over the ground instances when the explored graph is closed, up to the explored depth otherwise.  metric_eqb is the structural comparison of the two metrics.",
    "note": "Not modelled: the two parsers. Trusted: Coq kernel/vm_compute, harness serialiser, alignment of the two problems by lower-cased names. Texts rejected by either reader are outside the property's domain and are counted by reason (the third-party parser rejects untyped variables, non-conjunctive goals, negative literals, binary minus, actions without :precondition). Temporal files are compared structurally (temporal_structure_eqb) when both readers accept them.",
}

PDDL_DIR = os.path.join(REPO, "unified_planning", "test", "pddl")


def shipped_pairs():
    out = []
    for d in sorted(os.listdir(PDDL_DIR)):
        full = os.path.join(PDDL_DIR, d)
        if not os.path.isdir(full):
            continue
        files = sorted(f for f in os.listdir(full) if f.endswith(".pddl"))
        doms = [f for f in files if f in ("domain.pddl", "d.pddl")]
        if not doms:
            continue
        for f in files:
            if f not in doms:
                out.append(("%s/%s" % (d, f), open(os.path.join(full, doms[0]), encoding="utf-8-sig").read(),
                            open(os.path.join(full, f), encoding="utf-8-sig").read()))
    return out


def budget(ninsts, nground, quick):
    """exploration bound so that a case costs at most ~ (states x instances) checked edges; comparing two states is
    quadratic in the number of ground fluents, so very large problems (citycar: 2907 instances, 660 ground fluents)
    are only compared statically (depth 0: objects, signatures, initial state, goal and metric at the initial state);
    one layer of citycar costs more than 15 minutes of vm_compute"""
    edges = 1500 if quick else 4000
    if ninsts * nground > 200000:
        return (0, 1)
    cap = max(1, min(25 if quick else 40, edges // max(1, ninsts)))
    depth = 4 if cap >= 10 else (2 if cap >= 3 else 1)
    return depth, cap


def run(ctx):
    import unified_planning as up
    from unified_planning.io import PDDLReader
    warnings.simplefilter("ignore")
    io.restore_tracebacks()
    ok_proofs = ctx.check_props(extra=["theories/Corr/Corr_C18.v"])
    io.tick(ctx, "proofs")
    rng = ctx.rng
    ntext = 30 if ctx.quick else 300
    stats = {"generated_texts": 0, "shipped_pairs": 0, "both_accept": {"generated": 0, "shipped": 0, "corpus": 0},
             "rejected_by": {"up": {}, "ai": {}}, "bisim": {"closed": 0, "bounded": 0}, "metric_kinds": {},
             "structurally_equal_metrics": 0, "forms": {}, "shipped_compared": [], "too_large": []}
    texts = [("shipped:" + n, d, p) for n, d, p in shipped_pairs()]
    stats["shipped_pairs"] = len(texts)
    texts += corpus_texts()                      # hand-written corner texts
    stats["corner_corpus"] = [t[0] for t in corpus_texts()]
    gen_texts = []
    for attempts in range(1, ntext * 5 + 1):     # candidates; consumed until `ntext` of them are accepted by both readers
        try:
            t = PddlText(rng, attempts)
            gen_texts.append(("gen:%d" % attempts, t.domain(), t.problem(), t))
        except ValueError:
            continue
    cases, owners = [], []
    n_gen_ok = 0
    for entry in texts + gen_texts:
        label, dom, prob = entry[0], entry[1], entry[2]
        gen = entry[3] if len(entry) > 3 else None
        if gen is not None:
            if n_gen_ok >= ntext:
                break
            stats["generated_texts"] += 1
        res = {}
        for rname, kw in (("up", dict(force_up_pddl_reader=True)), ("ai", dict(force_ai_planning_reader=True))):
            try:
                res[rname] = io.parse_pddl(PDDLReader(**kw), dom, prob)
            except Exception as e:  # noqa
                k = "%s: %s" % (type(e).__name__, " ".join(str(e).split())[:50])
                k = k.split(" at line")[0].split("From line")[0]
                stats["rejected_by"][rname][k] = stats["rejected_by"][rname].get(k, 0) + 1
        if len(res) < 2:
            continue
        P, Q = res["up"], res["ai"]
        kind = "generated" if gen is not None else ("corpus" if label.startswith("corpus:") else "shipped")
        stats["both_accept"][kind] += 1
        if gen is not None:
            n_gen_ok += 1
            for form, on in (("typed-list-with-untyped-tail", any(t is None for _, t in gen.objs) and gen.typed),
                             ("domain-constants", bool(gen.consts)), ("untyped-parameters", "untyped" in str(gen.actions) or not gen.typed),
                             ("subtypes", gen.subtype), ("numeric", gen.numeric), ("action-costs", gen.costs),
                             ("mixed-case", gen.upper), ("final-value-metric", bool(gen.metric) and not gen.costs)):
                if on:
                    stats["forms"][form] = stats["forms"].get(form, 0) + 1
        feats, names = features(P)
        if io.has_repeated_arith_operand(dom, prob):
            feats = set(feats) | {"repeated-arith-operand"}
        if io.pddl_lib_drops_duplicate_effect(dom):
            feats = set(feats) | {"duplicate-effect-in-and"}
        ninsts = 0
        for a in P.actions:
            k = 1
            for pp in a.parameters:
                k *= len(list(P.objects(pp.type))) if pp.type.is_user_type() else 1
            ninsts += k
        if ninsts > 20000:
            stats["too_large"].append({"text": label, "ground_instances": ninsts})
            continue
        depth, cap = budget(ninsts, len(P.initial_values), ctx.quick)
        shipped = label.startswith("shipped:")
        payload = {"text": label, "domain": "(shipped file)" if shipped else dom, "pddl_problem": "(shipped file)" if shipped else prob,
                   "problem": str(P)[:6000]}
        try:
            case, info = io.build_case(P, Q, key_lower, depth, cap, keyP=key_lower, split_intervals=True)
        except io.OutOfFragment as e:
            stats.setdefault("out_of_model", {})
            k = str(e)[:60]
            stats["out_of_model"][k] = stats["out_of_model"].get(k, 0) + 1
            continue
        stats["metric_kinds"][info["metricP"] + "/" + info["metricQ"]] = stats["metric_kinds"].get(info["metricP"] + "/" + info["metricQ"], 0) + 1
        if label.startswith("shipped:"):
            stats["shipped_compared"].append({"text": label, "ground_instances": ninsts, "depth": depth, "cap": cap})
        cases.append(case)
        owners.append({"P": P, "Q": Q, "reader": "ai-vs-up",
                       "rebuild": (lambda P2, Q2, depth=depth, cap=cap: io.build_case(P2, Q2, key_lower, depth, cap, keyP=key_lower, split_intervals=True)[0]), "payload": payload, "info": info, "feats": feats, "label": label,
                       "depth": depth, "cap": cap, "type_name": lambda t: t.name})
    io.tick(ctx, "implementation runs")
    codes = ctx.coq_codes(cases, "Corr_C18.code", imports=io.IMPORTS, shard=6, label="c21", timeout=1500) if cases else []
    io.tick(ctx, "coq")
    nontrivial, samples = set(), []
    for k, (o, code) in enumerate(zip(owners, codes)):
        bis, tdiff, pfail, mdiff, nstates, bound = io.decode(code)
        o["size"] = (nstates, bound)
        if not mdiff:
            stats["structurally_equal_metrics"] += 1
        if bis == 0:
            stats["bisim"]["closed"] += 1
        elif bis == 1:
            stats["bisim"]["bounded"] += 1
        if nstates >= 2 and nstates * o["info"]["ninsts"] >= 5:
            nontrivial.add(o["label"] + o["payload"]["problem"][:200])
        if len(samples) < 4 and (o["label"].startswith("gen") or len(samples) < 2):
            samples.append({"text": o["label"], "explored_states": nstates, "bound": bound,
                            "verdict": "closed" if bis == 0 else ("bounded" if bis == 1 else "fail"),
                            "domain": o["payload"]["domain"][:700]})
        if bis < 100 and not tdiff:
            continue
        report(ctx, "c21", o, cases[k], bis, tdiff, False, io.by_name_mapper(o["Q"], lambda item: item.name), o["depth"], o["cap"])
    if not ok_proofs:
        ctx.proof_broken()
    io.dump_failures(ctx)
    ctx.finish({
        "evaluations": len(cases),
        "distinct_nontrivial": len(nontrivial),
        "rule": "one evaluation = one text accepted by both readers, the two problems compared by bisim_check (+ metric_eqb, temporal_structure_eqb); non-trivial = a reachable non-initial state and >= 5 checked (state, instance) edges; distinct by text",
        "samples": samples,
        "distribution": stats,
    }, META["level"], assumptions=["the two problems are aligned by the lower-cased names of the text",
                                   "PDDL's universal type `object` denotes all objects when only one reader materialises it"])
