"""C16 — Expressions are hash-consed and constructors normalise as documented.

Theorems: coq/theories/Props/C16.v (about coq/theories/Model/HashCons.v, proofs in Proofs/HashCons_proofs.v).
Tie: correspondence — random construction histories (40 % verbatim repetitions, ~10 % ill-typed / failing calls) on
one fresh Environment each; per call the observed (node_id, node_type, argument ids, payload) or exception class is
compared inside Coq with the model's replay of the same history from `init`; the final table size and
_next_free_id too.  `is`-identity of repeated constructions, id uniqueness and node immutability are observed
directly on the implementation (oracle written from the property text).
"""
import json
from fractions import Fraction

from harness.core import gn, gz, gnat, gbool, glist, gopt, gpair

META = {
    "level": "proof",
    "technique": "Coq proof (invariant over arbitrary construction histories, stability of constructor calls under table "
                 "extension, one lemma per normalisation) + model/implementation correspondence by vm_compute",
    "text": "Hash-consing theorems for every type-check verdict function and every history of constructor calls "
            "(failing ones included) about a Gallina model of ExpressionManager; the model (with a concrete model of "
            "TypeChecker's verdict) is tied to expression.py/fnode.py by replaying random construction histories.",
    "note": "Trusted: Coq kernel/vm_compute, harness serialiser. No axioms. Outside the model: inexact floats, Int(True), "
            "timing/presence/dot/quantifier nodes, bounded fluent types.",
}

OPS = {"BOOL_CONSTANT": 0, "INT_CONSTANT": 1, "REAL_CONSTANT": 2, "FLUENT_EXP": 3, "PARAM_EXP": 4, "OBJECT_EXP": 5,
       "AND": 6, "OR": 7, "NOT": 8, "IMPLIES": 9, "IFF": 10, "PLUS": 11, "MINUS": 12, "TIMES": 13, "DIV": 14,
       "LE": 15, "LT": 16, "EQUALS": 17}
NARY = {"And": "NAnd", "Or": "NOr", "Plus": "NPlus", "Times": "NTimes"}
BIN = {"Implies": "BImplies", "Iff": "BIff", "Minus": "BMinus", "Div": "BDiv", "LE": "BLE", "GE": "BGE", "LT": "BLT",
       "GT": "BGT", "Equals": "BEquals"}

# ---- the declarations every history is built over: (name, kind) with kind in bool|int|real|("user", t)
USER_TYPES = [("T0", None), ("T1", 0), ("T2", None)]          # T1 is a subtype of T0
OBJECTS = [("o0", 0), ("o1", 1), ("o2", 2), ("o3", 1)]
FLUENTS = [("b0", "bool", []), ("b1", "bool", []), ("i0", "int", []), ("i1", "int", []), ("r0", "real", []),
           ("u0", ("user", 0), []), ("fb", "bool", [("user", 0)]), ("fi", "int", [("user", 1)]),
           ("gi", "int", [("int", 0, 5)]), ("gr", "real", [("int", -2, 2), ("user", 2)]), ("u1", ("user", 1), [])]
PARAMS = [("p0", ("user", 0)), ("p1", ("user", 1)), ("pi", "int"), ("pb", "bool"), ("pr", "real")]


def gty(k):
    if k == "bool":
        return "TBool"
    if k == "int":
        return "(TNum false None)"
    if k == "real":
        return "(TNum true None)"
    return "(TUser %s)" % gn(k[1])


def gpty(k):
    if k == "bool":
        return "PtBool"
    if k[0] == "int":
        return "(PtInt %s %s)" % (gz(k[1]), gz(k[2]))
    return "(PtUser %s)" % gn(k[1])


def ancestors(t):
    out = []
    while t is not None:
        out.append(t)
        t = USER_TYPES[t][1]
    return out


DECLS = "{| d_fluents := %s; d_objects := %s; d_params := %s; d_ancestors := %s |}" % (
    glist([gpair(gn(i), gpair(glist([gpty(s) for s in sg]), gty(k))) for i, (_, k, sg) in enumerate(FLUENTS)]),
    glist([gpair(gn(i), gn(t)) for i, (_, t) in enumerate(OBJECTS)]),
    glist([gpair(gn(i), gty(k)) for i, (_, k) in enumerate(PARAMS)]),
    glist([gpair(gn(i), glist([gn(a) for a in ancestors(i)])) for i in range(len(USER_TYPES))]))


class World:
    """One fresh Environment with the declared symbols."""

    def __init__(self):
        from unified_planning.environment import Environment
        from unified_planning.model import Fluent, Object, Parameter
        self.env = Environment()
        self.em = self.env.expression_manager
        tm = self.env.type_manager
        self.utypes = []
        for name, father in USER_TYPES:
            self.utypes.append(tm.UserType(name, None if father is None else self.utypes[father]))

        def ty(k):
            if k == "bool":
                return tm.BoolType()
            if k == "int":
                return tm.IntType()
            if k == "real":
                return tm.RealType()
            if k[0] == "int":
                return tm.IntType(k[1], k[2])
            return self.utypes[k[1]]
        self.fluents = []
        for name, k, sg in FLUENTS:
            params = [Parameter("a%d" % j, ty(s), self.env) for j, s in enumerate(sg)]
            self.fluents.append(Fluent(name, ty(k), params, self.env))
        self.objects = [Object(name, self.utypes[t], self.env) for name, t in OBJECTS]
        self.params = [Parameter(name, ty(k), self.env) for name, k in PARAMS]
        self.sym = {}
        for i, f in enumerate(self.fluents):
            self.sym[id(f)] = i
        for i, o in enumerate(self.objects):
            self.sym[id(o)] = i
        for i, p in enumerate(self.params):
            self.sym[id(p)] = i


# ---------------------------------------------------------------------------------------------- arguments
def arg_py(a, w, nodes):
    k = a[0]
    if k == "node":
        return nodes[a[1]]
    if k == "bool":
        return a[1]
    if k == "int":
        return a[1]
    if k == "frac":
        return Fraction(a[1], a[2])
    if k == "float":
        return a[1] / float(2 ** a[2])
    if k == "str":
        return a[1]
    if k == "fluent":
        return w.fluents[a[1]]
    if k == "object":
        return w.objects[a[1]]
    if k == "param":
        return w.params[a[1]]
    raise ValueError(a)


def arg_value(a):
    """The rational a numeric literal denotes, written down from the way the literal was generated (not parsed)."""
    k = a[0]
    if k == "int":
        return Fraction(a[1])
    if k == "frac":
        return Fraction(a[1], a[2])
    if k == "float":
        return Fraction(a[1], 2 ** a[2])
    if k == "str":
        return Fraction(a[2], a[3])
    return None


def arg_coq(a):
    k = a[0]
    if k == "node":
        return "(ANode %s)" % gn(a[1])
    if k == "bool":
        return "(ABool %s)" % gbool(a[1])
    if k == "int":
        return "(AInt %s)" % gz(a[1])
    if k == "frac":
        return "(ANum (Qmake %s %d%%positive))" % (gz(a[1]), a[2])
    if k == "float":
        return "(ANum (Qmake %s %d%%positive))" % (gz(a[1]), 2 ** a[2])
    if k == "str":
        if a[4]:                               # int() accepts the string
            return "(AInt %s)" % gz(a[2])
        return "(ANum (Qmake %s %d%%positive))" % (gz(a[2]), a[3])
    if k == "fluent":
        return "(AFluent %s)" % gn(a[1])
    if k == "object":
        return "(AObject %s)" % gn(a[1])
    if k == "param":
        return "(AParam %s)" % gn(a[1])
    raise ValueError(a)


def call_coq(c):
    k = c[0]
    if k == "nary":
        return "(KNary %s %s)" % (NARY[c[1]], glist([arg_coq(a) for a in c[2]]))
    if k == "not":
        return "(KNot %s)" % arg_coq(c[1])
    if k == "bin":
        return "(KBin %s %s %s)" % (BIN[c[1]], arg_coq(c[2]), arg_coq(c[3]))
    if k == "Int":
        return "(KInt %s)" % gz(c[1])
    if k == "Real":
        return "(KReal (Qmake %s %d%%positive))" % (gz(c[1]), c[2])
    if k == "Bool":
        return "(KBool %s)" % gbool(c[1])
    if k == "FluentExp":
        return "(KFluentExp %s %s)" % (gn(c[1]), glist([arg_coq(a) for a in c[2]]))
    if k == "ObjectExp":
        return "(KObjectExp %s)" % gn(c[1])
    if k == "ParameterExp":
        return "(KParamExp %s)" % gn(c[1])
    raise ValueError(c)


def call_py(c, w, nodes):
    em = w.em
    k = c[0]
    if k == "nary":
        args = [arg_py(a, w, nodes) for a in c[2]]
        f = getattr(em, c[1])
        return f(args) if c[3] else f(*args)
    if k == "not":
        return em.Not(arg_py(c[1], w, nodes))
    if k == "bin":
        return getattr(em, c[1])(arg_py(c[2], w, nodes), arg_py(c[3], w, nodes))
    if k == "Int":
        return em.Int(c[1])
    if k == "Real":
        return em.Real(Fraction(c[1], c[2]))
    if k == "Bool":
        return em.Bool(c[1])
    if k == "FluentExp":
        return em.FluentExp(w.fluents[c[1]], [arg_py(a, w, nodes) for a in c[2]])
    if k == "ObjectExp":
        return em.ObjectExp(w.objects[c[1]])
    if k == "ParameterExp":
        return em.ParameterExp(w.params[c[1]])
    raise ValueError(c)


# ---- FNode's own constructors (methods and infix operators): a second entry to the manager ----
NUMLIT = ("int", "frac", "float")
MIRROR = {"LE": "GE", "LT": "GT", "GE": "LE", "GT": "LT"}


def fnode_variants(c):
    """[(via, call the manager must execute)] : the ways to issue call c through FNode methods / operators."""
    k = c[0]
    out = []
    if k == "nary":
        opn, args = c[1], c[2]
        if args and args[0][0] == "node":
            if opn in ("And", "Or"):
                out.append(("method", c))                       # a.And(b, c, ...)
            if len(args) == 2:
                out.append(("op", c))                           # a & b, a | b, a + b, a * b
        if len(args) == 2 and args[1][0] == "node":
            if (opn in ("Plus", "Times") and args[0][0] in NUMLIT) or (opn in ("And", "Or") and args[0][0] == "bool"):
                out.append(("rop", c))                          # 3 + b, True & b  (reflected operator)
        if opn == "Plus" and len(args) == 2 and args[0] == ("int", 0) and args[1][0] == "node":
            out.append(("pos", c))                              # +b  is Plus(0, b)
    elif k == "not":
        if c[1][0] == "node":
            out += [("method", c), ("op", c)]                   # a.Not(), ~a
    elif k == "bin":
        opn, a, b = c[1], c[2], c[3]
        if a[0] == "node":
            if opn in ("Equals", "Implies", "Iff"):
                out.append(("method", c))
            else:
                out.append(("op", c))                           # a - b, a / b, a // b, a <= b ...
        elif a[0] in NUMLIT and b[0] == "node":
            if opn in ("Minus", "Div"):
                out.append(("rop", c))                          # 3 - b
            elif opn in MIRROR:
                out.append(("rop", ("bin", MIRROR[opn], b, a)))  # 3 <= b  is  b.__ge__(3) = GE(b, 3)
        if opn == "Minus" and a == ("int", 0) and b[0] == "node":
            out.append(("neg", c))                              # -b  is Minus(0, b)
    return out


def call_fnode(c0, via, w, nodes, rng):
    """Issue the ORIGINAL call c0 through the FNode entry `via`."""
    import operator as op
    k = c0[0]
    if k == "nary":
        opn, args = c0[1], c0[2]
        py = [arg_py(a, w, nodes) for a in args]
        if via == "method":
            return getattr(py[0], opn)(*py[1:])
        if via == "pos":
            return +py[1]
        f = {"And": op.and_, "Or": op.or_, "Plus": op.add, "Times": op.mul}[opn]
        return f(py[0], py[1])
    if k == "not":
        n = arg_py(c0[1], w, nodes)
        return n.Not() if via == "method" else ~n
    opn = c0[1]
    a, b = arg_py(c0[2], w, nodes), arg_py(c0[3], w, nodes)
    if via == "method":
        return getattr(a, opn)(b)
    if via == "neg":
        return -b
    f = {"Minus": op.sub, "Div": rng.choice([op.truediv, op.floordiv]), "LE": op.le, "LT": op.lt, "GE": op.ge,
         "GT": op.gt}[opn]
    return f(a, b)


def payload_code(n, w):
    """(coq literal, json-able key) of a node's payload"""
    nt = n.node_type.name
    p = n._content.payload
    if nt == "BOOL_CONSTANT":
        return "(PBool %s)" % gbool(p), ("b", bool(p))
    if nt == "INT_CONSTANT":
        return "(PInt %s)" % gz(p), ("i", int(p))
    if nt == "REAL_CONSTANT":
        return "(PReal %s %d%%positive)" % (gz(p.numerator), p.denominator), ("r", p.numerator, p.denominator)
    if nt in ("FLUENT_EXP", "OBJECT_EXP", "PARAM_EXP"):
        return "(PSym %s)" % gn(w.sym[id(p)]), ("s", w.sym[id(p)])
    return "PNone", ("n",)


def kind_of(n):
    try:
        t = n.type
    except Exception:          # a node the manager handed out although it does not type-check
        return "other"
    if t.is_bool_type():
        return "bool"
    if t.is_int_type() or t.is_real_type():
        return "num"
    if t.is_user_type():
        return "user"
    return "other"


def point_of(n):
    """(is_int_typed, value) when the node's type is a point interval, else None"""
    try:
        t = n.type
    except Exception:
        return None
    if (t.is_int_type() or t.is_real_type()) and t.lower_bound is not None and t.lower_bound == t.upper_bound:
        return (t.is_int_type(), Fraction(t.lower_bound))
    return None


# ---------------------------------------------------------------------------------------------- generator
# ---- constant pools around powers of two and byte / word boundaries (the integer pool of the plain histories is -12..12)
BOUNDARIES = [2 ** 7, 2 ** 8, 2 ** 15, 2 ** 16, 2 ** 31, 2 ** 32, 2 ** 53, 2 ** 63, 2 ** 64]
NEAR_DENS = [2, 3, 10, 256, 2 ** 32]


def boundary_pool(b):
    """0, +-1 and both signs of b-1, b, b+1"""
    return [0, 1, -1] + [s * (b + d) for d in (-1, 0, 1) for s in (1, -1)]


class Gen:
    def __init__(self, rng, w, consts=None, sweep=None):
        self.rng = rng
        self.w = w
        self.pool = {"bool": [], "num": [], "user": []}     # node ids by kind
        self.nodes = {}                                      # id -> FNode
        self.stats = None
        # boundary histories: `consts` = the constant pool the history draws its numbers from; `sweep` = pool values that
        # are each requested once as an Int constant (directly or through auto-promotion), in this order, first
        self.consts = consts
        self.sweep = list(sweep or [])

    # -- literals of a boundary pool
    def lit_of(self, v):
        """A Python number / string denoting the INTEGER v (all of them must become the Int constant v)."""
        rng = self.rng
        r = rng.random()
        if r < 0.5:
            return ("int", v)
        if r < 0.7:
            d = rng.choice([1, 2, 3, 7, 256])
            return ("frac", v * d, d)                              # Fraction(510, 2)
        if r < 0.8 and abs(v) < 2 ** 50:
            e = rng.choice([0, 1, 2])
            return ("float", v * 2 ** e, e)                        # 255.0
        s = rng.random()
        if s < 0.4:
            return ("str", str(v), v, 1, True)                     # "255"
        if s < 0.7:
            d = rng.choice([1, 2, 3, 256])
            return ("str", "%d/%d" % (v * d, d), v * d, d, False)  # "510/2"
        return ("str", "%d.0" % v, v * 10, 10, False)              # "-255.0"

    def near_of(self, v):
        """(numerator, denominator) of a fraction next to the integer v (never integral)."""
        d = self.rng.choice(NEAR_DENS)
        return v * d + self.rng.choice([1, -1]), d

    def lit_near(self, v):
        rng = self.rng
        n, d = self.near_of(v)
        r = rng.random()
        if r < 0.6:
            return ("frac", n, d)                                  # Fraction(511, 2)
        if r < 0.8 and abs(v) < 2 ** 48:
            e = rng.choice([1, 2, 3])
            return ("float", v * 2 ** e + rng.choice([1, -1]), e)  # 255.5
        return ("str", "%d/%d" % (n, d), n, d, False)              # "511/2"

    def num_operand(self):
        r = self.rng.random()
        if r < 0.25 and self.pool["num"]:
            c = [i for i in (self.rng.choice(self.pool["num"]) for _ in range(4)) if self.small(i)]
            if c:
                return ("node", c[0])
        if r < 0.8:
            return ("fluent", self.rng.choice([2, 3, 4]))
        return ("param", self.rng.choice([2, 4]))

    def promoting_call(self, lit):
        """A well-typed constructor call that auto-promotes the literal `lit` (first or second position)."""
        rng = self.rng
        other = self.num_operand() if rng.random() < 0.8 else self.lit_of(rng.choice(self.consts))
        a, b = (lit, other) if rng.random() < 0.5 else (other, lit)
        opn = rng.choice(["Plus", "Plus", "Times", "LE", "LE", "GE", "LT", "GT", "Equals", "Equals", "Minus"])
        if opn in ("Plus", "Times"):
            return ("nary", opn, [a, b], rng.random() < 0.5)
        return ("bin", opn, a, b)

    def int_request(self, v):
        """Ask for the Int constant v: Int(v) or a literal inside Plus / Times / LE / ... / Equals."""
        if self.rng.random() < 0.4:
            return ("Int", v)
        return self.promoting_call(self.lit_of(v))

    def real_request(self, v):
        """Ask for a Real constant at or next to the integer v: Real(Fraction) or a literal inside an operator."""
        rng = self.rng
        if rng.random() < 0.5:
            if rng.random() < 0.4:
                d = rng.choice([1, 2, 3, 256])
                return ("Real", v * d, d)                          # Real(Fraction(510, 2)): stays a REAL constant
            return ("Real",) + self.near_of(v)
        return self.promoting_call(self.lit_near(v))

    def lit_num(self):
        if self.consts is not None:
            r = self.rng.random()
            if r < 0.5:
                return self.lit_of(self.rng.choice(self.consts))
            if r < 0.7:
                return self.lit_near(self.rng.choice(self.consts))
        r = self.rng.random()
        z = self.rng.randint(-6, 6)
        if r < 0.45:
            return ("int", z)
        if r < 0.70:
            d = self.rng.choice([1, 2, 3, 4, 6])
            return ("frac", self.rng.randint(-8, 8), d)            # Fraction(4, 2), Fraction(3, 1), Fraction(1, 3) ...
        if r < 0.82:
            return ("float", self.rng.randint(-12, 12), self.rng.choice([0, 1, 2, 3]))   # 2.0, 0.5, -1.25 ...
        s = self.rng.random()
        if s < 0.35:
            return ("str", str(z), z, 1, True)                     # "3"
        if s < 0.7:
            n, d = self.rng.randint(-8, 8), self.rng.choice([1, 2, 3, 4])
            return ("str", "%d/%d" % (n, d), n, d, False)          # "4/2"
        i, f = self.rng.randint(0, 5), self.rng.choice(["0", "5", "25", "50", "00"])
        sign = self.rng.choice(["", "-"])
        val = (i * 10 ** len(f) + int(f)) * (-1 if sign else 1)
        return ("str", "%s%d.%s" % (sign, i, f), val, 10 ** len(f), False)   # "2.0", "-1.25"

    def small(self, nid):
        p = point_of(self.nodes[nid])
        return p is None or (abs(p[1].numerator) <= 1000 and p[1].denominator <= 1000)

    def pick(self, kind, wrong=0.06):
        rng = self.rng
        if rng.random() < wrong:
            kind = rng.choice([k for k in ("bool", "num", "user") if k != kind])
        r = rng.random()
        if kind == "bool":
            if r < 0.6 and self.pool["bool"]:
                return ("node", rng.choice(self.pool["bool"]))
            if r < 0.72:
                return ("bool", rng.random() < 0.5)
            if r < 0.92:
                return ("fluent", rng.choice([0, 1]))
            if r < 0.96:
                return ("param", 3)
            return ("fluent", 6)                                   # arity 1 fluent given bare: arity error
        if kind == "num":
            if r < 0.5 and self.pool["num"]:
                c = [i for i in (rng.choice(self.pool["num"]) for _ in range(4)) if self.small(i)]
                if c:
                    return ("node", c[0])
            if r < 0.78:
                return self.lit_num()
            if r < 0.93:
                return ("fluent", rng.choice([2, 3, 4]))
            if r < 0.98:
                return ("param", rng.choice([2, 4]))
            return ("fluent", 8)                                   # arity error
        if r < 0.35 and self.pool["user"]:
            return ("node", rng.choice(self.pool["user"]))
        if r < 0.7:
            return ("object", rng.randrange(len(OBJECTS)))
        if r < 0.85:
            return ("param", rng.choice([0, 1]))
        return ("fluent", rng.choice([5, 10]))

    def arg_point(self, a):
        """(is_int, value) if the promoted argument has a point type"""
        v = arg_value(a)
        if v is not None:
            return (v.denominator == 1, v)
        if a[0] == "node":
            return point_of(self.nodes[a[1]])
        return None

    def new_call(self):
        rng = self.rng
        if self.consts is not None:
            r = rng.random()
            if self.sweep:
                if r < 0.8:
                    return self.int_request(self.sweep.pop(0))
            elif r < 0.25:
                return self.real_request(rng.choice(self.consts))
            elif r < 0.4:
                return self.int_request(rng.choice(self.consts))
        r = rng.random()
        if r < 0.03 and self.pool["num"]:
            n0 = ("node", rng.choice(self.pool["num"]))
            if self.small(n0[1]):
                return ("nary", "Plus", [("int", 0), n0], False) if rng.random() < 0.5 else ("bin", "Minus", ("int", 0), n0)
        if r < 0.26:
            opn = rng.choice(["And", "Or", "Plus", "Times"])
            kind = "bool" if opn in ("And", "Or") else "num"
            n = rng.choice([0, 1, 1, 2, 2, 2, 2, 3, 3, 4])
            return ("nary", opn, [self.pick(kind) for _ in range(n)], rng.random() < 0.5)
        if r < 0.36:
            a = self.pick("bool")
            if rng.random() < 0.4 and self.pool["bool"]:
                nots = [i for i in self.pool["bool"] if self.nodes[i].is_not()]
                if nots:
                    a = ("node", rng.choice(nots))                 # double negation
            return ("not", a)
        if r < 0.72:
            opn = rng.choice(["Implies", "Iff", "Minus", "Div", "Div", "LE", "GE", "LT", "GT", "Equals", "Equals"])
            if opn in ("Implies", "Iff"):
                return ("bin", opn, self.pick("bool"), self.pick("bool"))
            if opn == "Equals":
                s = rng.random()
                if s < 0.5:
                    return ("bin", opn, self.pick("num", 0), self.pick("num", 0))
                if s < 0.85:
                    return ("bin", opn, self.pick("user", 0), self.pick("user", 0))
                if s < 0.93:
                    return ("bin", opn, self.pick("bool", 0), self.pick("bool", 0))     # raises: use Iff
                if s < 0.97:
                    return ("bin", opn, self.pick("num", 0), self.pick(rng.choice(["user", "bool"]), 0))
                return ("bin", opn, self.pick("user", 0), self.pick(rng.choice(["num", "bool"]), 0))
            if opn == "Div":
                for _ in range(20):
                    a, b = self.pick("num"), self.pick("num")
                    if rng.random() < 0.3:
                        zs = [i for i in self.pool["num"] if (point_of(self.nodes[i]) or (0, 1))[1] == 0]
                        b = ("node", rng.choice(zs)) if zs and rng.random() < 0.5 else rng.choice(
                            [("int", 0), ("frac", 0, 3), ("float", 0, 1), ("str", "0", 0, 1, True), ("str", "0.0", 0, 10, False)])
                    return ("bin", opn, a, b)
                return ("bin", "Minus", self.pick("num"), self.pick("num"))
            return ("bin", opn, self.pick("num"), self.pick("num"))
        if r < 0.80:
            s = rng.random()
            if s < 0.4:
                return ("Int", rng.randint(-6, 6))
            if s < 0.8:
                return ("Real", rng.randint(-8, 8), rng.choice([1, 2, 3, 4, 6]))
            return ("Bool", rng.random() < 0.5)
        if r < 0.94:
            f = rng.randrange(len(FLUENTS))
            sg = FLUENTS[f][2]
            kinds = [("bool" if s == "bool" else ("num" if s[0] == "int" else "user")) for s in sg]
            args = [self.pick(k) for k in kinds]
            if rng.random() < 0.06:
                args = args[:-1] if args and rng.random() < 0.5 else args + [self.pick("user")]
            return ("FluentExp", f, args)
        if r < 0.97:
            return ("ObjectExp", rng.randrange(len(OBJECTS)))
        return ("ParameterExp", rng.randrange(len(PARAMS)))


def arg_matches(a, child, nodes):
    """Is `child` (an FNode) what the documented promotion of argument `a` must be?  None = not judged here."""
    if a[0] == "node":
        return child is nodes[a[1]]
    if a[0] == "bool":
        return child.is_bool_constant() and child.bool_constant_value() == a[1]
    v = arg_value(a)
    if v is None:
        return None
    if v.denominator == 1:                  # integral literal => the Int constant
        return child.is_int_constant() and type(child.constant_value()) is int and child.constant_value() == v.numerator
    return (child.is_real_constant() and isinstance(child.constant_value(), Fraction)
            and child.constant_value() == v)        # a Fraction is always reduced


def normalisation_violations(c, n, nodes):
    """The documented normalisations, checked on one successful constructor call (oracle from the property text)."""
    bad = []
    k = c[0]
    if k == "nary":
        opn, args = c[1], c[2]
        if len(args) == 0:
            want = {"And": ("BOOL_CONSTANT", True), "Or": ("BOOL_CONSTANT", False), "Plus": ("INT_CONSTANT", 0),
                    "Times": ("INT_CONSTANT", 1)}[opn]
            if (n.node_type.name, n._content.payload) != want or type(n._content.payload) is not type(want[1]):
                bad.append("%s() is not the constant %s" % (opn, want[1]))
        elif len(args) == 1:
            if arg_matches(args[0], n, nodes) is False:
                bad.append("%s of one argument is not that argument" % opn)
        else:
            if n.node_type.name != opn.upper() or len(n.args) != len(args):
                bad.append("%s of %d arguments is not an %s node with these arguments" % (opn, len(args), opn.upper()))
            elif any(arg_matches(a, ch, nodes) is False for a, ch in zip(args, n.args)):
                bad.append("%s: an argument was not promoted to its canonical constant / node (built: %s)" % (opn, n))
    elif k == "not":
        a = c[1]
        if a[0] == "node" and nodes[a[1]].is_not():
            if n is not nodes[a[1]].arg(0):
                bad.append("Not(Not(e)) is not e")
        elif not n.is_not():
            bad.append("Not(e) is not a NOT node")
    elif k == "bin":
        opn, a, b = c[1], c[2], c[3]
        want_type = {"GE": "LE", "GT": "LT"}.get(opn, opn.upper())
        first, second = (b, a) if opn in ("GE", "GT") else (a, b)
        if n.node_type.name != want_type or len(n.args) != 2:
            bad.append("%s is not a %s node" % (opn, want_type))
        elif arg_matches(first, n.arg(0), nodes) is False or arg_matches(second, n.arg(1), nodes) is False:
            bad.append("%s(a, b): children are not (%s) with canonical constants (built: %s)" % (
                opn, "b, a" if opn in ("GE", "GT") else "a, b", n))
    elif k == "Int":
        if not (n.is_int_constant() and type(n._content.payload) is int and n._content.payload == c[1] and not n.args):
            bad.append("Int(%d) is not the Int constant %d but %s" % (c[1], c[1], n))
    elif k == "Real":
        v = Fraction(c[1], c[2])
        if not (n.is_real_constant() and isinstance(n._content.payload, Fraction) and n._content.payload == v and not n.args):
            bad.append("Real(%s) is not the Real constant %s but %s" % (v, v, n))
    elif k == "Bool":
        if not (n.is_bool_constant() and type(n._content.payload) is bool and n._content.payload == c[1] and not n.args):
            bad.append("Bool(%s) is not the Bool constant %s but %s" % (c[1], c[1], n))
    return bad


def run_history(rng, n_steps, stats, consts=None, sweep=None):
    """Returns (calls, observations, oracle_violations, final (size, next_id))."""
    from unified_planning.exceptions import UPTypeError, UPExpressionDefinitionError
    w = World()
    g = Gen(rng, w, consts, sweep)
    calls, obs, viol = [], [], []
    first = {}          # node id -> (object, snapshot)
    by_content = {}     # content key -> object
    outcomes = []       # per call: ("ok", node) | ("err", cls)
    for step in range(n_steps):
        rep = None
        if calls and rng.random() < 0.4:
            rep = rng.randrange(len(calls))
            c = calls[rep]
            stats["repetitions"] += 1
        else:
            c = g.new_call()
        # half of the calls that can be written with FNode's methods / operators go through that entry
        variants = fnode_variants(c)
        via = None
        if variants and rng.random() < 0.5:
            via, executed = rng.choice(variants)
            stats["via_fnode"] = stats.get("via_fnode", 0) + 1
            stats["via:" + via] = stats.get("via:" + via, 0) + 1
        try:
            if via is None:
                n = call_py(c, w, g.nodes)
            else:
                n = call_fnode(c, via, w, g.nodes, rng)
                c = executed                                      # what the manager has to execute for it
            out = ("ok", n)
        except UPTypeError:
            out = ("err", "EType")
        except ZeroDivisionError:
            out = ("err", "EZeroDiv")
        except UPExpressionDefinitionError:
            out = ("err", "EArity")
        except Exception as e:                                    # any other class: never what the model says
            out = ("err", "EBadRef", type(e).__name__)
        if via is not None:
            c = executed
        calls.append(c)
        outcomes.append(out)
        stats[c[1] if c[0] in ("nary", "bin") else c[0]] = stats.get(c[1] if c[0] in ("nary", "bin") else c[0], 0) + 1
        if out[0] == "ok":
            nid = n.node_id
            pc, pk = payload_code(n, w)
            snap = (n.node_type.name, tuple(a.node_id for a in n.args), pk)
            if nid in first:
                if first[nid][0] is not n:
                    viol.append({"what": "two distinct node objects carry id %d" % nid, "step": step})
                elif first[nid][1] != snap:
                    viol.append({"what": "node %d changed its content" % nid, "step": step,
                                 "was": first[nid][1], "now": snap})
            else:
                first[nid] = (n, snap)
                g.nodes[nid] = n
                k = kind_of(n)
                if k in g.pool:
                    g.pool[k].append(nid)
            for what in normalisation_violations(c, n, g.nodes):
                viol.append({"what": "documented normalisation not applied: " + what, "step": step, "call": c})
            if snap in by_content and by_content[snap] is not n:
                viol.append({"what": "same content, two nodes (ids %d, %d)" % (by_content[snap].node_id, nid), "step": step})
            by_content.setdefault(snap, n)
            obs.append("{| o_res := Ok %s; o_op := %s; o_args := %s; o_pay := %s |}" % (
                gn(nid), gn(OPS.get(snap[0], 99)), glist([gn(i) for i in snap[1]]), pc))
        else:
            stats["failing_calls"] += 1
            stats[out[1]] = stats.get(out[1], 0) + 1
            obs.append("{| o_res := Err %s; o_op := 0%%N; o_args := []; o_pay := PNone |}" % out[1])
        if rep is not None:
            prev = outcomes[rep]
            if prev[0] == "ok" and not (out[0] == "ok" and out[1] is prev[1]):
                viol.append({"what": "repeating construction %d did not return the identical node" % rep, "step": step})
            if prev[0] == "err" and out[:2] != prev[:2]:
                viol.append({"what": "construction %d failed with %s, its repetition gave %s" % (rep, prev[1], out[:2]), "step": step})
    # end of history: table-wide checks on the implementation
    em = w.em
    ids = [n.node_id for n in em.expressions.values()]
    if len(ids) != len(set(ids)):
        viol.append({"what": "duplicate node ids in ExpressionManager.expressions"})
    for key, n in em.expressions.items():
        if n._content is not key and n._content != key:
            viol.append({"what": "table key differs from node content", "id": n.node_id})
    for nid, (n, snap) in first.items():
        now = (n.node_type.name, tuple(a.node_id for a in n.args), payload_code(n, w)[1])
        if now != snap:
            viol.append({"what": "node %d changed its content" % nid, "was": snap, "now": now})
        if em.expressions.get(n._content) is not n:
            viol.append({"what": "node %d is no longer the table's node for its content" % nid})
    return calls, obs, viol, (len(em.expressions), em._next_free_id), outcomes


def coq_failing_two_at_a_time(ctx, cases, ok_fn, imports, preamble, shard):
    """ctx.coq_failing runs its shards in parallel; feed it two shards per call so that at most two coqc run at once."""
    bad = []
    for base in range(0, len(cases), 2 * shard):
        part = cases[base:base + 2 * shard]
        bad += [base + i for i in ctx.coq_failing(part, ok_fn, imports=imports, preamble=preamble, shard=shard, timeout=1500)]
    return bad


def run(ctx):
    ok_proofs = ctx.check_props(extra=["theories/Corr/Corr_C16.v"])
    rng = ctx.rng
    n_hist = 40 if ctx.quick else 60
    n_steps = 50 if ctx.quick else 2000
    stats = {"repetitions": 0, "failing_calls": 0}
    cases, raw, oracle = [], [], []
    nontrivial = set()
    total = 0
    # boundary histories (after the plain ones, so that those stay what they were for a given seed): per boundary b two
    # histories over the same constant pool (0, +-1, +-(b-1), +-b, +-(b+1), plus the pool of a second boundary); each value
    # of b's pool is requested once as an Int constant at the start, in a shuffled order in the first history and in the
    # reverse order in the second one; the rest of the history draws its numeric literals mostly from the pool
    n_bsteps = 30 if ctx.quick else 300

    def plans():
        for _ in range(n_hist):
            yield n_steps, None, None
        for b in BOUNDARIES:
            first = boundary_pool(b)
            rng.shuffle(first)
            consts = first + boundary_pool(rng.choice([x for x in BOUNDARIES if x != b]))[3:]
            yield n_bsteps, consts, first
            yield n_bsteps, consts, first[::-1]
    n_all = n_hist + 2 * len(BOUNDARIES)
    stats["boundary_histories"] = 2 * len(BOUNDARIES)
    for h, (steps, consts, sweep) in enumerate(plans()):
        calls, obs, viol, (size, nxt), outcomes = run_history(rng, steps, stats, consts, sweep)
        total += len(calls)
        cases.append("{| c_decls := D; c_calls := %s; c_obs := %s; c_size := %s; c_next := %s |}" % (
            glist([call_coq(c) for c in calls]), glist(obs), "%d%%nat" % size, gn(nxt)))
        raw.append({"calls": calls if len(calls) <= 60 else calls[:60] + ["... %d more" % (len(calls) - 60)],
                    "outcomes": [(o[0], o[1].node_id if o[0] == "ok" else o[1]) for o in outcomes][:60],
                    "size": size, "next_free_id": nxt, "constant_pool": consts})
        for v in viol:
            oracle.append((h, v))
        if any(o[0] == "err" for o in outcomes) and len(calls) >= 5:
            nontrivial.add(json.dumps(calls, default=str))
    imports = ["UPV.Model.HashCons", "UPV.Corr.Corr_C16"]
    pre = "Definition D : decls := %s.\n" % DECLS
    bad = coq_failing_two_at_a_time(ctx, cases, "ok", imports, pre, (len(cases) + 1) // 2 if ctx.quick else 4)
    for h, v in oracle[:10]:
        ctx.fail("oracle", "hash-consing violated on the implementation: %s" % v["what"],
                 ["c16", "identity-oracle"], {"history": raw[h], "violation": v}, True)
    if len(bad) > 3:
        ctx.fail("corr", "%d further construction histories disagree with the model (indices %s)" % (len(bad) - 3, bad[3:20]),
                 ["c16", "corr"], {"indices": bad[3:], "histories": [raw[i] for i in bad[3:8]]}, any(h in bad[3:] for h, _ in oracle))
    for rank, i in enumerate(bad[:3]):
        # the diagnosis recompiles the case; only the first few failing cases get one
        where = "(not computed)" if rank >= 3 else ctx.coq_show(
            "first_diff (model_obs c) (c_obs c) 0%nat", imports=imports,
            preamble=pre + "Definition c := %s.\n" % cases[i], timeout=600)
        model = "(not computed)" if rank >= 3 else ctx.coq_show(
            "(List.length (tbl (model_final c)), next_id (model_final c))", imports=imports,
            preamble=pre + "Definition c := %s.\n" % cases[i], timeout=600)
        # the property itself fails here only if the Python-side oracle saw it (reported above)
        ctx.fail("corr", "construction history: implementation and model disagree (corr:C16:create_node/constructors) "
                 "first differing step: %s; model (size,next)=%s" % (where[-60:], model[-60:]), ["c16", "corr"],
                 {"history": raw[i], "first_diff": where, "model_final": model,
                  "theorem_or_corr": "corr:C16:step/create_node/typecheck"}, any(h == i for h, _ in oracle))
    if not ok_proofs:
        ctx.proof_broken()
    ctx.finish({
        "evaluations": total,
        "histories": n_all,
        "distinct_nontrivial": len(nontrivial),
        "rule": "one case = one construction history of %d constructor calls (boundary-constant histories: %d) on a fresh "
                "Environment; non-trivial = at least 5 calls and at least one failing call; distinct by the list of calls"
                % (n_steps, n_bsteps),
        "samples": raw[:1],
        "distribution": stats,
        "traces_validated_against_impl": n_all,
    }, "proof", assumptions=[
        "fluent/parameter types are bool, unbounded int/real or user types (point-or-unbounded numeric types)",
        "numeric literals are ints, Fractions, exact small binary floats and decimal/fraction strings",
        ])
