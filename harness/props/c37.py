"""C37 — Multi-agent compilers preserve each agent's action semantics.

Theorems: coq/theories/Props/C37.v (about coq/theories/Compilers/Variants.v, the action splitting shared by the
single-agent and multi-agent conditional-effects / disjunctive-conditions removers).
Tie (validated part): generated MultiAgentProblems (2 agents, private / public / environment fluents, conditional
effects, disjunctive conditions, Dot expressions in conditions, effects and goals) are compiled with the REAL
MAConditionalEffectsRemover and MADisjunctiveConditionsRemover.  Every agent's view of the original and of the
compiled problem is flattened to a single-agent problem (class Flat below), and for every original action Coq
enumerates ALL states over the ground fluents and ALL ground parameter tuples and evaluates with the documented step
`spec_step false`: original applicable <=> some compiled variant (by the real map_back) applicable; every applicable
variant yields the original successor; conditional-effects remover: at most one variant applicable (exactly one,
together with the first clause); compiled goals equivalent to the original goals.  The same cases also tie the model
of Variants.v to the implementation (compiled actions = the model's variants) and validate the hypotheses the theorems
take about the DNF lists supplied by the real Dnf walker.

Flattening (the serialiser's part of the trusted base): in the view of agent A a fluent expression `f(args)` whose
fluent belongs to A, and `Dot(A, f(args))`, become the flat fluent `A__f(args)`; `Dot(B, g(args))` becomes `B__g(args)`;
a fluent of the MAEnvironment becomes `env__f(args)`.  At problem level (goals) only Dot expressions and environment
fluents are accepted.  A fluent that does not exist in the ORIGINAL problem (the fake goal fluents the disjunctive
remover invents) is resolved by its unique name wherever it occurs (the compiler refers to them without Dot, also
from other agents' actions; that scoping question is outside C37 and recorded in notes/C37.md).
"""
import json
from collections import OrderedDict
from itertools import product

from harness.core import gn, glist, gpair
from harness.gen.problems import SerProblem
from harness.ser import ser_expr, ser_value

META = {
    "level": "proof",
    "technique": "Coq proof about a Gallina model of the shared action splitting (powerset of conditional effects; one variant per DNF disjunct) over the documented step semantics + validation of the multi-agent wrappers: the real MA compilers' output on generated multi-agent problems is checked inside Coq (vm_compute) on ALL states and ground actions of every agent's flattened view",
    "text": "PROOF for the shared splitting (for all actions, states, parameters): exactly one conditional-effect variant is applicable wherever the original is, every applicable variant takes the original step, original applicable <=> some variant applicable (disjunctive case: given that some supplied disjunct holds iff the precondition holds), compiled goals equivalent; hypotheses are stated in Props/C37.v.  VALIDATED for the MA wrappers (MAConditionalEffectsRemover._compile, MADisjunctiveConditionsRemover._compile and its goal handling): per generated problem, exhaustively over all states of <= 6 Boolean ground fluents, evaluated by the documented semantics inside Coq; problems are sampled.",
    "note": "No axioms.  Trusted: Coq kernel/vm_compute, the flattening of an agent's view and the serialiser (this file), CPython running the compilers.  The DNF-equivalence of the disjunct lists is a hypothesis of the disjunctive theorems (C12 proves it for the walker); it is re-validated on every state of every case (bit 32).  The Simplifier used by check_and_simplify_preconditions is not modelled: the implementation's simplified preconditions are compared semantically on every state (C11 proves the simplifier).  Recorded findings: C37-noop-variant-dropped (a variant without effects is discarded, so a step of the original that changes nothing has no compiled counterpart), C37-inherits-dcr-increase-per-disjunct.",
}

IMPORTS = ["UPV.Core.Expr", "UPV.Core.Eval", "UPV.Core.Interp", "UPV.Planning.Problem", "UPV.Planning.Sem",
           "UPV.Corr.Corr_C01", "UPV.Compilers.Variants", "UPV.Corr.Corr_C37"]

MAX_GROUND = 6


# ---------------------------------------------------------------------------------------------- generator
class MAGen:
    """A random MultiAgentProblem built through the real API.  Everything derives from rng."""

    def __init__(self, rng, label="g"):
        from unified_planning.environment import Environment
        from unified_planning.model import Fluent, Object, InstantaneousAction, Variable
        from unified_planning.model.multi_agent import MultiAgentProblem, Agent
        import unified_planning as up
        self.rng = rng
        self.up = up
        self.label = label
        env = Environment()           # a fresh (non-global) environment per problem
        self.env = env
        tm = env.type_manager
        M = MultiAgentProblem("m_" + label, env)
        self.problem = M
        self.em = env.expression_manager
        self.T = tm.UserType("T")
        nobj = rng.choice([1, 2, 2])
        self.objs = [Object("o%d" % (i + 1), self.T, env) for i in range(nobj)]
        M.add_objects(self.objs)
        a1, a2 = Agent("a1", M), Agent("a2", M)
        self.agents = [a1, a2]
        B = tm.BoolType()

        def fl(name, arity):
            return Fluent(name, B, OrderedDict([("t", self.T)] if arity else []), env)

        # candidate fluents: (owner, visibility, fluent); a1 and a2 may share the SAME Fluent object `x`
        shared_x = fl("x", 0)
        cands = [("env", "env", fl("e", 0)), ("env", "env", fl("c", rng.choice([0, 1]))),
                 ("a1", "private", shared_x), ("a1", "public", fl("y", rng.choice([0, 0, 1]))),
                 ("a2", "private", shared_x if rng.random() < 0.6 else fl("x", 0)),
                 ("a2", "public", fl("z", rng.choice([0, 0, 1]))),
                 ("a1", "public", fl("w", 0)), ("a2", "private", fl("q", 0))]
        must = [cands[0], cands[2], cands[3], cands[4], cands[5]]
        opt = [cands[1], cands[6], cands[7]]
        rng.shuffle(opt)
        chosen = list(must)
        for c in opt:
            if rng.random() < 0.6:
                chosen.append(c)

        def ground(cs):
            return sum((nobj if c[2].arity else 1) for c in cs)

        while ground(chosen) > MAX_GROUND:
            # shrink: drop an optional fluent, else make an arity-1 fluent nullary by dropping it
            drop = [c for c in chosen if c not in must] or [c for c in chosen if c[2].arity]
            chosen.remove(drop[-1])
        self.owned = {"env": [], "a1": [], "a2": []}
        self.public = {"a1": [], "a2": []}
        for owner, vis, f in chosen:
            d = rng.random() < 0.5
            if owner == "env":
                M.ma_environment.add_fluent(f, default_initial_value=d)
            else:
                ag = a1 if owner == "a1" else a2
                if vis == "public":
                    ag.add_public_fluent(f, default_initial_value=d)
                    self.public[owner].append(f)
                else:
                    ag.add_private_fluent(f, default_initial_value=d)
            self.owned[owner].append(f)
        self.nvars = 0
        self.Variable = Variable
        # ---- actions
        self.actions = {"a1": [], "a2": []}
        # in most problems both agents use the SAME action names (act0, act1) for differently defined actions: a
        # compiler that keys anything by action name must still keep the agents apart
        same_names = rng.random() < 0.65
        self.same_names = same_names
        for ag in self.agents:
            for ai in range(rng.randint(1, 2)):
                name = ("act%d" % ai) if same_names else ("%s_act%d" % (ag.name, ai))
                a = self.gen_action(ag, name, InstantaneousAction)
                ag.add_action(a)
                self.actions[ag.name].append(a)
        # sometimes an identically defined action in both agents (it may only mention fluents both can resolve):
        # the very same Action object, or an equal clone
        if rng.random() < 0.3:
            a = self.gen_action(None, "shared_act", InstantaneousAction)
            if a is not None:
                for i, ag in enumerate(self.agents):
                    b = a if (i == 0 or rng.random() < 0.5) else a.clone()
                    ag.add_action(b)
                    self.actions[ag.name].append(b)
        # twins: an action called `twin` in both agents whose definitions DIFFER but share a content-equal variant
        # (same preconditions, same unconditional effects and same effect conditions over fluents both agents resolve
        # alike; the conditional effects / one precondition disjunct are agent specific)
        self.twins = None
        if rng.random() < 0.65:
            self.add_twins(InstantaneousAction)
        M.add_agent(a1)
        M.add_agent(a2)
        for _ in range(rng.randint(1, 2)):
            M.add_goal(self.gen_bool(2, None, []))
        if not M.goals:
            M.add_goal(self.atom(None, []))

    def add_twins(self, InstantaneousAction):
        rng, em = self.rng, self.em
        for ag in self.agents:      # every agent needs a fluent the other one does not own
            other = [b for b in self.agents if b.name != ag.name][0]
            if not [g for g in self.owned[ag.name] if not any(g == h for h in self.owned[other.name])]:
                return
        kind = rng.choice(["ce", "ce", "dnf", "both"])
        self.twins = kind
        common_pre = [self.gen_bool(1, None, [], True)] if rng.random() < 0.5 else []
        common_disj = self.atom(None, [], True)
        how, owner, f = rng.choice(self.atoms(None, True))
        tgt = self.fexp(how, owner, f, [])
        val = em.Bool(rng.random() < 0.6)
        conds = [self.gen_bool(1, None, [], True) for _ in range(rng.randint(1, 2))]
        vals = [em.Bool(rng.random() < 0.6) for _ in conds]
        for ag in self.agents:
            other = [b for b in self.agents if b.name != ag.name][0]
            specific = [g for g in self.owned[ag.name] if not any(g == h for h in self.owned[other.name])]
            a = InstantaneousAction("twin", OrderedDict(), self.env)
            for c in common_pre:
                a.add_precondition(c)
            if kind in ("dnf", "both"):
                a.add_precondition(em.Or(common_disj, self.fexp("plain", None, rng.choice(specific), [])))
            a.add_effect(tgt, val)
            if kind in ("ce", "both"):
                for c, v in zip(conds, vals):
                    a.add_effect(self.fexp("plain", None, rng.choice(specific), []), v, c)
            ag.add_action(a)
            self.actions[ag.name].append(a)

    # -- expressions visible to agent `ag` (None = problem level)
    def atoms(self, ag, shared_only=False):
        out = []
        for f in self.owned["env"]:
            out.append(("plain", None, f))
        if shared_only:
            # fluents owned by BOTH agents under the same Fluent object
            both = [f for f in self.owned["a1"] if any(f == g for g in self.owned["a2"])]
            out += [("plain", None, f) for f in both]
            return out
        for other in self.agents:
            if ag is not None and other.name == ag.name:
                for f in self.owned[other.name]:
                    out.append(("plain", None, f))
                    out.append(("dot", other, f))
            else:
                fs = self.owned[other.name] if ag is None else self.public[other.name]
                for f in fs:
                    out.append(("dot", other, f))
                    if ag is None:
                        out.append(("dot", other, f))
        return out

    def fexp(self, how, owner, f, params, scope=()):
        args = []
        for _ in range(f.arity):
            c = [self.em.ObjectExp(o) for o in self.objs]
            c += [self.em.ParameterExp(p) for p in params] * 2
            c += [self.em.VariableExp(v) for v in scope] * 3
            args.append(self.rng.choice(c))
        e = self.em.FluentExp(f, tuple(args))
        return self.em.Dot(owner, e) if how == "dot" else e

    def atom(self, ag, params, shared_only=False, scope=()):
        how, owner, f = self.rng.choice(self.atoms(ag, shared_only))
        return self.fexp(how, owner, f, params, scope)

    def gen_bool(self, depth, ag, params, shared_only=False):
        em, rng = self.em, self.rng
        if depth <= 0 or rng.random() < 0.3:
            if rng.random() < 0.06:
                return em.Bool(rng.random() < 0.5)
            return self.atom(ag, params, shared_only)
        r = rng.random()
        sub = lambda: self.gen_bool(depth - 1, ag, params, shared_only)  # noqa: E731
        if r < 0.22:
            return em.And(sub(), sub())
        if r < 0.55:
            return em.Or(sub(), sub())
        if r < 0.75:
            return em.Not(sub())
        if r < 0.87:
            return em.Implies(sub(), sub())
        return em.Iff(sub(), sub())

    def gen_action(self, ag, name, InstantaneousAction):
        rng, em = self.rng, self.em
        shared_only = ag is None
        if shared_only and not self.atoms(None, True):
            return None
        nparams = rng.choice([0, 0, 1])
        a = InstantaneousAction(name, OrderedDict(("p%d" % i, self.T) for i in range(nparams)), self.env)
        params = list(a.parameters)
        for _ in range(rng.randint(0, 2)):
            a.add_precondition(self.gen_bool(2, ag, params, shared_only))
        neff = rng.randint(1, 3)
        for _ in range(neff):
            # target: own or environment fluent, written without Dot (add_effect accepts a Dot target, but
            # Effect.__init__ raises KeyError on it: Dot targets cannot be built through the API)
            cands = [t for t in self.atoms(ag, shared_only) if t[0] == "plain"]
            how, owner, f = rng.choice(cands)
            scope = ()
            forall = ()
            if f.arity and rng.random() < 0.3:
                self.nvars += 1
                v = self.Variable("v%d" % self.nvars, self.T, self.env)
                scope, forall = (v,), (v,)
            target = self.fexp(how, owner, f, params, scope)
            if forall and not any(x.is_variable_exp() for x in (target.arg(0).args if target.is_dot() else target.args)):
                scope, forall = (), ()
            if rng.random() < 0.75:
                val = em.Bool(rng.random() < 0.6)
            elif scope and rng.random() < 0.5:
                val = self.atom(ag, params, shared_only, scope)
            else:
                val = self.gen_bool(1, ag, params, shared_only)
            cond = True
            if rng.random() < 0.55:
                cond = self.gen_bool(2, ag, params, shared_only)       # never mentions the forall variable
            a.add_effect(target, val, cond, forall=forall)
        return a


def corpus():
    """Hand-written multi-agent corner problems: (label, MultiAgentProblem)."""
    from unified_planning.shortcuts import (Fluent, BoolType, IntType, InstantaneousAction, Or, And, Not, Dot, Equals)
    from unified_planning.model.multi_agent import MultiAgentProblem, Agent
    out = []

    def base(label):
        M = MultiAgentProblem(label)
        a1, a2 = Agent("a1", M), Agent("a2", M)
        return M, a1, a2

    # 1. only conditional effects: the empty selection has no effect and is discarded (C37-noop-variant-dropped);
    #    Dot goal
    M, a1, a2 = base("only-conditional-effects")
    x, y, z, e = Fluent("x"), Fluent("y"), Fluent("z"), Fluent("e")
    M.ma_environment.add_fluent(e, default_initial_value=False)
    a1.add_private_fluent(x, default_initial_value=False)
    a1.add_public_fluent(y, default_initial_value=False)
    a2.add_public_fluent(z, default_initial_value=False)
    act = InstantaneousAction("act")
    act.add_effect(y, True, x)
    act.add_effect(e, True, Dot(a2, z))
    a1.add_action(act)
    b = InstantaneousAction("b")
    b.add_precondition(Or(Dot(a1, y), e))
    b.add_effect(z, True)
    a2.add_action(b)
    M.add_agent(a1)
    M.add_agent(a2)
    M.add_goal(Or(Dot(a1, y), And(e, Dot(a2, z))))
    M.add_goal(Dot(a2, z))
    out.append(("only-conditional-effects", M))

    # 2. DESIGN 7 #11 in the multi-agent path: an unconditional assignment and a conflicting conditional one on a
    #    numeric fluent (the selected variant must be dropped, not kept without the conflicting effect)
    M, a1, a2 = base("conflicting-conditional-assignment")
    n = Fluent("n", IntType(0, 2))
    c, g = Fluent("c"), Fluent("g")
    M.ma_environment.add_fluent(g, default_initial_value=False)
    a1.add_public_fluent(n, default_initial_value=0)
    a1.add_private_fluent(c, default_initial_value=False)
    a2.add_private_fluent(c, default_initial_value=False)
    act = InstantaneousAction("set")
    act.add_effect(n, 1)
    act.add_effect(n, 2, c)
    act.add_effect(g, True, Not(c))
    a1.add_action(act)
    b = InstantaneousAction("b")
    b.add_precondition(Equals(Dot(a1, n), 1))
    b.add_effect(c, True)
    a2.add_action(b)
    M.add_agent(a1)
    M.add_agent(a2)
    M.add_goal(Equals(Dot(a1, n), 1))
    out.append(("conflicting-conditional-assignment", M))

    # 3. conditional increase under a disjunctive condition (inherits C06-dcr-increase-per-disjunct)
    M, a1, a2 = base("conditional-increase-disjunctive-condition")
    n = Fluent("n", IntType(0, 3))
    c, d = Fluent("c"), Fluent("d")
    M.ma_environment.add_fluent(d, default_initial_value=False)
    a1.add_public_fluent(n, default_initial_value=0)
    a1.add_private_fluent(c, default_initial_value=False)
    a2.add_private_fluent(c, default_initial_value=False)
    act = InstantaneousAction("inc")
    act.add_increase_effect(n, 1, Or(c, d))
    act.add_effect(d, True)
    a1.add_action(act)
    b = InstantaneousAction("b")
    b.add_effect(c, True, Or(d, Equals(Dot(a1, n), 2)))
    a2.add_action(b)
    M.add_agent(a1)
    M.add_agent(a2)
    M.add_goal(Or(Equals(Dot(a1, n), 2), d))
    out.append(("conditional-increase-disjunctive-condition", M))

    # 4. both agents have an action called `act` with DIFFERENT preconditions and conditional effects, and an action
    #    called `same` with identical definitions (two equal but distinct Action objects)
    M, a1, a2 = base("same-named-actions")
    x, y, z, e = Fluent("x"), Fluent("y"), Fluent("z"), Fluent("e")
    M.ma_environment.add_fluent(e, default_initial_value=False)
    for ag in (a1, a2):
        ag.add_private_fluent(x, default_initial_value=False)
    a1.add_public_fluent(y, default_initial_value=False)
    a2.add_public_fluent(z, default_initial_value=False)
    act1 = InstantaneousAction("act")
    act1.add_precondition(Or(x, e))
    act1.add_effect(y, True, x)
    act1.add_effect(e, False)
    a1.add_action(act1)
    act2 = InstantaneousAction("act")
    act2.add_precondition(Or(Not(x), Dot(a1, y)))
    act2.add_effect(z, True, Or(e, Dot(a1, y)))
    act2.add_effect(x, True, Not(e))
    act2.add_effect(e, True)
    a2.add_action(act2)
    for ag in (a1, a2):
        same = InstantaneousAction("same")
        same.add_precondition(Or(x, Not(e)))
        same.add_effect(e, True, x)
        same.add_effect(x, Not(x))
        ag.add_action(same)
    M.add_agent(a1)
    M.add_agent(a2)
    M.add_goal(Or(Dot(a1, y), Dot(a2, z)))
    M.add_goal(e)
    out.append(("same-named-actions", M))

    # 5. same-named actions that DIFFER but share a content-equal variant: `act` (conditional effects: the branch in
    #    which no condition holds is `not e => x := true` for both agents) and `go` (disjunctive precondition: the
    #    disjunct `e` gives the same variant for both agents).  map_back must send each agent's copy to ITS action.
    M, a1, a2 = base("same-named-actions-equal-variant")
    x, y, z, e = Fluent("x"), Fluent("y"), Fluent("z"), Fluent("e")
    M.ma_environment.add_fluent(e, default_initial_value=False)
    for ag in (a1, a2):
        ag.add_private_fluent(x, default_initial_value=False)
    a1.add_public_fluent(y, default_initial_value=False)
    a2.add_public_fluent(z, default_initial_value=False)
    for ag, own in ((a1, y), (a2, z)):
        act = InstantaneousAction("act")
        act.add_effect(x, True)
        act.add_effect(own, True, e)
        ag.add_action(act)
        go = InstantaneousAction("go")
        go.add_precondition(Or(e, own))
        go.add_effect(x, False)
        ag.add_action(go)
    M.add_agent(a1)
    M.add_agent(a2)
    M.add_goal(And(Dot(a1, y), Dot(a2, z)))
    out.append(("same-named-actions-equal-variant", M))
    return out


# ---------------------------------------------------------------------------------------------- flattening
class FlattenError(Exception):
    pass


class CompileRaised(Exception):
    pass


class Flat:
    """Flat single-agent fluents for an original MultiAgentProblem and for problems compiled from it."""

    def __init__(self, M):
        from unified_planning.shortcuts import Fluent
        self.M = M
        self.env = M.environment
        self.em = self.env.expression_manager
        self.flat = OrderedDict()       # (owner name, fluent name) -> flat Fluent
        self.orig_keys = []
        for f in M.ma_environment.fluents:
            self._add("env", f)
        for ag in M.agents:
            for f in ag.fluents:
                self._add(ag.name, f)
        self.orig_keys = list(self.flat.keys())
        self.lenient_hits = 0

    def _add(self, owner, f):
        from unified_planning.shortcuts import Fluent
        key = (owner, f.name)
        if key not in self.flat:
            self.flat[key] = Fluent("%s__%s" % (owner, f.name), f.type,
                                    OrderedDict((p.name, p.type) for p in f.signature), self.env)
        return self.flat[key]

    def add_compiled(self, M2):
        """register the fluents a compiled problem added (fake goal fluents)"""
        new = []
        for owner, fs in [("env", M2.ma_environment.fluents)] + [(ag.name, ag.fluents) for ag in M2.agents]:
            for f in fs:
                if (owner, f.name) not in self.flat:
                    self._add(owner, f)
                    new.append((owner, f.name))
        return new

    def resolve(self, f, M2, ag):
        """owner of the fluent `f` mentioned without Dot by agent `ag` (None = problem level) of problem M2"""
        if ag is not None and any(g == f for g in M2.agent(ag).fluents):
            return ag
        if any(g == f for g in M2.ma_environment.fluents):
            return "env"
        # not visible where it is used.  A fluent of the ORIGINAL problem is never resolved leniently.
        owners = [o for (o, n) in self.flat if n == f.name]
        fresh = all((o, f.name) not in self.orig_keys for o in owners)
        if fresh and len(owners) == 1:
            self.lenient_hits += 1
            return owners[0]
        raise FlattenError("fluent %s is used without Dot %s but belongs to %s" % (
            f.name, "at problem level" if ag is None else "by agent " + ag, owners or "nobody"))

    def expr(self, e, M2, ag):
        memo = {}

        def go(n):
            if n in memo:
                return memo[n]
            if n.is_dot():
                inner = n.arg(0)
                if not inner.is_fluent_exp():
                    raise FlattenError("Dot over a non-fluent expression: %s" % n)
                key = (n.agent(), inner.fluent().name)
                if key not in self.flat:
                    raise FlattenError("Dot refers to an unknown fluent: %s" % n)
                r = self.em.FluentExp(self.flat[key], tuple(go(x) for x in inner.args))
            elif n.is_fluent_exp():
                owner = self.resolve(n.fluent(), M2, ag)
                r = self.em.FluentExp(self.flat[(owner, n.fluent().name)], tuple(go(x) for x in n.args))
            elif not n.args:
                r = n
            elif n.is_exists() or n.is_forall():
                raise FlattenError("quantifier outside the generated grammar: %s" % n)
            else:
                r = self.em.create_node(n.node_type, tuple(go(x) for x in n.args))
            memo[n] = r
            return r

        return go(e)

    def action(self, a, M2, ag, name):
        """flat copy of an InstantaneousAction of agent `ag` (preconditions kept as they are: no dedup)"""
        from unified_planning.shortcuts import InstantaneousAction
        from unified_planning.model import Effect
        fa = InstantaneousAction(name, OrderedDict((p.name, p.type) for p in a.parameters), self.env)
        fa._set_preconditions([self.expr(c, M2, ag) for c in a.preconditions])
        for e in a.effects:
            fa._effects.append(Effect(self.expr(e.fluent, M2, ag), self.expr(e.value, M2, ag),
                                      self.expr(e.condition, M2, ag), e.kind, e.forall))
        return fa

    def problem(self, objects_of):
        """a single-agent Problem declaring every flat fluent (no actions, no goals): what SerProblem renders"""
        from unified_planning.shortcuts import Problem
        P = Problem("flat", self.env)
        P.add_objects(objects_of)
        for f in self.flat.values():
            P.add_fluent(f, default_initial_value=(False if f.type.is_bool_type() else f.type.lower_bound))
        return P


# ---------------------------------------------------------------------------------------------- the DNF lists
def pre_disjuncts(env, preconditions):
    """the disjuncts DisjunctiveConditionsRemover._create_non_disjunctive_actions hands to
    _create_new_action_with_given_precond, each after `.simplify()` and the split on And, as add_precondition keeps
    them (TRUE skipped, duplicates dropped); a FALSE disjunct yields no action"""
    from unified_planning.model.walkers import Dnf
    em = env.expression_manager
    e = Dnf(env).get_dnf_expression(em.And(preconditions))
    parts = list(e.args) if e.is_or() else [e]
    out = []
    for p in parts:
        p = p.simplify()
        if p.is_false():
            continue
        leaves = list(p.args) if p.is_and() else [p]
        kept = []
        for x in leaves:
            if x.is_true() or x in kept:
                continue
            kept.append(x)
        out.append(kept)
    return out


def cond_disjuncts(env, c):
    from unified_planning.model.walkers import Dnf
    n = Dnf(env).get_dnf_expression(c).simplify()
    if n.is_or():
        return list(n.args)
    if n.is_false():
        return []
    return [n]


# ---------------------------------------------------------------------------------------------- cases
class Comp:
    """one (problem, compiler) pair: compile, flatten, build the Coq cases"""

    def __init__(self, idx, label, M, kind):
        self.idx = idx
        self.label = label
        self.M = M
        self.kind = kind                  # 0 = ma_cerm, 1 = ma_dcrm
        self.cname = ["ma_cerm", "ma_dcrm"][kind]
        self.skipped = None
        self.cases = []                   # dicts
        self.gcase = None
        self.flat = None
        self.mapback_errors = []

    def compile(self):
        from unified_planning.engines import CompilationKind
        from unified_planning.engines.compilers.ma_conditional_effects_remover import MAConditionalEffectsRemover
        from unified_planning.engines.compilers.ma_disjunctive_conditions_remover import MADisjunctiveConditionsRemover
        C, ck = [(MAConditionalEffectsRemover, CompilationKind.CONDITIONAL_EFFECTS_REMOVING),
                 (MADisjunctiveConditionsRemover, CompilationKind.DISJUNCTIVE_CONDITIONS_REMOVING)][self.kind]
        comp = C()
        if not comp.supports(self.M.kind):
            self.skipped = "unsupported-kind"
            return
        self.result = comp.compile(self.M, ck)
        self.M2 = self.result.problem

    def param_tuples(self, a):
        doms = []
        for p in a.parameters:
            doms.append(list(self.M.objects(p.type)))
        return [tuple(t) for t in product(*doms)]

    def build(self):
        from unified_planning.plans import ActionInstance
        M, M2 = self.M, self.M2
        env = M.environment
        em = env.expression_manager
        fl = Flat(M)
        self.flat = fl
        self.new_keys = fl.add_compiled(M2)          # fake goal fluents
        self.flatP = fl.problem(M.all_objects)
        self.ser = SerProblem(self.flatP)
        n = self.ser.names
        flat_by_name = {f.name: f for f in fl.flat.values()}
        self.fake_fluents = [fl.flat[k] for k in self.new_keys]
        self.orig_gf = [(f, args) for (f, args) in self.ser.gfluents
                        if any(f == fl.flat[k] for k in fl.orig_keys)]
        self.fake_gf = [(f, args) for (f, args) in self.ser.gfluents if any(f == g for g in self.fake_fluents)]
        many_fakes = len(self.fake_gf) > 2
        # ---- group the compiled actions by the original action the REAL map_back gives
        for ag in M.agents:
            ag2 = M2.agent(ag.name)
            groups = OrderedDict((a.name, []) for a in ag.actions)
            achievers = []
            for c in ag2.actions:
                tuples = self.param_tuples(c)
                if not tuples:
                    self.skipped = "no-ground-instance"
                    return
                try:
                    back = self.result.map_back_action_instance(
                        ActionInstance(c, tuple(em.ObjectExp(o) for o in tuples[0]), agent=ag2))
                except Exception as e:  # noqa
                    raise FlattenError("map_back_action_instance raised %s on %s.%s%s: %s" % (
                        type(e).__name__, ag.name, c.name, tuple(o.name for o in tuples[0]), str(e)[:120]))
                if back is None:
                    achievers.append(c)
                else:
                    # the mapped-back instance must belong to the variant's OWN agent and be that agent's original
                    # action (same-named actions of other agents are different actions)
                    own = {a.name: a for a in ag.actions}
                    err = None
                    if back.agent is None or back.agent.name != ag.name:
                        err = "an instance of agent %s" % (None if back.agent is None else back.agent.name)
                    elif back.action.name not in own:
                        err = "an action %s that agent %s does not have" % (back.action.name, ag.name)
                    elif back.action != own[back.action.name]:
                        err = "an action called %s that is not agent %s's action of that name" % (back.action.name, ag.name)
                    if err is not None:
                        self.mapback_errors.append({"agent": ag.name, "compiled_action": str(c), "mapped_back_to": err,
                                                    "mapped_back_action": str(back.action),
                                                    "own_action": str(own.get(back.action.name))})
                    if back.action.name in groups:
                        groups[back.action.name].append(c)
            setattr(self, "achievers_" + ag.name, achievers)
            for a in ag.actions:
                fo = fl.action(a, M, ag.name, "o__" + a.name)
                fcs = [fl.action(c, M2, ag.name, "c__" + c.name) for c in groups[a.name]]
                case = {"agent": ag.name, "orig": a, "flat_orig": fo, "comp": groups[a.name], "flat_comp": fcs,
                        "argss": self.param_tuples(a)}
                if self.kind == 1:
                    case["pre_dnf"] = [[fl.expr(x, M, ag.name) for x in d] for d in pre_disjuncts(env, a.preconditions)]
                    case["cdnf"] = [(fl.expr(e.condition, M, ag.name),
                                     [fl.expr(d, M, ag.name) for d in cond_disjuncts(env, e.condition)])
                                    for e in a.effects if e.is_conditional()]
                self.cases.append(case)
        # ---- measured: pairs of content-equal variants (modulo the name) of DIFFERENT same-named actions of the two agents
        def content(c):
            return (tuple(p.name for p in c.parameters), frozenset(str(x) for x in c.preconditions),
                    tuple(str(e) for e in c.effects))
        self.cross_equal = 0
        ags = list(M.agents)
        if len(ags) == 2:
            by = [{case["orig"].name: case for case in self.cases if case["agent"] == ag.name} for ag in ags]
            for nm in set(by[0]) & set(by[1]):
                if by[0][nm]["orig"] != by[1][nm]["orig"]:
                    c2 = set(content(c) for c in by[1][nm]["comp"])
                    self.cross_equal += sum(1 for c in by[0][nm]["comp"] if content(c) in c2)
        # ---- goals (problem level)
        self.g_orig = [fl.expr(g, M, None) for g in M.goals]
        self.g_comp = [fl.expr(g, M2, None) for g in M2.goals]
        self.g_ach = []
        for ag in M.agents:
            for c in getattr(self, "achievers_" + ag.name):
                fa = fl.action(c, M2, ag.name, "f__%s__%s" % (ag.name, c.name))
                tgt = [e.fluent.fluent() for e in fa.effects]
                if len(tgt) != 1 or not any(tgt[0] == g for g in self.fake_fluents):
                    raise FlattenError("auxiliary action %s.%s is not a fake-goal achiever" % (ag.name, c.name))
                self.g_ach.append((tgt[0], fa, ag.name, c))
        self.many_fakes = many_fakes

    # -- rendering
    def dom(self, f, fake):
        t = f.type
        if t.is_bool_type():
            if fake and self.many_fakes:
                return [True]
            return [False, True]
        return list(range(t.lower_bound, t.upper_bound + 1))

    def render_doms(self, with_fakes=True):
        n = self.ser.names
        rows = []
        for (f, args) in self.ser.gfluents:
            fake = any(f == g for g in self.fake_fluents)
            if fake and not with_fakes:
                continue
            rows.append("(%s, %s, %s)" % (gn(n.fl(f)), glist([ser_value(a, n) for a in args]),
                                          glist([ser_value(v, n) for v in self.dom(f, fake)])))
        return glist(rows)

    def render_defs(self):
        """per-(problem, compiler) definitions shared by its cases: P<i> problem, D<i> domains, K<i> original ground
        fluents, F<i> fake goal fluents, DG<i> domains without the fake fluents"""
        n = self.ser.names
        keys = glist([gpair(gn(n.fl(f)), glist([ser_value(a, n) for a in args])) for (f, args) in self.orig_gf])
        i = self.idx
        return ("Definition P%d : problem := %s.\nDefinition D%d : list (N * list value * list value) := %s.\n"
                "Definition DG%d : list (N * list value * list value) := %s.\n"
                "Definition K%d : list (N * list value) := %s.\nDefinition F%d : list N := %s.\n" % (
                    i, self.ser.render(), i, self.render_doms(), i, self.render_doms(with_fakes=False), i, keys,
                    i, glist([gn(n.fl(f)) for f in self.fake_fluents])))

    def render_case(self, case):
        n = self.ser.names
        s = self.ser
        i = self.idx
        argss = glist([glist([ser_value(o, n) for o in t]) for t in case["argss"]])
        pre_dnf = glist([glist([ser_expr(x, n) for x in d]) for d in case.get("pre_dnf", [])])
        cdnf = glist([gpair(ser_expr(c, n), glist([ser_expr(d, n) for d in ds])) for c, ds in case.get("cdnf", [])])
        return ("(P%d, {| c_kind := %s; c_orig := %s; c_comp := %s; c_argss := %s; c_doms := D%d; c_keys := K%d; "
                "c_fakes := F%d; c_pre_dnf := %s; c_cdnf := %s |})" % (
                    i, gn(self.kind), s.action(case["flat_orig"]), glist([s.action(c) for c in case["flat_comp"]]),
                    argss, i, i, i, pre_dnf, cdnf))

    def render_gcase(self):
        n = self.ser.names
        s = self.ser
        i = self.idx
        return ("(P%d, {| g_doms := DG%d; g_goals := %s; g_cgoals := %s; g_fakes := F%d; g_achievers := %s |})" % (
            i, i, glist([ser_expr(g, n) for g in self.g_orig]),
            glist([ser_expr(g, n) for g in self.g_comp]), i,
            glist([gpair(gn(n.fl(f)), s.action(fa)) for (f, fa, _, _) in self.g_ach])))

    def nstates(self, with_fakes=True):
        k = 1
        for (f, args) in self.ser.gfluents:
            fake = any(f == g for g in self.fake_fluents)
            if fake and not with_fakes:
                continue
            k *= len(self.dom(f, fake))
        return k


# ---------------------------------------------------------------------------------------------- python oracle
def oracle_case(comp, case):
    """Independent recomputation of the property on one case with the REAL UPSequentialSimulator on the flattened
    actions: returns (bits, witness) with the same bit meaning as Corr_C37.pair_code (1, 2, 4, 8, 64, 128)."""
    from unified_planning.shortcuts import Problem
    from unified_planning.model import UPState
    from unified_planning.engines.sequential_simulator import UPSequentialSimulator
    em = comp.M.environment.expression_manager
    P = Problem("oracle", comp.M.environment)
    P.add_objects(comp.M.all_objects)
    for f in comp.flat.flat.values():
        P.add_fluent(f, default_initial_value=(False if f.type.is_bool_type() else f.type.lower_bound))
    acts = [case["flat_orig"]] + list(case["flat_comp"])
    for a in acts:
        P.add_action(a)
    sim = UPSequentialSimulator(P, error_on_failed_checks=False)
    gfl = comp.ser.gfluents
    doms = [comp.dom(f, any(f == g for g in comp.fake_fluents)) for (f, _) in gfl]
    bits, wit = 0, None

    def const(v):
        return em.Bool(v) if isinstance(v, bool) else em.Int(v)

    def val(state, f, args):
        return state.get_value(em.FluentExp(f, tuple(em.ObjectExp(o) for o in args)))

    for vals in product(*doms):
        st = UPState({em.FluentExp(f, tuple(em.ObjectExp(o) for o in args)): const(v) for (f, args), v in zip(gfl, vals)}, P)
        for t in case["argss"]:
            params = tuple(em.ObjectExp(o) for o in t)
            res = []
            for a in acts:
                try:
                    res.append(sim.apply(st, a, params))
                except Exception:
                    res.append(None)
            so, vs = res[0], res[1:]
            napp = sum(1 for v in vs if v is not None)
            proj = lambda s_: [val(s_, f, args) for (f, args) in comp.orig_gf]  # noqa: E731
            b = 0
            if so is not None:
                noop = proj(so) == proj(st)
                if napp == 0:
                    b |= 8 if noop else 1
                if any(v is not None and proj(v) != proj(so) for v in vs):
                    b |= 2
            elif napp:
                b |= 128
            if comp.kind == 0 and napp > 1:
                b |= 4
            for v in vs:
                if v is not None and any(not val(v, f, args).is_false() for (f, args) in comp.fake_gf):
                    b |= 64
            if b and wit is None:
                wit = {"state": {"%s(%s)" % (f.name, ",".join(o.name for o in args)): str(v)
                                 for (f, args), v in zip(gfl, vals)},
                       "args": [o.name for o in t], "bits": b,
                       "original_applicable": so is not None,
                       "applicable_variants": [a.name for a, v in zip(acts[1:], vs) if v is not None]}
            bits |= b
    return bits, wit


def case_json(comp, case):
    return {"problem": comp.label, "compiler": comp.cname, "agent": case["agent"], "action": str(case["orig"]),
            "compiled_variants": [str(c) for c in case["comp"]], "ground_fluents": len(comp.ser.gfluents)}


BIT_TAGS = {1: "no-variant-applicable", 2: "variant-successor-differs", 4: "several-variants-applicable",
            8: "no-effect-variant-dropped", 16: "model-differs", 32: "dnf-hypothesis-fails",
            64: "fake-goal-not-reset", 128: "variant-applicable-original-not"}


def coq_eval(ctx, live):
    """One coqc run per shard (at most two shards, run side by side): every action case gives
    code + 256 * (number of applicable (state, ground action) pairs), every goal case gives gcode."""
    import re
    from concurrent.futures import ThreadPoolExecutor
    half = (sum(len(c.cases) for c in live) + 1) // 2
    shards, cur, k = [[], []], 0, 0
    for c in live:
        shards[cur].append(c)
        k += len(c.cases)
        if cur == 0 and k >= half:
            cur = 1
    shards = [sh for sh in shards if sh]

    def one(arg):
        j, sh = arg
        body = "".join(c.render_defs() for c in sh)
        body += "Definition cs :=\n [ %s ].\n" % "\n ; ".join(c.render_case(case) for c in sh for case in c.cases)
        body += "Eval vm_compute in (List.map (fun pc => (code (fst pc) (snd pc) + 256 * napplicable (fst pc) (snd pc))%N) cs).\n"
        body += "Definition gs :=\n [ %s ].\n" % "\n ; ".join(c.render_gcase() for c in sh)
        body += "Eval vm_compute in (List.map (fun pc => gcode (fst pc) (snd pc)) gs).\n"
        out = ctx.coq_run(body, IMPORTS, name="c37_shard_%d" % j, timeout=1500)
        blocks = re.findall(r"=\s*(\[[^\]]*\])\s*:\s*list N", out)
        if len(blocks) != 2:
            from harness.core import CoqError
            raise CoqError("expected two result lists, got: %s" % out[:600])
        a = [int(x) for x in re.findall(r"(\d+)%N", blocks[0])]
        g = [int(x) for x in re.findall(r"(\d+)%N", blocks[1])]
        if len(a) != sum(len(c.cases) for c in sh) or len(g) != len(sh):
            from harness.core import CoqError
            raise CoqError("result length mismatch: %s" % out[:600])
        return a, g

    codes, gcodes = [], []
    with ThreadPoolExecutor(max_workers=2) as ex:
        for a, g in ex.map(one, list(enumerate(shards))):
            codes += a
            gcodes += g
    return [x % 256 for x in codes], [x // 256 for x in codes], gcodes


def run(ctx):
    ok_proofs = ctx.check_props(extra=["theories/Corr/Corr_C37.v"])
    nprob = 20 if ctx.quick else 150
    problems = corpus()
    ncorpus = len(problems)
    for i in range(nprob):
        problems.append(("g%d" % i, MAGen(ctx.rng, "g%d" % i).problem))
    comps = []
    stats = {"problems": len(problems), "corpus": ncorpus, "compiles": 0, "skipped": {}, "cases": 0, "goal_cases": 0,
             "variants_per_action": {}, "conditional_effects": 0, "forall_effects": 0, "dot_atoms": 0,
             "disjunctive_goals": 0, "fake_fluents": 0, "ground_fluents": {}, "lenient_fresh_fluent_refs": 0,
             "shared_action_objects": 0, "same_named_actions_across_agents": 0,
             "cross_agent_content_equal_variants_of_different_actions": {"ma_cerm": 0, "ma_dcrm": 0},
             "compile_raised": {}}
    for label, M in problems:
        names = [a.name for ag in M.agents for a in ag.actions]
        stats["shared_action_objects"] += 1 if any(a is b for a in M.agents[0].actions for b in M.agents[1].actions) else 0
        stats["same_named_actions_across_agents"] += 1 if len(names) != len(set(names)) else 0
        for kind in (0, 1):
            c = Comp(len(comps), label, M, kind)
            comps.append(c)
            try:
                try:
                    c.compile()
                except Exception as e:  # noqa
                    raise CompileRaised(e)
                if c.skipped is None:
                    c.build()
            except FlattenError as e:
                # the compiled problem cannot be read as per-agent actions over the declared fluents
                c.skipped = "flatten-error"
                ctx.fail("oracle", "compiled problem of %s cannot be flattened: %s" % (c.cname, e),
                         ["c37", c.cname, "flatten-error"],
                         {"problem": label, "compiler": c.cname, "error": str(e), "problem_text": str(M)}, True)
            except CompileRaised as ce:
                e = ce.args[0]
                c.skipped = "compile-raised"
                key = "%s:%s" % (c.cname, type(e).__name__)
                stats["compile_raised"][key] = stats["compile_raised"].get(key, 0) + 1
                ctx.fail("impl-exception", "%s raised %s: %s" % (c.cname, type(e).__name__, str(e)[:200]),
                         ["c37", c.cname, "compile-raises", type(e).__name__],
                         {"problem": label, "compiler": c.cname, "problem_text": str(M)}, True)
            for me in c.mapback_errors:
                ctx.fail("oracle", "map_back_action_instance of %s sends a variant of agent %s to %s" % (
                    c.cname, me["agent"], me["mapped_back_to"]), ["c37", c.cname, "map-back-wrong-original"],
                    dict(me, problem=label, compiler=c.cname, problem_text=str(M)), True)
            if c.skipped is not None:
                stats["skipped"][c.skipped] = stats["skipped"].get(c.skipped, 0) + 1
    live = [c for c in comps if c.skipped is None]
    stats["compiles"] = len(live)
    total_pairs = 0
    owners, gowners = [], []
    for c in live:
        ng = len(c.ser.gfluents) - len(c.fake_gf)
        stats["ground_fluents"][str(ng)] = stats["ground_fluents"].get(str(ng), 0) + 1
        stats["fake_fluents"] += len(c.fake_fluents)
        stats["lenient_fresh_fluent_refs"] += c.flat.lenient_hits
        stats["cross_agent_content_equal_variants_of_different_actions"][c.cname] += c.cross_equal
        for case in c.cases:
            owners.append((c, case))
            k = str(len(case["comp"]))
            stats["variants_per_action"][k] = stats["variants_per_action"].get(k, 0) + 1
            if c.kind == 0:
                stats["conditional_effects"] += len(case["orig"].conditional_effects)
                stats["forall_effects"] += sum(1 for e in case["orig"].effects if e.is_forall())
                stats["dot_atoms"] += str(case["orig"]).count(".")
            total_pairs += c.nstates() * len(case["argss"])
        gowners.append(c)
        if c.kind == 1:
            stats["disjunctive_goals"] += len(c.fake_fluents)
    stats["cases"], stats["goal_cases"] = len(owners), len(gowners)
    codes, napp, gcodes = coq_eval(ctx, live)
    nontrivial = set()
    disagreements = 0
    for (c, case), code, na in zip(owners, codes, napp):
        key = json.dumps(case_json(c, case), sort_keys=True)
        if na > 0 and len(case["comp"]) >= 2:
            nontrivial.add(key)
        if code == 0:
            continue
        disagreements += 1
        obits, wit = oracle_case(c, case)
        payload = dict(case_json(c, case), coq_code=code, oracle_bits=obits, witness=wit,
                       problem_text=str(c.M), names=c.ser.names.table(),
                       theorem_or_corr="oracle spec_step (bits 1,2,4,8,64,128) / corr:C37:variants (16) / dnf hypotheses (32)")
        prop_bits = code & (1 | 2 | 4 | 8 | 64 | 128)
        increase_split = c.kind == 1 and any(
            (e.is_increase() or e.is_decrease()) and e.is_conditional() and len(cond_disjuncts(c.M.environment, e.condition)) > 1
            for e in case["orig"].effects)
        if prop_bits:
            confirmed = bool(obits & prop_bits)
            tags = ["c37", c.cname] + [BIT_TAGS[b] for b in BIT_TAGS if prop_bits & b]
            if prop_bits == 8:
                tags.append("original-step-is-noop")
            if increase_split and prop_bits & 2:
                tags.append("conditional-increase-with-disjunctive-condition")
            what = "agent %s, action %s: %s" % (case["agent"], case["orig"].name,
                                                  ", ".join(BIT_TAGS[b] for b in BIT_TAGS if prop_bits & b))
            if confirmed:
                ctx.fail("oracle", what + " (confirmed with the real UPSequentialSimulator on the flattened actions)",
                         tags, payload, True)
            else:
                ctx.fail("corr", what + " according to spec_step, NOT confirmed by the simulator oracle", tags, payload, False)
        if code & 16 and not (prop_bits and increase_split):
            ctx.fail("corr", "compiled actions differ from the model's variants (corr:C37:%s)" % (
                "ce_kept_variants" if c.kind == 0 else "dnf_variants"),
                ["c37", c.cname, "model-differs"], payload, bool(obits))
        if code & 32:
            ctx.fail("corr", "the disjunct lists of the real Dnf walker are not equivalent to the condition on some state "
                             "(hypothesis of the disjunctive theorems fails)", ["c37", c.cname, "dnf-hypothesis-fails"],
                     payload, bool(obits))
    for c, code in zip(gowners, gcodes):
        if code:
            disagreements += 1
            tags = ["c37", c.cname, "goals"] + [t for b, t in ((1, "goals-not-equivalent"), (2, "achiever-shape"),
                                                              (4, "achiever-step")) if code & b]
            ctx.fail("oracle", "compiled goals are not equivalent to the original goals (code %d)" % code, tags,
                     {"problem": c.label, "compiler": c.cname, "goals": [str(g) for g in c.M.goals],
                      "compiled_goals": [str(g) for g in c.M2.goals],
                      "achievers": ["%s.%s" % (agn, str(a)) for (_, _, agn, a) in c.g_ach], "problem_text": str(c.M)},
                     bool(code & 5))
    if not ok_proofs:
        ctx.proof_broken()
    samples = [case_json(c, case) for (c, case) in owners[:2]] + [case_json(c, case) for (c, case) in owners[-1:]]
    ctx.finish({
        "evaluations": total_pairs + sum(c.nstates(False) for c in gowners),
        "distinct_nontrivial": len(nontrivial),
        "rule": "one case per (problem, MA compiler, agent, original action), evaluated on every state over the ground fluents and every ground parameter tuple (evaluations = number of (state, ground action) pairs + goal states); non-trivial = the original action is applicable in at least one state and the compiler produced >= 2 variants for it; distinct by (problem, compiler, agent, action text, variants text)",
        "exhaustive": True,
        "samples": samples,
        "distribution": stats,
        "programs": len(live),
        "disagreements_checked": disagreements,
        "cases": len(owners) + len(gowners),
    }, "proof", assumptions=[
        "MA problems are sampled (2 agents, <= 6 Boolean ground fluents; corpus problems may add one bounded integer fluent); states and ground actions are enumerated exhaustively per problem",
        "an agent's view is flattened by harness/props/c37.py:Flat (own fluent f = Dot(self, f))",
        "quantified conditions, durative actions and simulated effects are not generated",
        "DNF-equivalence of the supplied disjunct lists is a hypothesis of the disjunctive theorems (validated on every state of every case; proved for the walker in C12)",
    ])
