"""C29 — Durative-to-processes plan conversions are mutually inverse.

Theorems: coq/theories/Props/C29.v (about coq/theories/Model/DA2P.v).
Tie: correspondence — durative problems with fixed (constant / parameter- and static-fluent-dependent) durations, plus
instantaneous and a few variable-duration actions, are built through the real API and compiled by the real
DurativeActionToProcesses; random time-triggered plans over their ground actions (random rational start times,
coinciding starts, the same instance twice, overlapping instances) go through the real
CompilerResult.plan_forward_conversion / plan_back_conversion; Coq evaluates the model on the same plans and compares
the forward plan, the back plan and the back plan of a shuffled forward plan.  The property itself (same timed
instances as a multiset; end actions inside the duration) is evaluated directly on the implementation's output.
"""
import json
import re
from collections import Counter
from fractions import Fraction as F

from harness.core import gn, gz, gnat, glist, gopt, gpair, gq

META = {
    "level": "proof",
    "technique": "Coq proofs about a Gallina model of _forward_plan_to_plan/_back_plan_to_plan (all plans of "
                 "fixed-duration/instantaneous instances: back(forward pi) is a permutation of pi, exact output order, "
                 "end actions inside the duration) + model/implementation correspondence by vm_compute",
    "text": "For every problem table and every plan whose instances carry their action's fixed duration, both "
            "conversions succeed and return the same timed instances (multiset; the list order is characterised "
            "exactly); every compiled end action of the forward plan lies in (start, start+duration].",
    "note": "Trusted: Coq kernel/vm_compute, harness serialiser, the Python evaluation of the generated duration "
            "expressions (Fractions). Fixed-duration actions have no end ACTION in the forward plan (their end is the "
            "event <a>_end); the 'inside the duration' theorem is about the <a>_first_end actions of variable-duration "
            "actions, which the model and the correspondence cover although the round-trip theorem is for fixed "
            "durations only. Results are equal as multisets, not as lists (TimeTriggeredPlan.__eq__ is ordered).",
}

IMPORTS = ["UPV.Model.DA2P", "UPV.Corr.Corr_C29"]


# ----------------------------------------------------------------------------- problem specs (plain data)
def rand_dexp(rng, params, depth=0):
    """A duration expression over the action's parameters, as plain data:
    ("c", Fraction) | ("p", i) | ("s", fluent, [param indices]) | ("+"|"-"|"*", a, b)."""
    objs = [i for i, p in enumerate(params) if p == "T"]
    ints = [i for i, p in enumerate(params) if p != "T"]
    leaves = ["c"]
    if ints:
        leaves.append("p")
    if objs:
        leaves += ["s1", "s2"]
    if depth >= 2 or rng.random() < 0.35:
        k = rng.choice(leaves)
        if k == "c":
            return ("c", rng.choice([F(1), F(2), F(5), F(7, 2), F(1, 3), F(10), F(3, 4)]))
        if k == "p":
            return ("p", rng.choice(ints))
        if k == "s1":
            return ("s", 1, [rng.choice(objs)])
        return ("s", 2, [rng.choice(objs), rng.choice(objs)])
    op = rng.choice(["+", "+", "*", "-"])
    a = rand_dexp(rng, params, depth + 1)
    b = rand_dexp(rng, params, depth + 1)
    if op == "*" and not (a[0] in "cp" or b[0] in "cp"):
        op = "+"      # keep the expression linear in the static fluents (SIMPLE_NUMERIC friendly)
    return (op, a, b)


def eval_dexp(e, ps, statics):
    """Independent evaluation with Fractions (ps: actual parameters as ('o', i) / ('i', n))."""
    k = e[0]
    if k == "c":
        return e[1]
    if k == "p":
        return F(ps[e[1]][1])
    if k == "s":
        return statics[(e[1], tuple(ps[i][1] for i in e[2]))]
    a, b = eval_dexp(e[1], ps, statics), eval_dexp(e[2], ps, statics)
    return a + b if k == "+" else a - b if k == "-" else a * b


def rand_spec(rng, idx):
    nobj = rng.randint(2, 3)
    statics = {}
    for i in range(nobj):
        statics[(1, (i,))] = rng.choice([F(1), F(2), F(3), F(7, 2), F(5, 3), F(9)])
        for j in range(nobj):
            statics[(2, (i, j))] = F(rng.randint(1, 9))
    acts = []
    kinds = ["fixed", "fixed", "fixed", "inst", "var"]
    n = rng.randint(2, 5)
    for a in range(n):
        kind = rng.choice(kinds) if a > 0 else "fixed"
        nparams = rng.choice([0, 1, 1, 2, 2, 3])
        params = [rng.choice(["T", "T", ("int", 1, rng.randint(2, 4))]) for _ in range(nparams)]
        act = {"name": "a%d" % a, "kind": kind, "params": params}
        if kind == "fixed":
            act["dur"] = rand_dexp(rng, params) if rng.random() < 0.75 else ("c", rng.choice([F(5), F(3, 2), F(1)]))
            act["style"] = rng.choice(["fixed", "closed"])      # set_fixed_duration(e) / set_closed_duration_interval(e, e)
            act["mid_effect"] = rng.random() < 0.3               # an intermediate effect (end - 1/2): still no end ACTION
        elif kind == "var":
            lo = rng.choice([F(2), F(3), F(5, 2)])
            act["lo"], act["hi"] = lo, lo + rng.choice([F(1), F(3), F(7, 2)])
            act["delay"] = rng.choice([F(0), F(0), F(-1), F(-1, 2)])
        acts.append(act)
    clash = None
    if rng.random() < 0.3:
        d = [a for a in acts if a["kind"] != "inst"]
        if d:
            clash = rng.choice(d)["name"] + rng.choice(["_start", "_first_end"])
    return {"idx": idx, "nobj": nobj, "statics": statics, "acts": acts, "clash": clash,
            "epsilon": rng.choice([None, None, F(1, 10)])}


def build(spec):
    """The real problem + compiler result for a spec."""
    from unified_planning.shortcuts import (UserType, Object, Problem, Fluent, BoolType, RealType, IntType,
                                            DurativeAction, InstantaneousAction, EndTiming, StartTiming, Plus, Minus,
                                            Times, Not, CompilationKind)
    from unified_planning.engines.compilers.durative_actions_to_processes import DurativeActionToProcesses
    T = UserType("T")
    p = Problem("c29_%d" % spec["idx"])
    objs = [Object("o%d" % i, T) for i in range(spec["nobj"])]
    p.add_objects(objs)
    done = Fluent("done", BoolType(), x=T)
    flag = Fluent("flag", BoolType())
    s1 = Fluent("s1", RealType(), x=T)
    s2 = Fluent("s2", IntType(), x=T, y=T)
    p.add_fluent(done, default_initial_value=False)
    p.add_fluent(flag, default_initial_value=False)
    p.add_fluent(s1)
    p.add_fluent(s2)
    for (f, args), v in spec["statics"].items():
        fl = s1 if f == 1 else s2
        p.set_initial_value(fl(*[objs[i] for i in args]), v if f == 1 else int(v))
    if spec["clash"]:
        p.add_fluent(Fluent(spec["clash"], BoolType()), default_initial_value=False)
    if spec["epsilon"] is not None:
        p.epsilon = spec["epsilon"]

    def tr(e, a):
        k = e[0]
        if k == "c":
            return e[1] if e[1].denominator != 1 else int(e[1])
        if k == "p":
            return a.parameters[e[1]]
        if k == "s":
            return (s1 if e[1] == 1 else s2)(*[a.parameters[i] for i in e[2]])
        x, y = tr(e[1], a), tr(e[2], a)
        return Plus(x, y) if k == "+" else Minus(x, y) if k == "-" else Times(x, y)

    up_acts = []
    for act in spec["acts"]:
        pd = {}
        for i, ty in enumerate(act["params"]):
            pd["p%d" % i] = T if ty == "T" else IntType(ty[1], ty[2])
        firstobj = next((i for i, ty in enumerate(act["params"]) if ty == "T"), None)
        if act["kind"] == "inst":
            a = InstantaneousAction(act["name"], **pd)
            target = done(a.parameters[firstobj]) if firstobj is not None else flag()
            a.add_effect(target, False)
        else:
            a = DurativeAction(act["name"], **pd)
            target = done(a.parameters[firstobj]) if firstobj is not None else flag()
            if act["kind"] == "fixed":
                d = tr(act["dur"], a)
                if act["style"] == "fixed":
                    a.set_fixed_duration(d)
                else:
                    a.set_closed_duration_interval(d, d)
                a.add_condition(StartTiming(), Not(target))
                a.add_effect(EndTiming(), target, True)
                if act["mid_effect"]:
                    a.add_effect(EndTiming() - F(1, 2), flag(), True)
            else:
                a.set_closed_duration_interval(act["lo"], act["hi"])
                if act["delay"] == 0:
                    a.add_effect(EndTiming(), target, True)
                else:
                    a.add_effect(EndTiming() - (-act["delay"]), target, True)
                    a.add_effect(EndTiming(), flag(), True)
        p.add_action(a)
        up_acts.append(a)
    comp = DurativeActionToProcesses()
    if not comp.supports(p.kind):
        return None
    res = comp.compile(p, CompilationKind.DURATIVE_ACTIONS_TO_PROCESSES)
    return p, objs, up_acts, res


def rand_plan(rng, spec, quick):
    n = rng.choice([0, 1, 2, 2, 3, 3, 4, 5, 6] if quick else [0, 1, 2, 3, 4, 5, 6, 8, 10])
    plan = []
    pool = [F(0), F(1, 3), F(1, 2), F(1), F(2), F(5, 2), F(3), F(10), F(7, 3)]
    illformed = False
    for _ in range(n):
        if plan and rng.random() < 0.2:
            e = rng.choice(plan)
            if rng.random() < 0.5:
                plan.append(e)                                   # the same timed instance twice
            else:
                plan.append((rng.choice(pool), e[1], e[2], e[3]))  # the same ground action at another time
            continue
        ai = rng.randrange(len(spec["acts"]))
        act = spec["acts"][ai]
        ps = tuple(("o", rng.randrange(spec["nobj"])) if ty == "T" else ("i", rng.randint(ty[1], ty[2]))
                   for ty in act["params"])
        t = rng.choice(pool) if rng.random() < 0.6 else F(rng.randint(0, 40), rng.randint(1, 7))
        if act["kind"] == "inst":
            d = None
        elif act["kind"] == "fixed":
            d = eval_dexp(act["dur"], ps, spec["statics"])
            if rng.random() < 0.04:
                d = d + 1
                illformed = True
        else:
            d = act["lo"] + (act["hi"] - act["lo"]) * F(rng.randint(0, 6), 6)
            if rng.random() < 0.08:
                d = -act["delay"] * rng.choice([F(1), F(1, 2)])   # the end action would not fall after the start
        plan.append((t, ai, ps, d))
    return plan, illformed


# ----------------------------------------------------------------------------- serialisation
def g_pval(v):
    return "PObj %s" % gn(v[1]) if v[0] == "o" else "PInt %s" % gz(v[1])


def g_dexp(e):
    k = e[0]
    if k == "c":
        return "(DConst %s)" % gq(e[1])
    if k == "p":
        return "(DParam %s)" % gnat(e[1])
    if k == "s":
        return "(DStatic %s %s)" % (gn(e[1]), glist([gnat(i) for i in e[2]]))
    return "(%s %s %s)" % ({"+": "DPlus", "-": "DMinus", "*": "DTimes"}[k], g_dexp(e[1]), g_dexp(e[2]))


def g_problem(spec):
    acts = []
    for i, a in enumerate(spec["acts"]):
        if a["kind"] == "inst":
            k = "KInst"
        elif a["kind"] == "fixed":
            k = "KFixed %s" % g_dexp(a["dur"])
        else:
            k = "KVar %s" % gq(a["delay"])
        acts.append(gpair(gn(i), k))
    st = [gpair(gpair(gn(f), glist(["PObj %s" % gn(i) for i in args])), gq(v)) for (f, args), v in sorted(spec["statics"].items())]
    return "{| p_acts := %s; p_statics := %s |}" % (glist(acts), glist(st))


def g_oentry(e):
    t, ai, ps, d = e
    return "(%s, (%s, %s), %s)" % (gq(t), gn(ai), glist([g_pval(v) for v in ps]), gopt(None if d is None else gq(d)))


def g_centry(e):
    t, (ck, ai), ps, d = e
    return "(%s, (%s %s, %s), %s)" % (gq(t), "CStart" if ck == "start" else "CFirstEnd", gn(ai),
                                      glist([g_pval(v) for v in ps]), gopt(None if d is None else gq(d)))


def g_case(spec, plan, fwd, back, shuf, back_shuf):
    return ("{| c_prob := %s; c_plan := %s; c_fwd := %s; c_back := %s; c_shuf := %s; c_back_shuf := %s |}" % (
        "P%d" % spec["idx"], glist([g_oentry(e) for e in plan]),
        gopt(None if fwd is None else glist([g_centry(e) for e in fwd])),
        gopt(None if back is None else glist([g_oentry(e) for e in back])),
        glist([g_centry(e) for e in (shuf or [])]),
        gopt(None if back_shuf is None else glist([g_oentry(e) for e in back_shuf]))))


# ----------------------------------------------------------------------------- the property, evaluated directly
def property_holds(spec, plan, fwd, back):
    """Property text, on the implementation's output. Returns (ok, reason). Only called for plans whose instances are
    instantaneous / fixed-duration with the prescribed duration (the property's quantifier); the 'inside the duration'
    part is evaluated for every plan whose forward conversion succeeded."""
    if fwd is None:
        return False, "forward conversion raised"
    if back is None:
        return False, "back conversion raised"
    if Counter(back) != Counter(plan):
        return False, "back(forward(plan)) is not the same multiset of timed instances"
    return True, ""


def ends_inside(spec, plan, fwd):
    """every compiled end action lies inside the duration (start, start+duration] of an instance of the same ground
    action, and every variable-duration instance has one end action (exact position: correspondence, not property)"""
    ends = Counter((ai, ps) for (t, (ck, ai), ps, d) in fwd if ck == "end")
    insts = Counter((ai, ps) for (t, ai, ps, d) in plan if spec["acts"][ai]["kind"] == "var")
    if ends != insts:
        return False
    for (te, (ck, ai), ps, _) in fwd:
        if ck == "end" and not any(ai == ai2 and ps == ps2 and t < te <= t + d
                                   for (t, ai2, ps2, d) in plan if d is not None):
            return False
    return True


def run(ctx):
    from unified_planning.plans import TimeTriggeredPlan
    import unified_planning.shortcuts as ups
    ups.get_environment().credits_stream = None

    ok_proofs = ctx.check_props(extra=["theories/Corr/Corr_C29.v"])
    rng = ctx.rng
    n_problems = 12 if ctx.quick else 160
    n_plans = 25 if ctx.quick else 30
    cases, raw, preamble = [], [], []
    nontrivial = set()
    stats = Counter()
    for pi in range(n_problems):
        spec = rand_spec(rng, pi)
        built = build(spec)
        if built is None:
            stats["unsupported_kind_skipped"] += 1
            continue
        p, objs, up_acts, res = built
        preamble.append("Definition P%d : problem := %s.\n" % (spec["idx"], g_problem(spec)))
        stats["problems"] += 1
        for a in spec["acts"]:
            stats["actions_" + a["kind"]] += 1
        names = {}
        for i, a in enumerate(spec["acts"]):
            names[a["name"]] = i
        comp_names = [a.name for a in res.problem.actions]
        ev_names = [e.name for e in res.problem.events]
        # which compiled transitions are plan actions (what Model/DA2P.v assumes about _compile_durative_action):
        # a fixed-duration action has the EVENT <a>_end and no <a>_first_end action; a variable one has the action
        for a in spec["acts"]:
            has_first_end = any(re.match(r"^%s_first_end(_\d+)?$" % a["name"], n) for n in comp_names)
            has_end_event = any(re.match(r"^%s_end(_\d+)?$" % a["name"], n) for n in ev_names)
            expect = {"inst": (False, False), "fixed": (False, True),
                      "var": (True, a.get("delay") != 0)}[a["kind"]]
            if (has_first_end, has_end_event) != expect:
                ctx.fail("oracle", "C29: compiled transitions of %s (%s) are not the ones the model assumes: first_end action=%s, "
                         "end event=%s" % (a["name"], a["kind"], has_first_end, has_end_event), ["da2p", "compiled-shape"],
                         {"spec": dump(spec), "compiled_actions": comp_names, "compiled_events": ev_names}, False)
            stats["shape_checked_" + a["kind"]] += 1

        def decode_c(ai_):
            nm = ai_.action.name
            m = re.match(r"^(a\d+)(_start|_first_end)?(_\d+)?$", nm)
            if not m or m.group(1) not in names:
                raise ValueError("unexpected compiled action name %r" % nm)
            orig = names[m.group(1)]
            kind = spec["acts"][orig]["kind"]
            if m.group(2) is None:
                if kind != "inst":
                    raise ValueError("compiled action %r for a durative action" % nm)
                ck = "start"
            else:
                if kind == "inst":
                    raise ValueError("compiled action %r for an instantaneous action" % nm)
                ck = "start" if m.group(2) == "_start" else "end"
            return (ck, orig)

        def decode_params(ai_):
            out = []
            for v in ai_.actual_parameters:
                if v.is_object_exp():
                    out.append(("o", objs.index(v.object())))
                else:
                    out.append(("i", v.constant_value()))
            return tuple(out)

        def to_up(plan):
            tt = []
            for (t, ai, ps, d) in plan:
                args = [objs[v[1]] if v[0] == "o" else v[1] for v in ps]
                tt.append((t, up_acts[ai](*args), d))
            return TimeTriggeredPlan(tt, p.environment)

        for _ in range(n_plans):
            plan, illformed = rand_plan(rng, spec, ctx.quick)
            fwd = back = shuf = back_shuf = None
            exc = {}
            fwd_up = None
            try:
                fwd_up = res.plan_forward_conversion(to_up(plan))
                fwd = [(F(t), decode_c(ai_), decode_params(ai_), d) for t, ai_, d in fwd_up.timed_actions]
            except (AssertionError, KeyError, IndexError) as e:
                exc["forward"] = type(e).__name__
            if fwd_up is not None:
                def do_back(tt):
                    try:
                        b = res.plan_back_conversion(tt)
                        return [(F(t), names[ai_.action.name], decode_params(ai_), None if d is None else F(d))
                                for t, ai_, d in b.timed_actions]
                    except (AssertionError, IndexError) as e:
                        exc.setdefault("back", type(e).__name__)
                        return None
                back = do_back(fwd_up)
                order = list(range(len(fwd)))
                rng.shuffle(order)
                shuf = [fwd[i] for i in order]
                back_shuf = do_back(TimeTriggeredPlan([fwd_up.timed_actions[i] for i in order], p.environment))
            kinds = set(spec["acts"][ai]["kind"] for (_, ai, _, _) in plan)
            in_scope = not illformed and "var" not in kinds
            stats["plans"] += 1
            stats["plans_in_scope_fixed_only"] += in_scope
            stats["plans_with_variable_duration"] += "var" in kinds
            stats["plans_illformed_duration"] += illformed
            stats["plan_len_%d" % min(len(plan), 7)] += 1
            stats["forward_raised"] += fwd is None
            stats["back_raised"] += (fwd is not None and back is None)
            stats["coinciding_starts"] += len(set(e[0] for e in plan)) < len(plan)
            stats["repeated_ground_action"] += len(set((e[1], e[2]) for e in plan)) < len(plan)
            if len(plan) >= 2 and (kinds & {"fixed", "var"}):
                nontrivial.add(json.dumps([spec["idx"], plan], default=str))
            m = {"spec": spec, "plan": plan, "fwd": fwd, "back": back, "shuf": shuf, "back_shuf": back_shuf,
                 "exceptions": exc, "in_scope": in_scope, "compiled_action_names": comp_names}
            # the property, directly on the implementation
            tags = ["da2p", "fixed-only" if in_scope else "out-of-scope"]
            if in_scope:
                okp, why = property_holds(spec, plan, fwd, back)
                if okp and back_shuf is not None and Counter(back_shuf) != Counter(plan):
                    okp, why = False, "back(shuffled forward(plan)) is not the same multiset of timed instances"
                if okp and any(ck == "end" for (_, (ck, _), _, _) in fwd):
                    okp, why = False, "a fixed-duration plan got an end action"
                if not okp:
                    ctx.fail("oracle", "C29 round trip fails on the implementation: " + why, tags + ["roundtrip"],
                             dump(m), True)
            if fwd is not None and not illformed and not ends_inside(spec, plan, fwd):
                ctx.fail("oracle", "C29: a compiled end action is not inside its action's duration", tags + ["end-inside"],
                         dump(m), True)
            cases.append(g_case(spec, plan, fwd, back, shuf, back_shuf))
            raw.append(m)

    bad = ctx.coq_failing(cases, "ok", imports=IMPORTS, preamble="".join(preamble), shard=100, ty="case")
    shown = 0
    for i in bad:
        m = raw[i]
        model = "(not evaluated: only the first 3 failing cases are re-evaluated)"
        if shown < 3:
            shown += 1
            model = ctx.coq_show("(model_fwd c, model_back c, model_back_shuf c)", imports=IMPORTS,
                                 preamble="".join(preamble) + "Definition c := %s.\n" % cases[i])
        pf = False
        if m["in_scope"]:
            okp, _ = property_holds(m["spec"], m["plan"], m["fwd"], m["back"])
            pf = not okp
        if m["fwd"] is not None and not ends_inside(m["spec"], m["plan"], m["fwd"]):
            pf = True
        ctx.fail("corr", "DA2P plan conversion: implementation and model disagree (corr:C29:forward/back)",
                 ["da2p", "corr", "fixed-only" if m["in_scope"] else "out-of-scope"],
                 dict(dump(m), model=model, theorem_or_corr="corr:C29:_forward_plan_to_plan/_back_plan_to_plan"), pf)
    if not ok_proofs:
        ctx.proof_broken()
    ctx.finish({
        "evaluations": len(cases),
        "distinct_nontrivial": len(nontrivial),
        "rule": "distinct (problem, plan) pairs whose plan has >= 2 timed instances, at least one of them durative; "
                "problems: 2-5 actions (fixed constant / parameter- and static-fluent-dependent durations via "
                "set_fixed_duration or a closed [e,e] interval, instantaneous, variable-duration with end / from-end "
                "effects), optional fresh-name clash and epsilon; plans: 0-6 (quick) / 0-10 instances, start times from a "
                "small pool (coincidences) or random rationals, repeated instances, 4% ill-formed durations and 8% "
                "too-short variable durations (exceptions compared with the model's None)",
        "samples": [dump(m) for m in raw[:2]],
        "distribution": dict(stats),
        "traces_validated_against_impl": len(cases),
    }, "proof", assumptions=[
        "actual parameters are objects or integer constants (identity of hash-consed FNodes = syntactic equality)",
        "a plan instance of a fixed-duration action carries the duration its action prescribes (wf_fixed_entry); "
        "start times and durations are reduced fractions",
    ])


def dump(m):
    def conv(x):
        if isinstance(x, F):
            return str(x)
        if isinstance(x, dict):
            return {str(k): conv(v) for k, v in x.items()}
        if isinstance(x, (list, tuple)):
            return [conv(v) for v in x]
        return x
    return conv(m)
