"""C17 — Linearity and monotonicity analysis is sound.

Theorems: coq/theories/Props/C17.v (about coq/theories/Walkers/Linear.v, proofs in Proofs/Linear_proofs.v; the sign of
fluent-free factors / divisors comes from the C15 model Walkers/TypeInfer.v).
Tie: correspondence — LinearChecker(problem).get_fluents(e) on arithmetic expressions (size <= 6 plus targeted shapes)
over a small world of bounded fluents and parameters (negative, positive, sign-changing, zero-containing domains);
Coq compares the answer with the model's walk on the simplified expression and, independently of the model, checks
the implementation's answer by exhaustive evaluation of the ORIGINAL expression over the domains of the symbols
that occur (integer domains completely, real domains at sample points).
"""
import json
from fractions import Fraction
from itertools import product

from harness.core import gn, gz, gbool, glist, gopt, gpair
from harness.ser import Names, ser_expr, ser_value, gqc
from harness.props.c15 import ser_env, ser_ty, py_eval, Undef

META = {
    "level": "proof",
    "technique": "Coq proof (monotonicity of expressions reported linear, by induction over arithmetic expressions with a loop invariant for "
                 "walk_times and the C15 soundness theorem for signs; non-linearity of products / quotients with fluent-dependent factors / "
                 "divisors) + model/implementation correspondence and an exhaustive-evaluation oracle by vm_compute",
    "text": "Theorems about a Gallina model of LinearChecker's walk (after the walk_div repair); tied to linear_checker.py by differential "
            "evaluation inside Coq; the implementation's answers are also checked by exhaustive evaluation on small domains.",
    "note": "Trusted: Coq kernel/vm_compute, harness serialiser. No axioms. get_fluents = walk o simplify: the model covers the walk, the "
            "simplified expression is taken from the implementation (the simplifier is C11's subject); the oracle evaluates the original "
            "expression. Theorems are about arithmetic expressions over constants, parameters and GROUND fluent expressions; interpreted "
            "functions and lifted fluent arguments are outside the statement.",
}

IMPORTS = ["UPV.Core.Expr", "UPV.Core.Eval", "UPV.Core.Interp", "UPV.Walkers.TypeInfer", "UPV.Walkers.Linear", "UPV.Corr.Corr_C17"]


class W17:
    """bounded world: integer domains are enumerated completely, real domains at sample points"""

    def __init__(self):
        import unified_planning as up
        from unified_planning.environment import Environment
        from unified_planning.model import Fluent, Object, Parameter, Problem, InstantaneousAction
        self.env = Environment()
        tm = self.env.type_manager
        self.em = self.env.expression_manager
        I, R = tm.IntType, tm.RealType
        self.T0 = tm.UserType("T")
        self.objs = {self.T0: [Object("a", self.T0, self.env), Object("b", self.T0, self.env)]}
        self.fluents = [
            Fluent("x", I(0, 3), environment=self.env),
            Fluent("y", I(-2, 2), environment=self.env),
            Fluent("z", I(1, 3), environment=self.env),
            Fluent("u", I(-3, -1), o=self.T0, environment=self.env),
            Fluent("r", R(Fraction(-1), Fraction(3, 2)), environment=self.env),
        ]
        self.params = [
            Parameter("p", I(-5, -1), self.env),
            Parameter("q", I(-2, 3), self.env),
            Parameter("s", I(1, 4), self.env),
            Parameter("t", R(Fraction(1, 2), 2), self.env),
            Parameter("n", R(Fraction(-3, 2), Fraction(-1, 4)), self.env),
            Parameter("m", I(0, 2), self.env),
        ]
        self.ifuns = []
        self.problem = Problem("w17", self.env)
        for os in self.objs.values():
            self.problem.add_objects(os)
        act = InstantaneousAction("touch", _env=self.env)
        for f in self.fluents:
            self.problem.add_fluent(f)
        # every fluent above is modified by an action, so that none is static (the simplifier would substitute it)
        for f in self.fluents:
            if f.arity == 0:
                act.add_effect(f(), f.type.lower_bound)
            else:
                for o in self.objs[self.T0]:
                    act.add_effect(f(o), f.type.lower_bound)
        # changing fluents used as ARGUMENTS, and static numeric fluents (never modified; initial values below)
        oa, ob = self.objs[self.T0]
        self.pos = Fluent("pos", self.T0, environment=self.env)                 # object-valued, changing
        self.level = Fluent("level", I(0, 2), environment=self.env)            # bounded int, changing
        self.rate = Fluent("rate", I(1, 3), o=self.T0, environment=self.env)    # static, positive
        self.drag = Fluent("drag", I(-2, 2), o=self.T0, environment=self.env)   # static, sign-changing over its arguments
        self.bonus = Fluent("bonus", I(0, 5), l=I(0, 2), environment=self.env)  # static, steeply decreasing table
        self.changing_args = [self.pos, self.level]
        self.static_fluents = [self.rate, self.drag, self.bonus]
        for f in self.changing_args + self.static_fluents:
            self.fluents.append(f)
            self.problem.add_fluent(f)
        act.add_effect(self.pos(), ob)
        act.add_effect(self.level(), 1)
        self.problem.set_initial_value(self.pos(), oa)
        self.problem.set_initial_value(self.level(), 0)
        self.static_values = {}
        for f, table in ((self.rate, {(oa,): 3, (ob,): 1}), (self.drag, {(oa,): -2, (ob,): 2}),
                         (self.bonus, {(Fraction(0),): 5, (Fraction(1),): 2, (Fraction(2),): 0})):
            for args, v in table.items():
                self.static_values[(f, args)] = Fraction(v)
                self.problem.set_initial_value(f(*[int(a) if isinstance(a, Fraction) else a for a in args]), v)
        self.problem.add_action(act)
        assert set(self.problem.get_static_fluents()) == set(self.static_fluents)
        self._abs = {}

    def abstract(self, node):
        """the fresh 0-ary fluent standing for a reported lifted fluent expression"""
        if node not in self._abs:
            from unified_planning.model import Fluent
            self._abs[node] = self.em.FluentExp(Fluent("abs%d" % len(self._abs), node.fluent().type, environment=self.env))
        return self._abs[node]

    def groundings(self, f):
        doms = []
        for p in f.signature:
            doms.append(self.objs[p.type] if p.type.is_user_type() else self.domain(p.type))
        return list(product(*doms))

    def all_user_types(self):
        return [self.T0]

    def domain(self, t):
        if t.is_user_type():
            return list(self.objs[t])
        if t.is_int_type():
            return [Fraction(v) for v in range(t.lower_bound, t.upper_bound + 1)]
        lo, hi = Fraction(t.lower_bound), Fraction(t.upper_bound)
        pts = sorted(set([lo, lo + (hi - lo) / 3, Fraction(0) if lo < 0 < hi else lo + (hi - lo) / 2, hi]))
        return pts


def is_ground(fe):
    return all(a.is_constant() or a.is_object_exp() for a in fe.args)


def argval(a):
    return a.object() if a.is_object_exp() else Fraction(a.constant_value())


def slots_of(w, e, with_problem):
    """ground fluents and parameters the value of e can depend on, with their domains (ascending).
    A static ground fluent has the single value of the initial state when the checker knows the problem."""
    fl, par, stack, seen = {}, [], [e], set()

    def add(f, args):
        if (f, args) in fl:
            return
        if with_problem and (f, args) in w.static_values:
            fl[(f, args)] = [w.static_values[(f, args)]]
        else:
            fl[(f, args)] = w.domain(f.type)

    while stack:
        x = stack.pop()
        if x in seen:
            continue
        seen.add(x)
        if x.is_fluent_exp():
            if is_ground(x):
                add(x.fluent(), tuple(argval(a) for a in x.args))
            else:
                for args in w.groundings(x.fluent()):
                    add(x.fluent(), tuple(args))
                stack.extend(x.args)
        elif x.is_parameter_exp():
            par.append(x.parameter())
        else:
            stack.extend(x.args)
    out = [("fl", k[0], k[1], d) for k, d in sorted(fl.items(), key=lambda kv: (kv[0][0].name, str(kv[0][1])))]
    out += [("par", p, None, w.domain(p.type)) for p in sorted(set(par), key=lambda p: p.name)]
    return out


def lifted_nodes(e):
    out, stack, seen = [], [e], set()
    while stack:
        x = stack.pop()
        if x in seen:
            continue
        seen.add(x)
        if x.is_fluent_exp() and not is_ground(x):
            out.append(x)
        stack.extend(x.args)
    return out


def oracle_view(w, e, obs):
    """replace every REPORTED lifted fluent expression by a fresh 0-ary fluent, in the expression and in the answer"""
    if obs is None:
        return e, None
    lin, pos, neg = obs
    rep = [k for k in (pos | neg) if k.is_fluent_exp() and not is_ground(k)]
    if not rep:
        return e, obs
    sub = {k: w.abstract(k) for k in rep}
    e2 = e.substitute(sub)
    return e2, (lin, set(sub.get(k, k) for k in pos), set(sub.get(k, k) for k in neg))


def slot_key_expr(w, sl):
    """the FNode of a ground-fluent slot (to look it up in the reported sets)"""
    kind, f, args, _ = sl
    if kind != "fl":
        return None
    return w.em.FluentExp(f, [a if not isinstance(a, Fraction) else int(a) for a in args])


def py_oracle(w, e, obs, with_problem):
    """independent check of the implementation's answer by exhaustive evaluation (used to classify failing cases);
    e / obs are the oracle's view (reported lifted fluent expressions already replaced)"""
    if obs is None or not obs[0]:
        return None
    lin, pos, neg = obs
    slots = slots_of(w, e, with_problem)
    doms = [sl[3] for sl in slots]
    for i, sl in enumerate(slots):
        k = slot_key_expr(w, sl)
        if k is None:
            continue
        up = (k in pos) and (k not in neg)
        down = (k in neg) and (k not in pos)
        if not (up or down):
            continue
        others = [j for j in range(len(slots)) if j != i]
        for combo in product(*[doms[j] for j in others]):
            vals = []
            for v in doms[i]:
                I = {"fl": {}, "par": {}, "ifun": {}, "objs": {}}
                for j, c in list(zip(others, combo)) + [(i, v)]:
                    if slots[j][0] == "fl":
                        I["fl"][(slots[j][1], slots[j][2])] = c
                    else:
                        I["par"][slots[j][1]] = c
                try:
                    vals.append(py_eval(e, I))
                except Undef:
                    vals.append(None)
            for a in range(len(vals)):
                for b in range(a + 1, len(vals)):
                    if vals[a] is None or vals[b] is None:
                        continue
                    if (up and vals[a] > vals[b]) or (down and vals[a] < vals[b]):
                        return {"fluent": str(k), "reported": "positive" if up else "negative",
                                "others": {(str(slot_key_expr(w, slots[j])) if slots[j][0] == "fl" else slots[j][1].name): str(c)
                                           for j, c in zip(others, combo)},
                                "fluent_values": [str(doms[i][a]), str(doms[i][b])], "expr_values": [str(vals[a]), str(vals[b])]}
    return None


def py_bad(e):
    """the two "never linear" clauses on the walker's input (python twin of Corr_C17.bad)"""
    def hf(x):
        return x.is_fluent_exp() or any(hf(a) for a in x.args)
    if e.is_times():
        return sum(1 for a in e.args if hf(a)) >= 2 or any(py_bad(a) for a in e.args)
    if e.is_div():
        return hf(e.arg(1)) or py_bad(e.arg(0)) or py_bad(e.arg(1))
    if e.is_plus() or e.is_minus():
        return any(py_bad(a) for a in e.args)
    return False


class Gen17:
    def __init__(self, w, rng):
        self.w, self.rng, self.em = w, rng, w.em

    def const(self, nonzero=False):
        rng = self.rng
        while True:
            r = rng.random()
            if r < 0.7:
                c = rng.randint(-3, 4)
            else:
                c = Fraction(rng.randint(-9, 9), rng.randint(2, 5))
            if not nonzero or c != 0:
                break
        return self.em.Int(c) if isinstance(c, int) else self.em.Real(Fraction(c))

    def fluent(self):
        w, em, rng = self.w, self.em, self.rng
        r = rng.random()
        if r < 0.22:      # a static fluent applied to a CHANGING fluent (lifted fluent expression)
            f = rng.choice(w.static_fluents)
            return em.FluentExp(f, [em.FluentExp(w.level if f is w.bonus else w.pos)])
        if r < 0.32:      # a static fluent applied to constants (substituted by the simplifier when the problem is known)
            f = rng.choice(w.static_fluents)
            return em.FluentExp(f, [em.Int(rng.randint(0, 2)) if f is w.bonus else em.ObjectExp(rng.choice(w.objs[w.T0]))])
        if r < 0.4:
            return em.FluentExp(w.level)
        f = rng.choice([f for f in w.fluents if f not in w.static_fluents and f is not w.pos])
        if f.arity == 0:
            return em.FluentExp(f)
        return em.FluentExp(f, [em.ObjectExp(rng.choice(w.objs[w.T0]))])

    def leaf(self):
        r = self.rng.random()
        if r < 0.25:
            return self.const()
        if r < 0.55:
            return self.em.ParameterExp(self.rng.choice(self.w.params))
        return self.fluent()

    def split(self, total, parts):
        if total < parts:
            return [1] * parts
        cuts = sorted(self.rng.sample(range(1, total), parts - 1)) if parts > 1 else []
        sizes, prev = [], 0
        for c in cuts + [total]:
            sizes.append(c - prev)
            prev = c
        return sizes

    def num(self, size):
        em, rng = self.em, self.rng
        if size <= 2:
            return self.leaf()
        r = rng.random()
        if r < 0.22:
            k = 3 if size >= 4 and rng.random() < 0.3 else 2
            return em.Plus([self.num(s) for s in self.split(size - 1, k)])
        if r < 0.4:
            a, b = [self.num(s) for s in self.split(size - 1, 2)]
            return em.Minus(a, b)
        if r < 0.72:
            k = 3 if size >= 4 and rng.random() < 0.35 else 2
            return em.Times([self.num(s) for s in self.split(size - 1, k)])
        a, b = self.split(size - 1, 2)
        if rng.random() < 0.35:
            return em.Div(self.num(size - 2), self.const(nonzero=True))
        d = self.num(b)
        if d.is_constant() and d.constant_value() == 0:
            d = self.const(nonzero=True)
        return em.Div(self.num(a), d)


def targeted(w):
    em = w.em
    F = {f.name: f for f in w.fluents}
    P = {p.name: em.ParameterExp(p) for p in w.params}
    a, b = [em.ObjectExp(o) for o in w.objs[w.T0]]
    x, y, z, r = em.FluentExp(F["x"]), em.FluentExp(F["y"]), em.FluentExp(F["z"]), em.FluentExp(F["r"])
    ua, ub = em.FluentExp(F["u"], [a]), em.FluentExp(F["u"], [b])
    out = []
    for fl in (x, y, z, ua, r):
        for name, p in P.items():
            out += [em.Div(fl, p), em.Times(fl, p), em.Times(p, fl), em.Div(em.Times(2, fl), p), em.Div(fl, em.Minus(p, 6)),
                    em.Div(fl, em.Times(p, p)), em.Div(em.Div(fl, p), p), em.Times(p, em.Div(fl, -2)), em.Minus(p, em.Div(fl, p)),
                    em.Div(fl, em.Plus(p, 7)), em.Times(fl, em.Div(1, p)), em.Div(p, fl), em.Div(em.Plus(fl, ub), p),
                    em.Times(p, p, fl), em.Times(fl, p, -1), em.Div(em.Minus(fl, ub), em.Times(p, -1))]
        for c in (2, -2, Fraction(1, 3), Fraction(-7, 2)):
            out += [em.Div(fl, c), em.Times(fl, c), em.Div(c, fl), em.Minus(c, fl), em.Div(em.Minus(c, fl), c)]
        out += [em.Times(fl, x), em.Times(fl, ub), em.Div(fl, z), em.Div(fl, ua), em.Minus(fl, fl), em.Plus(fl, em.Times(-1, fl)),
                em.Times(fl, em.Minus(x, x)), em.Div(fl, em.Minus(ua, 1)), em.Times(em.Plus(fl, 1), em.Minus(z, 5)),
                em.Div(em.Times(fl, z), z), em.Times(em.Div(fl, 2), em.Div(ua, 2)), em.Times(0, fl), em.Times(fl, em.Minus(2, 2))]
    # static fluents applied to changing fluents (object-valued and bounded-int-valued arguments), and to constants
    pos, level = em.FluentExp(w.pos), em.FluentExp(w.level)
    rp, dp, bl = em.FluentExp(w.rate, [pos]), em.FluentExp(w.drag, [pos]), em.FluentExp(w.bonus, [level])
    ra, da, db, b1 = em.FluentExp(w.rate, [a]), em.FluentExp(w.drag, [a]), em.FluentExp(w.drag, [b]), em.FluentExp(w.bonus, [em.Int(1)])
    for fl in (x, y, level, r):
        for st in (rp, dp, bl):
            out += [em.Times(fl, st), em.Times(st, fl), em.Div(fl, st), em.Plus(fl, st), em.Minus(fl, st), em.Minus(st, fl),
                    em.Times(2, em.Plus(fl, st)), em.Div(em.Plus(fl, 1), em.Plus(st, 4)), em.Times(fl, em.Plus(st, 1)),
                    em.Plus(em.Times(fl, 2), em.Times(st, -1)), em.Times(st, st), em.Div(st, fl), em.Times(em.Minus(st, st), fl)]
        for st in (ra, da, db, b1):
            out += [em.Times(fl, st), em.Div(fl, st), em.Plus(fl, st), em.Minus(st, fl), em.Div(st, fl), em.Times(st, P["p"], fl)]
    out += [em.Plus(level, bl), em.Minus(level, bl), em.Plus(em.Times(level, 2), bl), em.Plus(level, em.Times(bl, -1)),
            em.Times(level, P["s"], bl), em.Div(level, bl), bl, rp, em.Times(rp, P["p"]), em.Div(rp, P["s"]), em.Times(rp, dp)]
    return out


def ser_obs(obs, names):
    if obs is None:
        return "None"
    lin, pos, neg = obs
    return "(Some (%s, %s, %s))" % (gbool(lin), glist([ser_expr(k, names) for k in sorted(pos, key=str)]),
                                    glist([ser_expr(k, names) for k in sorted(neg, key=str)]))


def ser_doms(w, e, names, cap, with_problem):
    """domains of the ground fluents / parameters the (oracle view of the) expression depends on; when the number of
    assignments exceeds `cap` the largest domains are thinned to (low end, 0 or a middle point, high end).
    Returns (gallina, number of assignments, thinned?)"""
    slots = slots_of(w, e, with_problem)
    doms = [list(sl[3]) for sl in slots]

    def total():
        t = 1
        for d in doms:
            t *= len(d)
        return t

    thinned = False
    while total() > cap and any(len(d) > 3 for d in doms):
        i = max(range(len(doms)), key=lambda j: len(doms[j]))
        d = doms[i]
        mid = Fraction(0) if (isinstance(d[0], Fraction) and d[0] < 0 < d[-1] and Fraction(0) in d) else d[len(d) // 2]
        doms[i] = [v for v in d if v in (d[0], mid, d[-1])]
        thinned = True
    out = []
    for (kind, x, args, _), dom in zip(slots, doms):
        if kind == "fl":
            out.append(gpair("(SFl %s %s)" % (gn(names.fl(x)), glist([ser_value(a, names) for a in args])),
                             glist([ser_value(v, names) for v in dom])))
        else:
            out.append(gpair("(SPar %s)" % gn(names.par(x)), glist([ser_value(v, names) for v in dom])))
    return glist(out), total(), thinned


def size_of(e):
    n, stack = 0, [e]
    while stack:
        x = stack.pop()
        n += 1
        stack.extend(x.args)
    return n


def run(ctx):
    # regenerate Gen/Gen_Walkers.v (walker dispatch tables) from $UP_REPO before the theorems are re-checked
    from harness.ext._dispatch_common import prepare as _prepare_dispatch
    _prepare_dispatch(ctx)
    import time as _time
    _t0 = _time.time()
    phases = {}
    import unified_planning as up
    from unified_planning.model.walkers import LinearChecker

    ok_proofs = ctx.check_props(extra=["theories/Corr/Corr_C17.v"])
    phases['proofs_s'] = round(_time.time() - _t0, 1)
    rng = ctx.rng
    w = W17()
    names = Names()
    for t in w.all_user_types():
        names.ty(t)
    for f in w.fluents:
        names.fl(f)
    for p in w.params:
        names.par(p)
    for os in w.objs.values():
        for o in os:
            names.obj(o)
    # two checkers: one that knows the problem (static fluents are substituted by the simplifier), one that does not
    checkers = [("with-problem", LinearChecker(w.problem), True), ("no-problem", LinearChecker(environment=w.env), False)]
    g = Gen17(w, rng)
    exprs = [(e, "targeted") for e in targeted(w)]
    n_rand = 450 if ctx.quick else 50000
    for i in range(n_rand):
        try:
            exprs.append((g.num(rng.choice([3, 4, 5, 5, 6, 6, 6])), "random"))
        except ZeroDivisionError:
            continue        # a constant zero divisor is rejected by the type checker at construction (C15)
    seen, uniq = set(), []
    for e, origin in exprs:
        if e in seen:
            continue
        seen.add(e)
        uniq.append((e, origin))
    exprs = uniq

    records, cases = [], []
    stats = {"origin": {}, "checker": {}, "answers": {}, "sizes": {}, "top_ops": {}, "simplified_changed": 0, "assignments_total": 0,
             "cases_with_thinned_domains": 0, "exceptions": 0,
             "outside_theorem_hypothesis(lifted_fluent_arguments)": 0, "lifted_reported_and_abstracted": 0,
             "lifted_cases_where_never_linear_clause_applies": 0, "with_static_fluent": 0}
    for e, origin in exprs:
        lifted = lifted_nodes(e)
        has_static = any(x.is_fluent_exp() and x.fluent() in w.static_fluents for x in _all_nodes(e))
        for cname, lc, with_problem in checkers:
            if cname == "no-problem" and not (lifted or has_static) and rng.random() < 0.7:
                continue     # without static fluents the two checkers coincide: keep a 30% sample of the second one
            try:
                simp = lc._simplifier.simplify(e)
            except (ZeroDivisionError, AssertionError):
                # substituting the static values makes a divisor the constant 0 (the simplifier raises ZeroDivisionError through the
                # type checker, or asserts for constant / 0): the expression is undefined in this problem
                stats["skipped_static_divisor_is_zero"] = stats.get("skipped_static_divisor_is_zero", 0) + 1
                continue
            try:
                lin, pos, neg = lc.get_fluents(e)
                obs = (lin, set(pos), set(neg))
            except BaseException as ex:  # observed, compared with the model's None
                obs = None
                stats["exceptions"] += 1
            oe, oobs = oracle_view(w, e, obs)
            records.append((e, simp, obs, origin, cname, with_problem, oe, oobs))
            gd, nassign, thinned = ser_doms(w, oe, names, 400 if ctx.quick else 3000, with_problem)
            stats["assignments_total"] += nassign
            stats["cases_with_thinned_domains"] += 1 if thinned else 0
            cases.append("{| c_orig := %s; c_simp := %s; c_obs := %s; c_oobs := %s; c_doms := %s |}" % (
                ser_expr(oe, names), ser_expr(simp, names), ser_obs(obs, names), ser_obs(oobs, names), gd))
            stats["origin"][origin] = stats["origin"].get(origin, 0) + 1
            stats["checker"][cname] = stats["checker"].get(cname, 0) + 1
            key = "exception" if obs is None else ("nonlinear" if not obs[0] else
                                                   "linear:pos=%d,neg=%d,both=%d" % (len(obs[1] - obs[2]), len(obs[2] - obs[1]), len(obs[1] & obs[2])))
            stats["answers"][key] = stats["answers"].get(key, 0) + 1
            sz = size_of(e)
            stats["sizes"][sz] = stats["sizes"].get(sz, 0) + 1
            top = str(e.node_type).split(".")[-1]
            stats["top_ops"][top] = stats["top_ops"].get(top, 0) + 1
            if simp is not e:
                stats["simplified_changed"] += 1
            if lifted_nodes(simp):
                stats["outside_theorem_hypothesis(lifted_fluent_arguments)"] += 1
                if py_bad(simp):
                    stats["lifted_cases_where_never_linear_clause_applies"] += 1
            if oe is not e:
                stats["lifted_reported_and_abstracted"] += 1
            if has_static:
                stats["with_static_fluent"] += 1

    env_g = ser_env(w, names, [])
    preamble = "Definition G0 : tenv := %s.\n" % env_g
    phases['generate_and_run_impl_s'] = round(_time.time() - _t0, 1)
    bad = ctx.coq_failing(cases, "(ok G0)", imports=IMPORTS, preamble=preamble, shard=max(60, min(250, (len(cases) + 7) // 8)))
    phases['coq_cases_s'] = round(_time.time() - _t0, 1)
    shown = 0
    for i in bad[:12]:
        e, simp, obs, origin, cname, with_problem, oe, oobs = records[i]
        witness = py_oracle(w, oe, oobs, with_problem)
        clause = obs is not None and obs[0] and py_bad(simp)
        prop_fails = witness is not None or clause
        tags = ["c17", "origin:" + origin, "checker:" + cname, "top:" + str(e.node_type).split(".")[-1]]
        if lifted_nodes(simp):
            tags.append("lifted-fluent-argument")
        if e.is_div():
            d = e.arg(1)
            tags.append("divisor:" + ("constant" if d.is_constant() else "parameter" if d.is_parameter_exp() else "expression"))
        model = "(not evaluated)"
        if shown < 3:
            shown += 1
            model = ctx.coq_show("(lin G0 (c_simp c), corr G0 c, oracle c, nonlinear_clauses c)", imports=IMPORTS,
                                 preamble=preamble + "Definition c := %s.\n" % cases[i])
        if witness is not None:
            tags.append("reported-monotone-but-is-not")
            what = "[%s] get_fluents(%s) = %s but the value is not monotone in %s as reported (oracle:C17:exhaustive evaluation)" % (
                cname, e, _obs_str(obs), witness["fluent"])
            kind = "oracle"
        elif clause:
            tags.append("fluent-dependent-product-or-divisor-reported-linear")
            what = "[%s] get_fluents(%s) = %s: reported linear although the walker's input %s multiplies two fluent-dependent factors / divides by a fluent-dependent divisor (oracle:C17:never-linear clauses)" % (
                cname, e, _obs_str(obs), simp)
            kind = "oracle"
        else:
            what = "[%s] get_fluents(%s) = %s differs from the model's walk on %s (corr:C17:lin)" % (cname, e, _obs_str(obs), simp)
            kind = "corr"
        ctx.fail(kind, what, tags, {"expr": str(e), "checker": cname, "simplified": str(simp), "observed": _obs_str(obs), "witness": witness,
                                    "oracle_view": [str(oe), _obs_str(oobs)],
                                    "model_and_checks": model, "gallina_case": cases[i][:3000], "names": names.table(),
                                    "theorem_or_corr": "corr:C17:lin / oracle:C17_linear_mono_pos,neg"}, prop_fails)

    if not ok_proofs:
        ctx.proof_broken()
    nontrivial = [r for r in records if size_of(r[0]) >= 3]
    ctx.finish({
        "evaluations": len(cases),
        "distinct_nontrivial": len(nontrivial),
        "rule": "distinct expressions (hash-consed FNodes) with at least 3 nodes; every case is evaluated exhaustively over the domains of its "
                "occurring symbols inside Coq (integer domains complete, real domains at 3-4 sample points; when an expression has more "
                "than 400 (quick) / 3000 (thorough) assignments its largest domains are thinned to low end / 0 or middle / high end: see "
                "distribution.cases_with_thinned_domains)",
        "samples": [{"expr": str(r[0]), "simplified": str(r[1]), "answer": _obs_str(r[2]), "origin": r[3], "checker": r[4]} for r in (records[:3] + records[-3:])],
        "distribution": stats,
        "phase_times_cumulative": phases,
        "traces_validated_against_impl": len(cases),
    }, "proof", assumptions=[
        "arithmetic expressions over numeric constants, bounded parameters and fluent expressions (no interpreted functions); cases with "
        "lifted fluent arguments (a static fluent applied to a changing fluent) are outside the hypothesis `arith` of the monotonicity "
        "theorems and are judged by the correspondence and the oracle only (counted in distribution)",
        "oracle reading for lifted fluent expressions: a REPORTED one is an independent quantity (replaced by a fresh fluent), an "
        "UNREPORTED one is evaluated through the ground fluents it reads",
        "get_fluents = walk(simplify(e)); the simplified expression is observed, not modelled (C11)",
        "monotonicity is claimed where the expression is defined (no division by zero) and values respect the declared types",
    ])


def _all_nodes(e):
    stack, seen = [e], set()
    while stack:
        x = stack.pop()
        if x in seen:
            continue
        seen.add(x)
        yield x
        stack.extend(x.args)


def _obs_str(obs):
    if obs is None:
        return "exception"
    return "(%s, {%s}, {%s})" % (obs[0], ", ".join(sorted(map(str, obs[1]))), ", ".join(sorted(map(str, obs[2]))))
