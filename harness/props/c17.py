"""C17 — Linearity and monotonicity analysis is sound.

Theorems: coq/theories/Props/C17.v (about coq/theories/Walkers/Linear.v, proofs in Proofs/Linear_proofs.v; the sign of
fluent-free factors / divisors comes from the C15 model Walkers/TypeInfer.v).
Tie: correspondence — LinearChecker(problem).get_fluents(e) on arithmetic expressions (size <= 6 plus targeted shapes)
over a small world of bounded fluents and parameters (negative, positive, sign-changing, zero-containing domains);
Coq compares the answer with the model's walk on the simplified expression and, independently of the model, checks
the implementation's answer by exhaustive evaluation of the ORIGINAL expression over the domains of the symbols
that occur (integer domains completely, real domains at sample points).
"""
import json
from fractions import Fraction
from itertools import product

from harness.core import gn, gz, gbool, glist, gopt, gpair
from harness.ser import Names, ser_expr, ser_value, gqc
from harness.props.c15 import ser_env, ser_ty, py_eval, Undef

META = {
    "level": "proof",
    "technique": "Coq proof (monotonicity of expressions reported linear, by induction over arithmetic expressions with a loop invariant for "
                 "walk_times and the C15 soundness theorem for signs; non-linearity of products / quotients with fluent-dependent factors / "
                 "divisors) + model/implementation correspondence and an exhaustive-evaluation oracle by vm_compute",
    "text": "Theorems about a Gallina model of LinearChecker's walk (after the walk_div repair); tied to linear_checker.py by differential "
            "evaluation inside Coq; the implementation's answers are also checked by exhaustive evaluation on small domains.",
    "note": "Trusted: Coq kernel/vm_compute, harness serialiser. No axioms. get_fluents = walk o simplify: the model covers the walk, the "
            "simplified expression is taken from the implementation (the simplifier is C11's subject); the oracle evaluates the original "
            "expression. Theorems are about arithmetic expressions over constants, parameters and GROUND fluent expressions; interpreted "
            "functions and lifted fluent arguments are outside the statement.",
}

IMPORTS = ["UPV.Core.Expr", "UPV.Core.Eval", "UPV.Core.Interp", "UPV.Walkers.TypeInfer", "UPV.Walkers.Linear", "UPV.Corr.Corr_C17"]


class W17:
    """bounded world: integer domains are enumerated completely, real domains at sample points"""

    def __init__(self):
        import unified_planning as up
        from unified_planning.environment import Environment
        from unified_planning.model import Fluent, Object, Parameter, Problem, InstantaneousAction
        self.env = Environment()
        tm = self.env.type_manager
        self.em = self.env.expression_manager
        I, R = tm.IntType, tm.RealType
        self.T0 = tm.UserType("T")
        self.objs = {self.T0: [Object("a", self.T0, self.env), Object("b", self.T0, self.env)]}
        self.fluents = [
            Fluent("x", I(0, 3), environment=self.env),
            Fluent("y", I(-2, 2), environment=self.env),
            Fluent("z", I(1, 3), environment=self.env),
            Fluent("u", I(-3, -1), o=self.T0, environment=self.env),
            Fluent("r", R(Fraction(-1), Fraction(3, 2)), environment=self.env),
        ]
        self.params = [
            Parameter("p", I(-5, -1), self.env),
            Parameter("q", I(-2, 3), self.env),
            Parameter("s", I(1, 4), self.env),
            Parameter("t", R(Fraction(1, 2), 2), self.env),
            Parameter("n", R(Fraction(-3, 2), Fraction(-1, 4)), self.env),
            Parameter("m", I(0, 2), self.env),
        ]
        self.ifuns = []
        self.problem = Problem("w17", self.env)
        for os in self.objs.values():
            self.problem.add_objects(os)
        act = InstantaneousAction("touch", _env=self.env)
        for f in self.fluents:
            self.problem.add_fluent(f)
        # every fluent is modified by an action, so that none is static (the simplifier would substitute it)
        for f in self.fluents:
            if f.arity == 0:
                act.add_effect(f(), f.type.lower_bound)
            else:
                for o in self.objs[self.T0]:
                    act.add_effect(f(o), f.type.lower_bound)
        self.problem.add_action(act)

    def all_user_types(self):
        return [self.T0]

    def domain(self, t):
        if t.is_int_type():
            return [Fraction(v) for v in range(t.lower_bound, t.upper_bound + 1)]
        lo, hi = Fraction(t.lower_bound), Fraction(t.upper_bound)
        pts = sorted(set([lo, lo + (hi - lo) / 3, Fraction(0) if lo < 0 < hi else lo + (hi - lo) / 2, hi]))
        return pts


def leaves(e):
    """occurring ground fluent expressions and parameters of an arithmetic expression"""
    fl, par, stack, seen = [], [], [e], set()
    while stack:
        x = stack.pop()
        if x in seen:
            continue
        seen.add(x)
        if x.is_fluent_exp():
            fl.append(x)
        elif x.is_parameter_exp():
            par.append(x.parameter())
        else:
            stack.extend(x.args)
    return sorted(fl, key=str), sorted(set(par), key=lambda p: p.name)


def py_oracle(w, e, obs):
    """independent check of the implementation's answer by exhaustive evaluation (used to classify failing cases)"""
    if obs is None or not obs[0]:
        return None
    lin, pos, neg = obs
    fls, pars = leaves(e)
    slots = [("fl", f) for f in fls] + [("par", p) for p in pars]
    doms = [w.domain(s[1].type if s[0] == "par" else s[1].fluent().type) for s in slots]
    for i, (kind, k) in enumerate(slots):
        if kind != "fl":
            continue
        up = (k in pos) and (k not in neg)
        down = (k in neg) and (k not in pos)
        if not (up or down):
            continue
        others = [j for j in range(len(slots)) if j != i]
        for combo in product(*[doms[j] for j in others]):
            vals = []
            for v in doms[i]:
                I = {"fl": {}, "par": {}, "ifun": {}, "objs": {}}
                for j, c in list(zip(others, combo)) + [(i, v)]:
                    if slots[j][0] == "fl":
                        fe = slots[j][1]
                        I["fl"][(fe.fluent(), tuple(a.object() for a in fe.args))] = c
                    else:
                        I["par"][slots[j][1]] = c
                try:
                    vals.append(py_eval(e, I))
                except Undef:
                    vals.append(None)
            for a in range(len(vals)):
                for b in range(a + 1, len(vals)):
                    if vals[a] is None or vals[b] is None:
                        continue
                    if (up and vals[a] > vals[b]) or (down and vals[a] < vals[b]):
                        return {"fluent": str(k), "reported": "positive" if up else "negative",
                                "others": {str(slots[j][1]) if slots[j][0] == "fl" else slots[j][1].name: str(c) for j, c in zip(others, combo)},
                                "fluent_values": [str(doms[i][a]), str(doms[i][b])], "expr_values": [str(vals[a]), str(vals[b])]}
    return None


class Gen17:
    def __init__(self, w, rng):
        self.w, self.rng, self.em = w, rng, w.em

    def const(self, nonzero=False):
        rng = self.rng
        while True:
            r = rng.random()
            if r < 0.7:
                c = rng.randint(-3, 4)
            else:
                c = Fraction(rng.randint(-9, 9), rng.randint(2, 5))
            if not nonzero or c != 0:
                break
        return self.em.Int(c) if isinstance(c, int) else self.em.Real(Fraction(c))

    def fluent(self):
        f = self.rng.choice(self.w.fluents)
        if f.arity == 0:
            return self.em.FluentExp(f)
        return self.em.FluentExp(f, [self.em.ObjectExp(self.rng.choice(self.w.objs[self.w.T0]))])

    def leaf(self):
        r = self.rng.random()
        if r < 0.25:
            return self.const()
        if r < 0.55:
            return self.em.ParameterExp(self.rng.choice(self.w.params))
        return self.fluent()

    def split(self, total, parts):
        if total < parts:
            return [1] * parts
        cuts = sorted(self.rng.sample(range(1, total), parts - 1)) if parts > 1 else []
        sizes, prev = [], 0
        for c in cuts + [total]:
            sizes.append(c - prev)
            prev = c
        return sizes

    def num(self, size):
        em, rng = self.em, self.rng
        if size <= 2:
            return self.leaf()
        r = rng.random()
        if r < 0.22:
            k = 3 if size >= 4 and rng.random() < 0.3 else 2
            return em.Plus([self.num(s) for s in self.split(size - 1, k)])
        if r < 0.4:
            a, b = [self.num(s) for s in self.split(size - 1, 2)]
            return em.Minus(a, b)
        if r < 0.72:
            k = 3 if size >= 4 and rng.random() < 0.35 else 2
            return em.Times([self.num(s) for s in self.split(size - 1, k)])
        a, b = self.split(size - 1, 2)
        if rng.random() < 0.35:
            return em.Div(self.num(size - 2), self.const(nonzero=True))
        d = self.num(b)
        if d.is_constant() and d.constant_value() == 0:
            d = self.const(nonzero=True)
        return em.Div(self.num(a), d)


def targeted(w):
    em = w.em
    F = {f.name: f for f in w.fluents}
    P = {p.name: em.ParameterExp(p) for p in w.params}
    a, b = [em.ObjectExp(o) for o in w.objs[w.T0]]
    x, y, z, r = em.FluentExp(F["x"]), em.FluentExp(F["y"]), em.FluentExp(F["z"]), em.FluentExp(F["r"])
    ua, ub = em.FluentExp(F["u"], [a]), em.FluentExp(F["u"], [b])
    out = []
    for fl in (x, y, z, ua, r):
        for name, p in P.items():
            out += [em.Div(fl, p), em.Times(fl, p), em.Times(p, fl), em.Div(em.Times(2, fl), p), em.Div(fl, em.Minus(p, 6)),
                    em.Div(fl, em.Times(p, p)), em.Div(em.Div(fl, p), p), em.Times(p, em.Div(fl, -2)), em.Minus(p, em.Div(fl, p)),
                    em.Div(fl, em.Plus(p, 7)), em.Times(fl, em.Div(1, p)), em.Div(p, fl), em.Div(em.Plus(fl, ub), p),
                    em.Times(p, p, fl), em.Times(fl, p, -1), em.Div(em.Minus(fl, ub), em.Times(p, -1))]
        for c in (2, -2, Fraction(1, 3), Fraction(-7, 2)):
            out += [em.Div(fl, c), em.Times(fl, c), em.Div(c, fl), em.Minus(c, fl), em.Div(em.Minus(c, fl), c)]
        out += [em.Times(fl, x), em.Times(fl, ub), em.Div(fl, z), em.Div(fl, ua), em.Minus(fl, fl), em.Plus(fl, em.Times(-1, fl)),
                em.Times(fl, em.Minus(x, x)), em.Div(fl, em.Minus(ua, 1)), em.Times(em.Plus(fl, 1), em.Minus(z, 5)),
                em.Div(em.Times(fl, z), z), em.Times(em.Div(fl, 2), em.Div(ua, 2)), em.Times(0, fl), em.Times(fl, em.Minus(2, 2))]
    return out


def ser_obs(obs, names):
    if obs is None:
        return "None"
    lin, pos, neg = obs
    return "(Some (%s, %s, %s))" % (gbool(lin), glist([ser_expr(k, names) for k in sorted(pos, key=str)]),
                                    glist([ser_expr(k, names) for k in sorted(neg, key=str)]))


def ser_doms(w, e, names, cap):
    """domains of the occurring symbols; when the number of assignments exceeds `cap` the largest domains are thinned to
    (low end, 0 or a middle point, high end).  Returns (gallina, number of assignments, thinned?)"""
    fls, pars = leaves(e)
    slots = [("fl", fe, w.domain(fe.fluent().type)) for fe in fls] + [("par", p, w.domain(p.type)) for p in pars]
    doms = [list(d) for _, _, d in slots]

    def total():
        t = 1
        for d in doms:
            t *= len(d)
        return t

    thinned = False
    while total() > cap and any(len(d) > 3 for d in doms):
        i = max(range(len(doms)), key=lambda j: len(doms[j]))
        d = doms[i]
        mid = Fraction(0) if (d[0] < 0 < d[-1] and Fraction(0) in d) else d[len(d) // 2]
        doms[i] = sorted(set([d[0], mid, d[-1]]))
        thinned = True
    out = []
    for (kind, x, _), dom in zip(slots, doms):
        if kind == "fl":
            out.append(gpair("(SFl %s %s)" % (gn(names.fl(x.fluent())), glist([gn(names.obj(a.object())) for a in x.args])),
                             glist([ser_value(v, names) for v in dom])))
        else:
            out.append(gpair("(SPar %s)" % gn(names.par(x)), glist([ser_value(v, names) for v in dom])))
    return glist(out), total(), thinned


def size_of(e):
    n, stack = 0, [e]
    while stack:
        x = stack.pop()
        n += 1
        stack.extend(x.args)
    return n


def run(ctx):
    import time as _time
    _t0 = _time.time()
    phases = {}
    import unified_planning as up
    from unified_planning.model.walkers import LinearChecker

    ok_proofs = ctx.check_props(extra=["theories/Corr/Corr_C17.v"])
    phases['proofs_s'] = round(_time.time() - _t0, 1)
    rng = ctx.rng
    w = W17()
    names = Names()
    for t in w.all_user_types():
        names.ty(t)
    for f in w.fluents:
        names.fl(f)
    for p in w.params:
        names.par(p)
    for os in w.objs.values():
        for o in os:
            names.obj(o)
    lc = LinearChecker(w.problem)
    g = Gen17(w, rng)
    exprs = [(e, "targeted") for e in targeted(w)]
    n_rand = 450 if ctx.quick else 50000
    for i in range(n_rand):
        try:
            exprs.append((g.num(rng.choice([3, 4, 5, 5, 6, 6, 6])), "random"))
        except ZeroDivisionError:
            continue        # a constant zero divisor is rejected by the type checker at construction (C15)
    seen, uniq = set(), []
    for e, origin in exprs:
        if e in seen:
            continue
        seen.add(e)
        uniq.append((e, origin))
    exprs = uniq

    records, cases = [], []
    stats = {"origin": {}, "answers": {}, "sizes": {}, "top_ops": {}, "simplified_changed": 0, "assignments_total": 0, "cases_with_thinned_domains": 0, "exceptions": 0}
    for e, origin in exprs:
        simp = lc._simplifier.simplify(e)
        try:
            lin, pos, neg = lc.get_fluents(e)
            obs = (lin, set(pos), set(neg))
        except BaseException as ex:  # observed, compared with the model's None
            obs = None
            stats["exceptions"] += 1
        records.append((e, simp, obs, origin))
        gd, nassign, thinned = ser_doms(w, e, names, 400 if ctx.quick else 3000)
        stats["assignments_total"] += nassign
        stats["cases_with_thinned_domains"] += 1 if thinned else 0
        cases.append("{| c_orig := %s; c_simp := %s; c_obs := %s; c_doms := %s |}" % (
            ser_expr(e, names), ser_expr(simp, names), ser_obs(obs, names), gd))
        stats["origin"][origin] = stats["origin"].get(origin, 0) + 1
        key = "exception" if obs is None else ("nonlinear" if not obs[0] else
                                               "linear:pos=%d,neg=%d,both=%d" % (len(obs[1] - obs[2]), len(obs[2] - obs[1]), len(obs[1] & obs[2])))
        stats["answers"][key] = stats["answers"].get(key, 0) + 1
        sz = size_of(e)
        stats["sizes"][sz] = stats["sizes"].get(sz, 0) + 1
        top = str(e.node_type).split(".")[-1]
        stats["top_ops"][top] = stats["top_ops"].get(top, 0) + 1
        if simp is not e:
            stats["simplified_changed"] += 1

    env_g = ser_env(w, names, [])
    preamble = "Definition G0 : tenv := %s.\n" % env_g
    phases['generate_and_run_impl_s'] = round(_time.time() - _t0, 1)
    bad = ctx.coq_failing(cases, "(ok G0)", imports=IMPORTS, preamble=preamble, shard=max(60, min(250, (len(cases) + 7) // 8)))
    phases['coq_cases_s'] = round(_time.time() - _t0, 1)
    shown = 0
    for i in bad[:12]:
        e, simp, obs, origin = records[i]
        witness = py_oracle(w, e, obs)
        prop_fails = witness is not None
        tags = ["c17", "origin:" + origin, "top:" + str(e.node_type).split(".")[-1]]
        fls, pars = leaves(e)
        if e.is_div():
            d = e.arg(1)
            tags.append("divisor:" + ("constant" if d.is_constant() else "parameter" if d.is_parameter_exp() else "expression"))
        model = "(not evaluated)"
        if shown < 3:
            shown += 1
            model = ctx.coq_show("(lin G0 (c_simp c), corr G0 c, oracle c, nonlinear_clauses c)", imports=IMPORTS,
                                 preamble=preamble + "Definition c := %s.\n" % cases[i])
        if prop_fails:
            tags.append("reported-monotone-but-is-not")
            what = "get_fluents(%s) = %s but the value is not monotone in %s as reported (oracle:C17:exhaustive evaluation)" % (
                e, _obs_str(obs), witness["fluent"])
            kind = "oracle"
        else:
            what = "get_fluents(%s) = %s differs from the model's walk on %s (corr:C17:lin)" % (e, _obs_str(obs), simp)
            kind = "corr"
        ctx.fail(kind, what, tags, {"expr": str(e), "simplified": str(simp), "observed": _obs_str(obs), "witness": witness,
                                    "model_and_checks": model, "gallina_case": cases[i][:3000], "names": names.table(),
                                    "theorem_or_corr": "corr:C17:lin / oracle:C17_linear_mono_pos,neg"}, prop_fails)

    if not ok_proofs:
        ctx.proof_broken()
    nontrivial = [r for r in records if size_of(r[0]) >= 3]
    ctx.finish({
        "evaluations": len(cases),
        "distinct_nontrivial": len(nontrivial),
        "rule": "distinct expressions (hash-consed FNodes) with at least 3 nodes; every case is evaluated exhaustively over the domains of its "
                "occurring symbols inside Coq (integer domains complete, real domains at 3-4 sample points; when an expression has more "
                "than 400 (quick) / 3000 (thorough) assignments its largest domains are thinned to low end / 0 or middle / high end: see "
                "distribution.cases_with_thinned_domains)",
        "samples": [{"expr": str(r[0]), "simplified": str(r[1]), "answer": _obs_str(r[2]), "origin": r[3]} for r in (records[:3] + records[-3:])],
        "distribution": stats,
        "phase_times_cumulative": phases,
        "traces_validated_against_impl": len(cases),
    }, "proof", assumptions=[
        "arithmetic expressions over numeric constants, bounded parameters and ground fluent expressions (no interpreted functions)",
        "get_fluents = walk(simplify(e)); the simplified expression is observed, not modelled (C11)",
        "monotonicity is claimed where the expression is defined (no division by zero) and values respect the declared types",
    ])


def _obs_str(obs):
    if obs is None:
        return "exception"
    return "(%s, {%s}, {%s})" % (obs[0], ", ".join(sorted(map(str, obs[1]))), ", ".join(sorted(map(str, obs[2]))))
