"""C22 - Problem cloning yields an equal, independent copy that accepts the same edits.

Theorems: coq/theories/Props/C22.v (about coq/theories/Model/Clone.v and the regenerated coq/theories/Gen/Gen_Clone.v).
Ties:
  * translator tools/gen_clone.py (fail-closed `ast`): attributes initialised by __init__ vs written by clone()/_clone_to,
    for Problem, ContingentProblem, HierarchicalProblem, MultiAgentProblem (+ its MAEnvironment), SchedulingProblem, Agent
    and the action / event / process classes; `C22_clone_copies_every_field` is re-proved on every run;
  * correspondence: example problems (all classes) and generated ones, cloned, then 10-60 random edits applied to both
    (each edit built separately per problem) and some to one side only; the heap model replays the same history inside
    Coq and must agree on every outcome, on ==, and on the final content of both problems (Problem / Contingent /
    Hierarchical: their Problem part);
  * direct oracle on every class: clone == original, same kind/hash/class, same outcome per edit, independence
    (deep snapshot + hash of the untouched problem unchanged).
"""
import json
import os
import subprocess
import sys
import time

from harness.core import VERIF, glist, gopt, gbool

META = {
    "level": "proof",
    "technique": "Coq proof (heap model of clone/in-place edits: simulation, same outcomes, independence, for all edit "
                 "sequences) + regenerated attribute tables (fail-closed ast translator) + model/implementation "
                 "correspondence by vm_compute + direct differential oracle on all problem classes",
    "text": "For every well-formed heap and problem object, after clone() every interleaving of API calls on original and "
            "clone makes each evolve as its pure semantics alone prescribes: same outcomes, equal content, no influence on "
            "the other; every attribute of every problem class is cloned or immutable/shared (regenerated table).",
    "note": "Trusted: Coq kernel/vm_compute; the translator's whitelist and its hand-maintained immutable/shared list "
            "(tools/gen_clone.py, justified there); the harness interning of Python values by their own ==/hash; argument "
            "validation (type checks) enters the model as the o_pre flag computed by the harness from the argument types. "
            "kind and initial_values are arbitrary functions of the content in the theorems. The behavioural model covers "
            "the Problem part (also of ContingentProblem / HierarchicalProblem); MultiAgentProblem and SchedulingProblem "
            "behaviour is validated by the direct oracle only. No axioms.",
}

IMPORTS = ["UPV.Model.Clone", "UPV.Corr.Corr_C22"]


# ---------------------------------------------------------------------------------------------------------------------
class Recorder:
    """turns what run_pair does into a Corr_C22.case literal"""

    def __init__(self):
        from harness.c22_ser import Ser
        self.ser = Ser()
        self.steps, self.outs, self.eqs = [], [], []
        self.pending = None
        self.init = self.final = None
        self.error = None

    def start(self, p):
        self.init = self.ser.dump(p)

    def step(self, side, spec, tgt):
        if self.error:
            return
        try:
            o = self.ser.op(tgt, spec)
        except Exception as e:           # an edit the serialiser cannot express: the case is not sent to Coq
            self.error = "%s: %s" % (type(e).__name__, e)
            return
        self.pending = {"both": "SBoth (%s)", "p": "SOne SOrig (%s)", "c": "SOne SClone (%s)"}[side] % o

    def after(self, outs, eq):
        from harness.c22_ser import goutcome
        if self.error or self.pending is None:
            return
        self.steps.append(self.pending)
        self.pending = None
        self.outs.append(glist([goutcome(o) for o in outs]))
        self.eqs.append(gopt(None if eq is None else gbool(eq)))

    def reclone(self):
        if self.error:
            return
        self.steps.append("SReclone")
        self.outs.append("[]")
        self.eqs.append("None")

    def finish(self, p, c):
        self.final = (self.ser.dump(p), self.ser.dump(c))

    def case(self):
        return ("{| c_init := %s; c_steps := %s; c_outs := %s; c_eqs := %s; c_final_p := %s; c_final_c := %s |}" % (
            self.init, glist(self.steps), glist(self.outs), glist(self.eqs), self.final[0], self.final[1]))


def shared_action_between_agents(p):
    from unified_planning.model.multi_agent import MultiAgentProblem
    if not isinstance(p, MultiAgentProblem):
        return False
    seen = set()
    for ag in p.agents:
        for a in ag.actions:
            if id(a) in seen:
                return True
            seen.add(id(a))
    return False


def action_used_as_subtask(p):
    from unified_planning.model.htn import HierarchicalProblem
    from unified_planning.model import Action
    if not isinstance(p, HierarchicalProblem):
        return False
    subs = list(p.task_network.subtasks)
    for m in p.methods:
        subs += list(m.subtasks)
    return any(isinstance(st.task, Action) for st in subs)


# ---------------------------------------------------------------------------------------------------------------------
def field_witness(cls_name, field):
    """A concrete failing input for an attribute that clone() does not cover: a problem of that class which uses the
    attribute, whose clone differs.  Returns (property_fails, description, payload)."""
    from harness.c22_oracle import seeded_problem, snapshot, same, run_pair
    import random
    base = cls_name.split(".")[0]
    # objects owned by a problem: look at them inside a seeded problem that contains one
    owner = {"InstantaneousAction": "Problem", "DurativeAction": "Problem", "SensingAction": "ContingentProblem",
             "Agent": "MultiAgentProblem"}.get(base, base)
    if owner not in ("Problem", "ContingentProblem", "HierarchicalProblem", "MultiAgentProblem", "SchedulingProblem"):
        return False, "no witness builder for class %s" % cls_name, {}
    p = seeded_problem(owner)
    c = p.clone()

    def holders(q):
        if "." in cls_name:
            return [getattr(q, cls_name.split(".")[1])]
        if owner == base:
            return [q]
        objs = list(q.agents) if base == "Agent" else list(q.actions)
        return [o for o in objs if type(o).__name__ == base]
    try:
        differs = any(snapshot(getattr(hp, field)) != snapshot(getattr(hc, field))
                      for hp, hc in zip(holders(p), holders(c)))
        holder_p, holder_c = (holders(p) + [p])[0], (holders(c) + [c])[0]
    except AttributeError:
        return False, "attribute %s not found on a %s instance" % (field, cls_name), {}
    base = owner
    ws = same(p, c)
    payload = {"class": cls_name, "field": field, "original": repr(snapshot(getattr(holder_p, field)))[:400],
               "clone": repr(snapshot(getattr(holder_c, field)))[:400], "static_discrepancies": ws}
    if ws:
        return True, "%s.%s is not (fully) cloned: seeded %s problem and its clone: %s" % (cls_name, field, base, "; ".join(ws)), payload
    # equal by == : look for divergent behaviour under edits
    for seed in range(25):
        tr, _, _ = run_pair("witness", seeded_problem(base), random.Random(seed), 30, 6)
        # the open finding on hierarchical problems (shared methods) is not evidence about THIS attribute
        tr.violations = [v for v in tr.violations if not (base == "HierarchicalProblem" and v[2] == "aliasing:act_eff")]
        if tr.violations:
            payload["divergence"] = tr.violations[:2]
            payload["last_step"] = tr.steps[-1] if tr.steps else None
            return True, "%s.%s is not (fully) cloned: divergent behaviour: %s" % (cls_name, field, tr.violations[0][1]), payload
    if differs:
        return True, "%s.%s is not cloned: the attribute differs between a seeded %s problem and its clone" % (
            cls_name, field, base), payload
    return False, "%s.%s: the clone() table is violated but no behavioural difference was found" % (cls_name, field), payload


def uncovered_fields():
    """re-read the translator's tables in Python (same code path as the generated file) -> uncovered (class, field)"""
    import importlib.util
    spec = importlib.util.spec_from_file_location("gen_clone", os.path.join(VERIF, "tools", "gen_clone.py"))
    m = importlib.util.module_from_spec(spec)
    spec.loader.exec_module(m)
    allf, cloned, ctor, imm = m.translate()

    def covered(cf):
        if cf in cloned:
            return True
        return any((cl, at) == cf and (req == "" or (cl, req) in ctor) for cl, at, req in imm)
    copy, required, accepted = m.depth_tables(allf, cloned)
    depth = {(c, a): d for c, a, d in copy}
    shallow = [(c, a, "copied %d level(s) deep, declared %d" % (depth.get((c, a), 0), d)) for c, a, d in required
               if (c, a) in cloned and (c, a) not in accepted and depth.get((c, a), 0) < d]
    return [(c, a, "not written by clone()") for (c, a) in allf if not covered((c, a))] + shallow, len(allf)


def known_scenarios():
    """Concrete inputs of the two open findings; yields (what, tags, payload) while the implementation still shows them."""
    from harness.c22_oracle import seeded_problem, guard, same
    from harness.c22_edits import apply_edit
    from unified_planning.shortcuts import UserType, Fluent, BoolType, InstantaneousAction, Object
    from unified_planning.model.multi_agent import MultiAgentProblem, Agent
    out = []
    # (1) HierarchicalProblem: methods / task network are shared with the clone and point at the ORIGINAL's action objects
    p = seeded_problem("HierarchicalProblem")
    c = p.clone()
    g = guard(c)
    spec = {"op": "act_eff", "action": "mv", "eff": {"k": "assign", "fl": ["fl", "b", []], "val": ["bool", True], "cond": None}}
    o = apply_edit(p, spec)
    if o == "ok" and guard(c) != g:
        out.append(("HierarchicalProblem: add_effect on an action of the ORIGINAL changes the CLONE (its methods' subtasks "
                    "still reference the original's action object): hash(clone) changed",
                    ["class:HierarchicalProblem", "action-used-as-subtask", "aliasing:act_eff", "aliasing"],
                    {"scenario": "seeded HierarchicalProblem; c = p.clone(); p.action('mv').add_effect(b, True)", "edit": spec,
                     "theorem_or_corr": "theorem:C22_htn_methods_alias_original_actions_refuted"}))
    # (2) MultiAgentProblem: one Action object added to two agents; clone() gives each agent its own copy
    T = UserType("Loc")
    p = MultiAgentProblem("shared")
    p.add_object(Object("l1", T))
    flag = Fluent("flag", BoolType())
    p.ma_environment.add_fluent(flag, default_initial_value=False)
    act = InstantaneousAction("go")
    for an in ("r1", "r2"):
        ag = Agent(an, p)
        ag.add_action(act)
        p.add_agent(ag)
    c = p.clone()
    spec = {"op": "ma_act_eff", "agent": "r1", "action": "go",
            "eff": {"k": "assign", "fl": ["fl", "flag", []], "val": ["bool", True], "cond": None}}
    o1, o2 = apply_edit(p, spec), apply_edit(c, spec)
    ws = same(p, c)
    if o1 == o2 == "ok" and ws:
        out.append(("MultiAgentProblem with one Action object added to two agents: the same add_effect on agent r1's action of "
                    "original and clone leaves them different (%s): the original's agents share the action, the clone's do not"
                    % "; ".join(ws),
                    ["class:MultiAgentProblem", "shared-action-between-agents", "diverged:ma_act_eff"],
                    {"scenario": "act added to agents r1 and r2; c = p.clone(); same add_effect on r1's action of both",
                     "edit": spec, "discrepancies": ws,
                     "theorem_or_corr": "theorem:C22_aliased_original_refuted"}))
    return out


# ---------------------------------------------------------------------------------------------------------------------
def run(ctx):
    t0 = time.time()
    # 1. translator
    rc = subprocess.run([sys.executable, "-W", "ignore", os.path.join(VERIF, "tools", "gen_clone.py")],
                        stdout=subprocess.PIPE, stderr=subprocess.STDOUT, text=True, timeout=120)
    translator_ok = rc.returncode == 0
    if not translator_ok:
        ctx.fail("translator", "tools/gen_clone.py failed (fail-closed): %s" % rc.stdout[-600:], ["translator", "gen_clone"],
                 {"output": rc.stdout[-2000:]}, False)
    # 2. theorems (rebuilds Gen_Clone.vo and its dependants)
    ok_proofs = ctx.check_props(extra=["theories/Corr/Corr_C22.v"])
    t_proofs = time.time() - t0
    found_witness = False
    n_fields = 0
    if translator_ok:
        try:
            unc, n_fields = uncovered_fields()
        except Exception as e:
            unc = []
            ctx.fail("translator", "cannot re-read the translator tables: %r" % (e,), ["translator"], {}, False)
        for cls_name, field, why in unc:
            pf, what, payload = field_witness(cls_name, field)
            found_witness = found_witness or pf
            payload["table"] = why
            payload["theorem_or_corr"] = "theorem:C22_clone_copies_every_field / C22_nested_fields_copied_deeply"
            ctx.fail("oracle" if pf else "translator", "%s (%s)" % (what, why),
                     ["field-not-cloned", "class:" + cls_name, "field:" + field], payload, pf)

    # 2b. the two open findings, replayed deterministically (they are also met at random below)
    for what, tags, payload in known_scenarios():
        ctx.fail("oracle", what, tags, payload, True)

    # 3. behaviour
    import unified_planning as up
    from harness.c22_oracle import example_sources, seeded_problem, grown_problem, run_pair
    from unified_planning.model.multi_agent import MultiAgentProblem
    from unified_planning.model.scheduling import SchedulingProblem
    assert up.environment.get_environment().error_used_name, "the model assumes the default error_used_name = True"
    rng = ctx.rng
    quick = ctx.quick
    rounds = 1 if quick else 6
    cases, raw = [], []
    stats = {"pairs": 0, "classes": {}, "ops": {}, "outcomes": {}, "steps_both": 0, "steps_single": 0, "reclones": 0,
             "sent_to_coq": 0, "not_serialisable": 0, "edits_per_pair_min": 10 ** 9, "edits_per_pair_max": 0}
    nontrivial = set()

    def account(tr, p):
        stats["pairs"] += 1
        cn = type(p).__name__
        stats["classes"][cn] = stats["classes"].get(cn, 0) + 1
        n = 0
        failing = 0
        for s in tr.steps:
            if s["side"] == "reclone":
                stats["reclones"] += 1
                continue
            n += 1
            stats["steps_both" if s["side"] == "both" else "steps_single"] += 1
            stats["ops"][s["spec"]["op"]] = stats["ops"].get(s["spec"]["op"], 0) + 1
            o = s.get("out_p", s.get("out"))
            stats["outcomes"][o] = stats["outcomes"].get(o, 0) + 1
            failing += o != "ok"
        stats["edits_per_pair_min"] = min(stats["edits_per_pair_min"], n)
        stats["edits_per_pair_max"] = max(stats["edits_per_pair_max"], n)
        if n >= 5 and failing >= 1:
            nontrivial.add(json.dumps([cn, [s.get("spec") for s in tr.steps]], sort_keys=True, default=str))

    for rnd in range(rounds):
        srcs = example_sources()
        names = sorted(srcs)
        if quick:
            # every multi-agent / hierarchical / scheduling example, and a seeded-random third of the rest
            keep = [n for n in names if n.startswith("ma:") or not type(srcs[n]).__name__ == "Problem"]
            rest = [n for n in names if n not in keep]
            rng.shuffle(rest)
            names = sorted(keep + rest[:len(rest) // 3])
        todo = [(n, srcs[n]) for n in names]
        for cn in ("Problem", "ContingentProblem", "HierarchicalProblem", "MultiAgentProblem", "SchedulingProblem"):
            todo.append(("seeded:" + cn, seeded_problem(cn)))
        for cn in ("Problem", "ContingentProblem", "HierarchicalProblem"):
            for i in range(3 if quick else 8):
                todo.append(("grown:%s:%d" % (cn, i), grown_problem(cn, rng, rng.randint(5, 30))[0]))
        for name, p in todo:
            modelled = not isinstance(p, (MultiAgentProblem, SchedulingProblem))
            big = name in ("ma:ma_buttons",)
            n_both = rng.randint(10, 22 if (quick or big) else 50)
            n_single = rng.randint(2, 6 if quick else 10)
            rec = Recorder() if modelled else None
            tags0 = ["class:" + type(p).__name__]
            if shared_action_between_agents(p):
                tags0.append("shared-action-between-agents")
            if action_used_as_subtask(p):
                tags0.append("action-used-as-subtask")
            tr, p2, c2 = run_pair(name, p, rng, n_both, n_single, rec=rec)
            account(tr, p2)
            for (idx, what, tag) in tr.violations:
                ctx.fail("oracle", "%s [%s]: %s" % (name, type(p2).__name__, what),
                         tags0 + [tag, ":".join(tag.split(":")[:2])],
                         {"source": name, "class": type(p2).__name__, "violation": what, "at_step": idx,
                          "steps": tr.steps[-6:], "theorem_or_corr": "oracle:clone==original/same-outcome/independence"},
                         True)
            if rec is not None and not tr.violations:
                if rec.error:
                    stats["not_serialisable"] += 1
                else:
                    cases.append(rec.case())
                    raw.append({"source": name, "class": type(p2).__name__, "steps": tr.steps})
    stats["sent_to_coq"] = len(cases)
    t_impl = time.time() - t0 - t_proofs
    t1 = time.time()

    # 4. the model replays every history
    bad = []
    if cases:
        try:
            shard = 14 if quick else 25
            par = int(os.environ.get("C22_COQ_PAR", "2"))          # coqc processes at a time (the machine is shared)
            for base in range(0, len(cases), par * shard):
                bad += [base + j for j in ctx.coq_failing(cases[base:base + par * shard], "ok", imports=IMPORTS,
                                                          shard=shard, timeout=900)]
        except Exception as e:
            ctx.fail("corr", "Coq could not evaluate the correspondence cases: %s" % str(e)[-800:], ["corr-machinery"],
                     {"error": str(e)[-2000:]}, False)
    for i in bad:
        model = ctx.coq_show("explain c", imports=IMPORTS, preamble="Definition c := %s.\n" % cases[i])
        # the property oracle already ran on this very history and found nothing (otherwise the case is not sent):
        # a disagreement here is between the model and the implementation, not a failure of the property
        ctx.fail("corr", "history on %s: implementation and heap model disagree (corr:C22:replay)" % raw[i]["source"],
                 ["corr", "class:" + raw[i]["class"]],
                 {"source": raw[i]["source"], "steps": raw[i]["steps"], "model": model[:3000],
                  "theorem_or_corr": "corr:C22:hstep/hclone/abs"}, False)
    if not ok_proofs and not found_witness:
        ctx.proof_broken()
    elif not ok_proofs:
        ctx.fail("proof", "theorem file UPV.Props.C22 no longer checks (a failing input was found, see the other replay)",
                 ["proof-broken"], {"coq_log_tail": ctx.proof_info.get("log", "")[-1500:]}, False)
    ctx.finish({
        "evaluations": stats["steps_both"] + stats["steps_single"] + stats["pairs"],
        "distinct_nontrivial": len(nontrivial),
        "rule": "one evaluation = one clone() check or one edit applied (to both / to one side) with all comparisons; "
                "distinct_nontrivial = distinct (class, edit history) with >= 5 edits and >= 1 rejected edit",
        "samples": [{"source": r["source"], "class": r["class"], "steps": r["steps"][:3]} for r in raw[:2]],
        "distribution": stats,
        "fields_in_tables": n_fields,
        "traces_validated_against_impl": len(cases),
        "seconds": {"translator_and_theorems": round(t_proofs, 1), "implementation_and_oracle": round(t_impl, 1),
                    "model_replay_in_coq": round(time.time() - t1, 1)},
    }, "proof", assumptions=[
        "environment flag error_used_name = True (the default)",
        "distinct user types have distinct names; metrics refer to the problem's own actions by unique names",
        "argument validation (type compatibility, end timings, malformed constraints) is state-independent: o_pre",
    ])
