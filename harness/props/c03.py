"""C03 — Sequential plan validation decides validity and metric values exactly.

Theorems: coq/theories/Props/C03.v.  Tie: correspondence + direct oracle — for generated problems (with and without one
quality metric) every plan up to the tier's length over the ground action instances (plus the empty plan and random
longer plans) is validated by the real SequentialPlanValidator; Coq recomputes the verdict and the metric value with
the documented semantics (oracle) and with the model of the code.
"""
import json
import random
from fractions import Fraction
from itertools import product

from harness import simexplore as sx
from harness.gen.problems import GenProblem, SerProblem
from harness.core import gn, glist, gpair, gopt, gbool
from harness.ser import ser_value, gqc
from harness.props import c01

META = {
    "level": "proof",
    "technique": "Coq proof (validator loop = run of the plan, then goals, then the metric's defining equation; induction over plans) + correspondence of whole-plan validation on enumerated plans by vm_compute",
    "text": "The model of SequentialPlanValidator._validate/evaluate_quality_metric is proved to return VALID exactly for plans valid under C01's semantics and to report the value each metric defines (costs over pre-states, length, final expression, oversubscription gain), including the empty plan; verdict and value are compared with the real validator on all short plans of generated problems.",
    "note": "Hypothesis (documented by the simulator): the initial state satisfies bounded types and invariants. A valid plan whose metric has no value (cost reads an undefined fluent) is INVALID in code and model; stated in C03_status. Same trusted base as C01.",
}

IMPORTS = c01.IMPORTS + ["UPV.Planning.SeqValidate", "UPV.Corr.Corr_C03"]


# ---------------------------------------------------------------------------------------------------------------------
# LONG plans.  UPState keeps the successor states of a plan as a chain of deltas and flattens the chain every
# MAX_ANCESTORS (20) children, i.e. while applying the 21st, 42nd ... step of a plan: validity of a plan of >= 21 steps
# depends on that flattening being the identity on values.  Short plans (<= 6 steps) never reach it.
LONG_LENS = (19, 20, 21, 22, 23, 40, 41, 42, 43, 44)


def long_plan_corpus():
    """Hand-written problems with SCRIPTED long plans: set / reset patterns on Boolean and numeric fluents with a declared
    default, where the reset (delete, assignment of the default, decrease back to the default) happens at steps 20..22 and
    41..43, followed by steps / goals / metrics that read the reset fluents.  One problem per metric kind."""
    from unified_planning.environment import Environment
    from unified_planning.model import Fluent, Problem, InstantaneousAction, Object
    from unified_planning.model.metrics import (MinimizeActionCosts, MinimizeExpressionOnFinalState, Oversubscription,
                                                MinimizeSequentialPlanLength)
    out = []
    for kind in ("none", "length", "final", "costs", "oversub"):
        env = Environment()
        tm, em = env.type_manager, env.expression_manager
        T = tm.UserType("T")
        p = Problem("long-" + kind, env)
        o1, o2 = Object("o1", T, env), Object("o2", T, env)
        p.add_objects([o1, o2])
        lamp = Fluent("lamp", tm.BoolType(), environment=env)
        ticks = Fluent("ticks", tm.IntType(0, 100), environment=env)
        lvl = Fluent("lvl", tm.IntType(0, 6), x=T, environment=env)
        p.add_fluent(lamp, default_initial_value=False)
        p.add_fluent(ticks, default_initial_value=0)
        p.add_fluent(lvl, default_initial_value=0)
        L, K = em.FluentExp(lamp), em.FluentExp(ticks)

        def act(name, **params):
            a = InstantaneousAction(name, _env=env, **params)
            p.add_action(a)
            return a
        on = act("switch_on"); on.add_precondition(em.Not(L)); on.add_effect(L, True)
        off = act("switch_off"); off.add_precondition(L); off.add_effect(L, False)
        tick = act("tick"); tick.add_increase_effect(K, 1)
        up_ = act("raise", l=T); up_.add_increase_effect(lvl(up_.parameter("l")), 2)
        low = act("lower", l=T); low.add_precondition(em.GE(lvl(low.parameter("l")), 2)); low.add_decrease_effect(lvl(low.parameter("l")), 2)
        clr = act("clear", l=T); clr.add_effect(lvl(clr.parameter("l")), 0)
        dark = act("in_the_dark"); dark.add_precondition(em.Not(L)); dark.add_increase_effect(K, 1)
        use = act("use", l=T); use.add_precondition(em.GE(lvl(use.parameter("l")), 2)); use.add_increase_effect(K, 1)
        O1, O2 = em.ObjectExp(o1), em.ObjectExp(o2)
        p.add_goal(em.Not(L))
        p.add_goal(em.Equals(lvl(O1), 0))
        if kind == "length":
            p.add_quality_metric(MinimizeSequentialPlanLength(environment=env))
        elif kind == "final":
            p.add_quality_metric(MinimizeExpressionOnFinalState(em.Plus(K, em.Times(3, lvl(O1)), em.Times(5, lvl(O2))), environment=env))
        elif kind == "costs":   # the cost of a tick reads the pre-state: the steps after a reset see the reset value
            p.add_quality_metric(MinimizeActionCosts({tick: em.Plus(1, lvl(O1), lvl(O2)), dark: em.Int(2), low: lvl(low.parameter("l"))},
                                                     em.Int(1), environment=env))
        elif kind == "oversub":
            p.add_quality_metric(Oversubscription({em.Not(L): 5, em.Equals(lvl(O2), 0): 2, em.GE(K, 21): Fraction(1, 2)}, environment=env))
        t = ("tick", [])
        scripts = []
        for k in (21, 22):          # the first resets are the k-th step, the second ones the (k+21)-th
            # Boolean deleted; afterwards a step that needs it false
            scripts.append([("switch_on", [])] + [t] * (k - 2) + [("switch_off", [])] + [t] * 2 + [("switch_on", [])] + [t] * 17
                           + [("switch_off", [])] + [("in_the_dark", [])] + [t])
            # counter decreased back to its default; counter assigned its default; afterwards a step that needs it >= 2
            scripts.append([("raise", [O1])] + [t] * (k - 2) + [("lower", [O1])] + [t] + [("raise", [O2]), ("raise", [O2])] + [t] * 17
                           + [("clear", [O2])] + [("use", [O2])] + [t])
            # both at once
            scripts.append([("switch_on", []), ("raise", [O1]), ("raise", [O2])] + [t] * (k - 5) + [("lower", [O2]), ("switch_off", [])]
                           + [("clear", [O1])] + [("in_the_dark", [])] + [t] * 16 + [("raise", [O1]), ("switch_on", [])]
                           + [("lower", [O1]), ("switch_off", [])] + [t])
        hp = sx.HandProblem(p, "long-" + kind)
        hp.scripts = scripts
        out.append(hp)
    return out


# Coq function that judges a LONG plan.  Corr_C03.code runs the documented semantics with Sem.spec_step, whose successor
# state is a closure that reads its predecessor twice per lookup: its cost doubles with every step (a 20-step plan does
# not finish).  The long family is therefore judged with the step function that C01_sim_run_refines_spec proves equal to
# spec_step on typed plans, under STRICT evaluation (sc = false: the documented semantics) for bit 0 and under the
# code's short-circuit evaluation for bit 1 -- both are seq_validate of Planning/SeqValidate.v, nothing new is modelled.
CODE_LONG = """
Definition code_long (P : problem) (M : metric) (c : case) : N :=
  let s0 := st_of (c_init c) in
  ((if vres_eqb (seq_validate false P M s0 (c_plan c)) (c_valid c) (c_metric c) then 0 else 1) +
   (if vres_eqb (seq_validate true P M s0 (c_plan c)) (c_valid c) (c_metric c) then 0 else 2))%N.
"""


def long_plans(gen, insts, sim, rng):
    """Plans (tuples of indices into insts) of the LONG family for one problem: the prefixes of lengths LONG_LENS (and the
    whole) of every scripted plan of a corpus problem; for every other problem the same prefixes of one random walk of
    applicable steps (the walk is chosen with the simulator, the verdict on each prefix is Coq's)."""
    index = {(a.name, tuple(str(x) for x in args)): j for j, (a, args) in enumerate(insts)}
    scripts = getattr(gen, "scripts", None) or ([gen.script] if getattr(gen, "script", None) else [])
    walks = [tuple(index[(name, tuple(str(x) for x in args))] for name, args in sc) for sc in scripts]
    lens = LONG_LENS
    if not scripts and insts and sim is not None:
        lens = (21, 22, 43)
        walk = []
        try:
            st = sim.get_initial_state()
            while len(walk) < max(LONG_LENS):
                cands = list(range(len(insts)))
                rng.shuffle(cands)
                nxt = None
                for j in cands[:8]:
                    nxt = sim.apply(st, insts[j][0], insts[j][1])
                    if nxt is not None:
                        walk.append(j)
                        st = nxt
                        break
                if nxt is None:
                    break
        except Exception:  # noqa  (a step that raises is C01's business; the walk stops there)
            pass
        walks = [tuple(walk)]
    out = []
    for w in walks:
        for n in sorted(set(x for x in lens if x < len(w)) | {len(w)}):
            if n >= min(LONG_LENS) and w[:n] not in out:
                out.append(w[:n])
    return out


def replay_plan(pi, gen, ser, insts_plan):
    """Replay a plan step by step through the real simulator; returns (step records, final-goal record or None)."""
    from unified_planning.engines.sequential_simulator import UPSequentialSimulator
    ed = getattr(gen, "_c03_edit", None)
    if ed is not None:      # put the problem in the state (before / after the history's edit) in which the plan was validated
        fexp, old_v, new_v = ed
        gen.problem.set_initial_value(fexp, new_v if pi >= 100000 else old_v)
    sim = UPSequentialSimulator(gen.problem)
    st = sim.get_initial_state()
    recs = []
    alive = True
    for a, args in insts_plan:
        vals = ser.read_state(st)
        rec = {"state": vals, "action": a, "args": args, "raised": None, "sidx": 0}
        try:
            rec["isapp"] = bool(sim.is_applicable(st, a, args))
            nxt = sim.apply(st, a, args)
        except Exception as e:  # noqa
            rec["isapp"], nxt = None, None
            rec["raised"] = "apply:" + type(e).__name__
        rec["apply"] = None if nxt is None else ser.read_state(nxt)
        recs.append(rec)
        if nxt is None:
            alive = False
            break
        st = nxt
    grec = None
    if alive:
        try:
            isgoal = bool(sim.is_goal(st))
        except Exception:  # noqa
            isgoal = False
        grec = {"vals": ser.read_state(st), "isgoal": isgoal, "nunsat": 0}
    return recs, grec


def diagnose_all(ctx, failing, pre):
    """failing: list of (key, pi, gen, ser, insts_plan).  Classify, for each failing plan, the FIRST step (or the goal
    test) on which the simulator deviates from the documented semantics, with C01's classifier (inherited findings).
    One Coq evaluation for all of them."""
    cases, gcases, index, tdefs = [], [], [], []
    for key, pi, gen, ser, iplan in failing:
        ex = sx.Explored(pi, gen, ser)
        recs, grec = replay_plan(pi, gen, ser, iplan)
        lo = len(cases)
        tdefs.append("Definition TD%d : tytab := %s." % (len(index), c01.tytab(ex)))
        cases += ["(TD%d, P%d, %s)" % (len(index), pi, sx.ser_pair_case(ex, r)) for r in recs]
        gi = None
        if grec is not None:
            gi = len(gcases)
            gcases.append("(P%d, %s)" % (pi, sx.ser_goal_case(ex, grec)))
        index.append((key, ex, recs, lo, gi))
    # the grounded comparison of C01 (Corr_C01g.codeg): the Coq verdict "implementation = grounded model" classifies
    # the inherited grounder-related findings exactly as ./check C01 does
    codes = ctx.coq_codes(cases, "fun t => codeg (fst (fst t)) (snd (fst t)) (snd t)", imports=c01.IMPORTS_G + IMPORTS,
                          preamble=pre + "\n".join(tdefs) + "\n", label="diag") if cases else []
    gcodes = ctx.coq_codes(gcases, "fun pc => Corr_C01.gcode (fst pc) (snd pc)", imports=IMPORTS, preamble=pre, label="diagg") if gcases else []
    out = {}
    for key, ex, recs, lo, gi in index:
        tags = None
        for j, r in enumerate(recs):
            c = codes[lo + j]
            if c & 1:
                tags = [t for t in c01.classify(ex, r, c, grounded=True) if t != "c01"] + ["step-deviation"]
                break
        if tags is None and gi is not None and gcodes[gi] & 1:
            tags = ["goal-deviation"] + (["impl-equals-short-circuit-model"] if not gcodes[gi] & 2 else [])
        out[key] = tags or ["validator-only-deviation"]
    return out


def run(ctx):
    import unified_planning as up
    from unified_planning.engines.plan_validator import SequentialPlanValidator
    from unified_planning.engines.sequential_simulator import UPSequentialSimulator
    from unified_planning.plans import SequentialPlan, ActionInstance
    from unified_planning.engines.results import ValidationResultStatus
    ok_proofs = ctx.check_props(extra=["theories/Corr/Corr_C03.v"])
    rng = ctx.rng
    lrng = random.Random(rng.random())     # the long walks draw from their own stream
    nprob = 40 if ctx.quick else 400
    maxlen = 2 if ctx.quick else 3
    cap = 45 if ctx.quick else 160
    pre, cases, owners = [], [], []
    lcases, lowners = [], []
    stats = {"problems": 0, "skipped": 0, "plans": 0, "valid": 0, "invalid": 0, "empty_plans": 0, "raised": 0,
             "metrics": {}, "valid_with_metric": 0}
    nontrivial = set()
    gens = [(hp, None) for hp in sx.corpus_problems() + sx.metric_corpus() + long_plan_corpus()]
    for i in range(nprob):
        gens.append((None, {"metrics": True, "max_actions": 2}))
    for pi, (hp, knobs) in enumerate(gens):
        gen = hp if hp is not None else GenProblem(rng, **knobs)
        if hp is not None and rng.random() < 2:   # give corpus problems a final-value style metric when possible
            pass
        problem = gen.problem
        ser = SerProblem(problem)
        try:
            sim = UPSequentialSimulator(problem)
            s0 = ser.read_state(sim.get_initial_state())
        except (up.exceptions.UPProblemDefinitionError, up.exceptions.UPUsageError):
            stats["skipped"] += 1
            continue
        stats["problems"] += 1
        metric = problem.quality_metrics[0] if problem.quality_metrics else None
        mname = type(metric).__name__ if metric is not None else "none"
        stats["metrics"][mname] = stats["metrics"].get(mname, 0) + 1
        pre.append("Definition P%d : problem := %s.\nDefinition M%d : metric := %s." % (pi, ser.render(), pi, ser.render_metric(metric)))
        insts = gen.ground_instances()
        plans = [()]
        for L in range(1, maxlen + 1):
            allp = list(product(range(len(insts)), repeat=L)) if len(insts) ** L <= 4000 else None
            if allp is None:
                allp = [tuple(rng.randrange(len(insts)) for _ in range(L)) for _ in range(cap)]
            rng.shuffle(allp)
            plans += allp[:cap // maxlen]
        for _ in range(3):
            plans.append(tuple(rng.randrange(len(insts)) for _ in range(rng.randint(4, 6))))
        validator = SequentialPlanValidator(environment=problem.environment)
        edited = False
        lplans = long_plans(gen, insts, sim, lrng)
        stats["long_plans"] = stats.get("long_plans", 0) + len(lplans)
        plans_round2 = []
        if hp is None and len(plans) > 4:
            plans_round2 = plans[:1] + rng.sample(plans[1:], min(6, len(plans) - 1))
        for plan in plans + lplans + [None] + plans_round2:
            if plan is None:
                # --- history: EDIT the problem object (one initial value) and validate again with the SAME validator
                # instance; the answers must be those for the edited problem, not for the one validated before
                cands = [(f, a) for (f, a), v in zip(ser.gfluents, s0) if v is not None and not f.type.is_user_type()]
                if not cands or not plans_round2:
                    break
                f, a = rng.choice(cands)
                old_v = s0[ser.gfluents.index((f, a))]
                if f.type.is_bool_type():
                    new_v = not old_v
                else:
                    lo, hi = f.type.lower_bound, f.type.upper_bound
                    new_v = old_v + 1 if (hi is None or old_v + 1 <= hi) else old_v - 1
                    if lo is not None and new_v < lo:
                        break
                    if f.type.is_int_type():
                        new_v = int(new_v)
                try:
                    problem.set_initial_value(ser.fexp(f, a), new_v)
                    s0 = ser.read_state(UPSequentialSimulator(problem).get_initial_state())
                except Exception:  # noqa  (e.g. the edited initial state violates an invariant: not a usable edit)
                    break
                edited = True
                # remembered for the diagnosis (replay_plan): the problem object stays edited after this loop, so a
                # failing plan validated BEFORE the edit must be replayed with the original initial value
                old_set = int(old_v) if f.type.is_int_type() else old_v
                gen._c03_edit = (ser.fexp(f, a), old_set, new_v)
                stats["edited_problems"] = stats.get("edited_problems", 0) + 1
                pi = 100000 + pi
                pre.append("Definition P%d : problem := %s.\nDefinition M%d : metric := %s." % (pi, ser.render(), pi, ser.render_metric(metric)))
                continue
            ais = [ActionInstance(insts[j][0], insts[j][1]) for j in plan]
            rec = {"problem": pi, "plan": [(insts[j][0].name, [str(x) for x in insts[j][1]]) for j in plan], "raised": None,
                   "after_edit_same_validator": edited}
            stats["plans_after_edit"] = stats.get("plans_after_edit", 0) + edited
            try:
                res = validator.validate(problem, SequentialPlan(ais, problem.environment))
                valid = res.status == ValidationResultStatus.VALID
                mv = None
                if valid and res.metric_evaluations:
                    mv = Fraction(list(res.metric_evaluations.values())[0])
                rec["valid"], rec["metric"] = valid, mv
            except Exception as e:  # noqa
                rec["valid"], rec["metric"] = None, None
                rec["raised"] = type(e).__name__ + ":" + str(e)[:100]
                stats["raised"] += 1
            stats["plans"] += 1
            stats["empty_plans"] += len(plan) == 0
            stats["valid"] += bool(rec["valid"])
            stats["invalid"] += rec["valid"] is False
            stats["valid_with_metric"] += rec["metric"] is not None
            n = ser.names
            gplan = glist([gpair(gn(n.act(insts[j][0])), glist([ser_value(sx.arg_value(x), n) for x in insts[j][1]])) for j in plan])
            islong = len(plan) >= min(LONG_LENS)
            (lcases if islong else cases).append("(P%d, M%d, {| c_init := %s; c_plan := %s; c_valid := %s; c_metric := %s |})" % (
                pi, pi, ser.ser_state(s0), gplan, gbool(bool(rec["valid"])), gopt(None if rec["metric"] is None else gqc(rec["metric"]))))
            (lowners if islong else owners).append((gen, ser, rec, s0, metric, pi, [insts[j] for j in plan]))
            stats["long_valid"] = stats.get("long_valid", 0) + (islong and bool(rec["valid"]))
            if rec["valid"] or len(plan) >= 2:
                nontrivial.add(json.dumps(rec, default=str, sort_keys=True))
    codes = ctx.coq_codes(cases, "fun t => code (fst (fst t)) (snd (fst t)) (snd t)", imports=IMPORTS, preamble="\n".join(pre) + "\n",
                          shard=250, label="plans")
    if lcases:
        codes = list(codes) + list(ctx.coq_codes(lcases, "fun t => code_long (fst (fst t)) (snd (fst t)) (snd t)", imports=IMPORTS,
                                                 preamble="\n".join(pre) + "\n" + CODE_LONG, shard=250, label="longplans"))
        cases, owners = cases + lcases, owners + lowners
    preamble_all = "\n".join(pre) + "\n"
    failing = []
    for k, ((gen, ser, rec, s0, metric, pi, iplan), code) in enumerate(zip(owners, codes)):
        if code & 1 and not rec["raised"] and len(failing) < 5000:
            failing.append((k, pi, gen, ser, iplan))
    diag = diagnose_all(ctx, failing, preamble_all) if failing else {}
    for k, ((gen, ser, rec, s0, metric, pi, iplan), code) in enumerate(zip(owners, codes)):
        if rec["raised"]:
            ctx.fail("oracle", "validate raised %s" % rec["raised"], ["c03", "raises", rec["raised"].split(":")[0]],
                     {"case": rec, "problem_text": str(gen.problem)}, True)
        elif code & 1:
            tags = ["c03", "impl-valid" if rec["valid"] else "impl-invalid"] + diag.get(k, ["undiagnosed"])
            ctx.fail("oracle", "validator verdict/metric differs from the documented semantics (code %d)" % code, tags,
                     {"case": rec, "initial_state": ser.json_state(s0), "problem_text": str(gen.problem), "code_bits": code}, True)
        elif code & 2:
            ctx.fail("corr", "validator differs from the model only (corr:C03:seq_validate)", ["c03", "model-drift"],
                     {"case": rec, "initial_state": ser.json_state(s0), "problem_text": str(gen.problem), "code_bits": code}, False)
    if not ok_proofs:
        ctx.proof_broken()
    ctx.finish({
        "evaluations": len(cases),
        "distinct_nontrivial": len(nontrivial),
        "rule": "generated problems with 0/1 quality metric; all plans of length <= tier bound over ground instances (capped by random sampling), the empty plan, 3 random longer plans, LONG plans (prefixes of lengths 19..23 / 40..44 of scripted set-reset plans and of one random applicable walk per problem); non-trivial = VALID or length >= 2; distinct by (problem, plan)",
        "samples": [o[2] for o in owners[:3]],
        "distribution": stats,
        "traces_validated_against_impl": len(cases),
    }, "proof", assumptions=["initial state satisfies invariants and bounded types (else the problem is skipped and counted)"])
