"""Layer A of C06 / C07, DisjunctiveConditionsRemover with a DISJUNCTIVE GOAL (fake goal fluent + goal actions):
structural correspondence between the Gallina model (coq/theories/Compilers/LayerA_DcrGoal.v: dcrg_compile / dcrg_back,
proved sound and complete with bound k + 1 in Proofs/LayerA_DcrGoal_proofs.v; theorems C06_LA_dcrgoal_* /
C07_LA_dcrgoal_complete of Props/C06_pipe.v / C07_pipe.v) and the REAL compiler.

Cases: every compcheck.Case of "disjunctive-conditions-remover" whose goals' DNF is an Or (exactly the cases
harness/layera.py skips with "disjunctive goal (auxiliary goal action)"), plus a fixed family of problems built here
through the real API and compiled with the real DisjunctiveConditionsRemover (the generator yields only a few such
goals per run).  The original problem and the real output are serialised with ONE name table; the external behaviour
of the model is read off the real run exactly like layera.dnf_tables does: disjunct lists of the Dnf walker for effect
conditions, action preconditions and the goals (harness/props/c37.py: pre_disjuncts / cond_disjuncts), the fresh names
(k-th real variant of an action / k-th real goal action), the fake fluent (the compiled fluent the original lacks).
Coq (Corr/Corr_LayerA_dcrgoal.v) evaluates the model and compares: fluents in order (fake fluent appended), its default
(False), goal, state invariants, the WHOLE action list name by name and in order with effects in order (the appended
fk := false) and preconditions as sets, the goal actions, the map back (None for goal actions).  It also evaluates the
decidable hypotheses of the theorems (unique names, dcrg_fresh) on the real instance (coverage).
A mismatch is model drift (property_fails=False).  Evidence keys are prefixed layerA_dcrgoal_.
"""
from harness.core import gn, glist, gpair, gopt, gbool
from harness.ser import ser_expr
from harness import compcheck as cc
from harness import layera

COMPILER = "disjunctive-conditions-remover"
IMPORTS = ["UPV.Core.Expr", "UPV.Core.Eval", "UPV.Core.Interp", "UPV.Planning.Problem", "UPV.Planning.Sem",
           "UPV.Compilers.Variants", "UPV.Compilers.LayerA_Defs", "UPV.Compilers.LayerA_Quant",
           "UPV.Compilers.LayerA_Variants", "UPV.Compilers.LayerA_Pipe", "UPV.Compilers.LayerA_DcrGoal",
           "UPV.Corr.Corr_LayerA", "UPV.Corr.Corr_LayerA_dcrgoal"]
BITS = ((1, "variants"), (2, "goal"), (4, "state invariants"), (8, "fluents"), (16, "map-back"), (32, "goal actions"),
        (64, "action list (names / order)"), (128, "fake fluent default"))


def goal_is_disjunctive(p):
    from unified_planning.model.walkers import Dnf
    env = p.environment
    return Dnf(env).get_dnf_expression(env.expression_manager.And(p.goals)).is_or()


# ------------------------------------------------------------------------------------------ extra problems
class _Gen:
    def __init__(self, problem, label):
        self.problem = problem
        self.label = label


class XCase:
    """the attributes of compcheck.Case this module (and compcheck.case_json) reads"""

    def __init__(self, k, problem, label):
        from unified_planning.engines.compilers import DisjunctiveConditionsRemover
        from unified_planning.engines import CompilationKind
        self.idx = -1 - k
        self.spec = {"id": COMPILER, "members": [COMPILER]}
        self.gen = _Gen(problem, label)
        self.problem = problem
        self.live = True
        self.comp = None
        self.back = None
        self.result = DisjunctiveConditionsRemover().compile(problem, CompilationKind.DISJUNCTIVE_CONDITIONS_REMOVING)


def extra_problems(rng):
    """problems with a disjunctive goal, built through the real API: 2-4 goal disjuncts, a product of two disjunctions,
    a disjunct that simplifies to FALSE / contains TRUE, numeric and object-typed atoms, quantified disjunct, disjunctive
    preconditions and conditional effects with disjunctive conditions next to the disjunctive goal"""
    from unified_planning.shortcuts import (Problem, Fluent, InstantaneousAction, UserType, Object, BoolType, IntType,
                                            Or, And, Not, GT, LT, Equals, Exists, Variable, Implies, Plus, Always, Iff)
    out = []

    def base(name, n_bool=4):
        p = Problem(name)
        fs = [Fluent("b%d" % i, BoolType()) for i in range(n_bool)]
        for f in fs:
            p.add_fluent(f, default_initial_value=False)
        x = Fluent("x", IntType(0, 5))
        p.add_fluent(x, default_initial_value=0)
        for i, f in enumerate(fs):
            a = InstantaneousAction("set%d" % i)
            a.add_effect(f, True)
            p.add_action(a)
        inc = InstantaneousAction("inc")
        inc.add_precondition(LT(x, 5))
        inc.add_increase_effect(x, 1)
        p.add_action(inc)
        return p, fs, x

    p, (a, b, c, d), x = base("two")
    p.add_goal(Or(a, b))
    out.append((p, "xg:two-disjuncts"))

    p, (a, b, c, d), x = base("product")
    p.add_goal(Or(a, b))
    p.add_goal(Or(c, GT(x, 1)))
    out.append((p, "xg:product-of-two-disjunctions"))

    p, (a, b, c, d), x = base("three")
    p.add_goal(Or(And(a, Not(b)), And(c, d), Equals(x, 2)))
    p.add_goal(d)
    out.append((p, "xg:three-disjuncts-and-a-conjunct"))

    p, (a, b, c, d), x = base("falsedisj")
    p.add_goal(And(Or(a, b), Or(Not(a), c)))          # the product contains a and not a
    out.append((p, "xg:contradictory-disjunct"))

    p, (a, b, c, d), x = base("implies")
    p.add_goal(Implies(a, And(b, c)))
    p.add_goal(Iff(c, d))
    out.append((p, "xg:implies-iff"))

    # disjunctive preconditions and conditional effects next to the disjunctive goal
    p, (a, b, c, d), x = base("mixed")
    act = InstantaneousAction("mix")
    act.add_precondition(Or(a, And(b, Not(c))))
    act.add_effect(d, True, Or(a, c))
    act.add_effect(c, False)
    p.add_action(act)
    p.add_goal(Or(d, And(a, b)))
    out.append((p, "xg:disjunctive-pre-and-effect-condition"))

    # objects, a parameterised action, a quantified disjunct
    T = UserType("T")
    p = Problem("objs")
    at = Fluent("at", BoolType(), o=T)
    done = Fluent("done", BoolType())
    p.add_fluent(at, default_initial_value=False)
    p.add_fluent(done, default_initial_value=False)
    o1, o2 = Object("o1", T), Object("o2", T)
    p.add_objects([o1, o2])
    mv = InstantaneousAction("mark", o=T)
    mv.add_precondition(Or(Not(at(mv.parameter("o"))), done))
    mv.add_effect(at(mv.parameter("o")), True)
    p.add_action(mv)
    fin = InstantaneousAction("finish")
    fin.add_effect(done, True)
    p.add_action(fin)
    v = Variable("v", T)
    p.add_goal(Or(at(o1), And(at(o2), done), Exists(And(at(v), done), v)))
    out.append((p, "xg:objects-and-quantified-disjunct"))

    # randomised: k disjuncts over random literals
    for r in range(3):
        p, fs, x = base("rnd%d" % r)
        atoms = list(fs) + [GT(x, rng.randrange(0, 4)), Equals(x, rng.randrange(0, 5))]
        k = rng.randrange(2, 5)
        ds = []
        for _ in range(k):
            lits = rng.sample(atoms, rng.randrange(1, 3))
            lits = [Not(l) if rng.random() < 0.3 else l for l in lits]
            ds.append(And(lits) if len(lits) > 1 else lits[0])
        p.add_goal(Or(ds))
        if rng.random() < 0.5:
            p.add_goal(rng.choice(fs))
        out.append((p, "xg:random-%d-disjuncts" % k))
    return out


# ------------------------------------------------------------------------------------------ rendering
def tables(c, names):
    """(cdnf, pdnf, gds) read off the real Dnf walker, as layera.dnf_tables; gds = the goal actions' preconditions"""
    from harness.props.c37 import pre_disjuncts, cond_disjuncts
    p = c.problem
    env = p.environment
    cd = {}
    pd = []
    for a in p.actions:
        ds = pre_disjuncts(env, a.preconditions)
        pd.append(gpair(gn(names.act(a)), glist([glist([ser_expr(x, names) for x in d]) for d in ds])))
        for e in a.effects:
            if e.is_conditional():
                cd[e.condition] = cond_disjuncts(env, e.condition)
    gds = pre_disjuncts(env, p.goals)        # same code path: _create_new_action_with_given_precond on every disjunct
    return (glist([gpair(ser_expr(k, names), glist([ser_expr(x, names) for x in v])) for k, v in cd.items()]),
            glist(pd), glist([glist([ser_expr(x, names) for x in d]) for d in gds]))


def render_case(c, k):
    layera.in_fragment(c.problem)
    layera.in_fragment(c.result.problem)
    p, q = c.problem, c.result.problem
    mb = c.result.map_back_action_instance
    m = getattr(mb, "keywords", {}).get("map") if hasattr(mb, "keywords") else None
    if not isinstance(m, dict):
        raise layera.Outside("no new_to_old dictionary")
    old = set(f.name for f in p.fluents)
    new = [f for f in q.fluents if f.name not in old]
    if len(new) != 1:
        raise layera.Outside("%d new fluents" % len(new))
    fake = new[0]
    names = layera.LANames()
    orig = layera.ser_side(p, names, false_invs=False)
    comp = layera.ser_side(q, names, false_invs=False)
    rows = {}
    for na, oa in m.items():
        rows[na.name] = None if oa is None else oa.name
    back = glist([gpair(gn(names.act(a)),
                        gopt(None if rows.get(a.name) is None else gn(names._id("act", rows[a.name], rows[a.name]))))
                  for a in q.actions if a.name in rows])
    dv = q.fluents_defaults.get(fake)
    dflt = gopt(gbool(dv.bool_constant_value()) if dv is not None and dv.is_bool_constant() else None)
    cdnf, pdnf, gds = tables(c, names)
    defs = "Definition DO%d : problem := %s.\nDefinition DC%d : problem := %s.\n" % (k, orig, k, comp)
    term = ("{| dg_orig := DO%d; dg_comp := DC%d; dg_back := %s; dg_cdnf := %s; dg_pdnf := %s; dg_gds := %s; "
            "dg_fk := %s; dg_fk_default := %s |}" % (k, k, back, cdnf, pdnf, gds, gn(names.fl(fake)), dflt))
    return defs, term


def run(ctx, cases, validator_failed=(), shard=20, label="layera_dcrgoal"):
    picked = [c for c in cases if c.spec["id"] == COMPILER and c.live and c.result is not None
              and c.result.problem is not None]
    generated = 0
    todo = []
    for c in picked:
        try:
            if goal_is_disjunctive(c.problem):
                todo.append(c)
                generated += 1
        except Exception:  # noqa
            pass
    extra_errors = {}
    for k, (p, lab) in enumerate(extra_problems(ctx.rng)):
        try:
            todo.append(XCase(k, p, lab))
        except Exception as e:  # noqa  (the real compiler raised: not this module's business, C06/C08 see it)
            extra_errors[lab] = "%s: %s" % (type(e).__name__, str(e)[:80])
    rendered, skipped = [], {}
    for c in todo:
        try:
            defs, term = render_case(c, len(rendered))
            rendered.append((c, defs, term))
        except layera.Outside as e:
            skipped[str(e)] = skipped.get(str(e), 0) + 1
        except ValueError as e:       # expression outside the IR
            skipped["ir:" + str(e)[:40]] = skipped.get("ir:" + str(e)[:40], 0) + 1
    shards = [rendered[i:i + shard] for i in range(0, len(rendered), shard)]

    def one(arg):
        si, sh = arg
        body = "".join(d for _, d, _ in sh)
        body += "Eval vm_compute in [ %s ].\n" % "\n ; ".join("dg_report %s" % t for _, _, t in sh)
        out = ctx.coq_run(body, IMPORTS, name="%s_%d" % (label, si), timeout=900)
        return sh, cc.parse_reports(out, len(sh))

    from concurrent.futures import ThreadPoolExecutor
    with ThreadPoolExecutor(max_workers=2) as ex:
        results = list(ex.map(one, list(enumerate(shards))))
    mism = []
    hyps_all = fresh_ok = uniq_ok = 0
    disjuncts = {}
    outside = []
    for sh, reps in results:
        for (c, _, _), r in zip(sh, reps):
            code, hyps, ngd = r[0], r[1], r[2]
            disjuncts[ngd] = disjuncts.get(ngd, 0) + 1
            hyps_all += hyps == 7
            fresh_ok += (hyps & 4) == 4
            uniq_ok += (hyps & 3) == 3
            if hyps != 7:
                outside.append({"label": getattr(c.gen, "label", "generated"), "unique_ids_original": bool(hyps & 1),
                                "unique_ids_compiled": bool(hyps & 2), "dcrg_fresh": bool(hyps & 4)})
            if code != 0:
                what = [n for b, n in BITS if code & b]
                mism.append({"compiler": COMPILER, "label": getattr(c.gen, "label", "generated"), "differs_in": what,
                             "code": code, "validator_found_counterexample": c.idx in validator_failed})
                ctx.fail("corr",
                         "Layer A: the Gallina model of %s with a disjunctive goal (fake goal fluent, goal actions) and "
                         "the real compiler disagree on %s (model drift: the for-all-problems theorems no longer "
                         "describe the code)" % (COMPILER, ", ".join(what)),
                         ["layerA", COMPILER, "model-differs", "disjunctive-goal"] + ["differs:" + w for w in what],
                         dict(cc.case_json(c), compiled_problem=str(c.result.problem), layerA_code=code, differs_in=what,
                              coq_oracle="UPV.Corr.Corr_LayerA_dcrgoal.dg_code"),
                         False)
    return {
        "layerA_dcrgoal_cases": len(rendered),
        "layerA_dcrgoal_cases_from_the_generator": generated,
        "layerA_dcrgoal_cases_built_here": len(todo) - generated,
        "layerA_dcrgoal_mismatches": len(mism),
        "layerA_dcrgoal_mismatch_samples": mism[:5],
        "layerA_dcrgoal_goal_actions_per_case": dict(sorted(disjuncts.items())),
        "layerA_dcrgoal_cases_where_theorem_hypotheses_hold": hyps_all,
        "layerA_dcrgoal_cases_where_dcrg_fresh_holds": fresh_ok,
        "layerA_dcrgoal_cases_with_unique_names": uniq_ok,
        "layerA_dcrgoal_cases_outside_theorem_hypotheses": outside[:8],
        "layerA_dcrgoal_skipped_outside_fragment": skipped,
        "layerA_dcrgoal_extra_problems_the_compiler_raised_on": extra_errors,
    }
