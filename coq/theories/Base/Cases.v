(* Helpers used by the generated cases_*.v files: evaluate a boolean agreement function on every case and
   return the indices on which it is false.  Nothing here is property specific. *)
From Coq Require Import List NArith.
Import ListNotations.

Fixpoint failing_from {A : Type} (ok : A -> bool) (i : N) (cs : list A) : list N :=
  match cs with
  | [] => []
  | c :: cs' => if ok c then failing_from ok (N.succ i) cs' else i :: failing_from ok (N.succ i) cs'
  end.

Definition failing {A : Type} (ok : A -> bool) (cs : list A) : list N := failing_from ok 0%N cs.

Lemma failing_from_nil_all {A} (ok : A -> bool) cs i :
  failing_from ok i cs = [] -> forall c, In c cs -> ok c = true.
Proof.
  revert i; induction cs as [|c cs IH]; intros i H x Hx; [destruct Hx|].
  simpl in H. destruct (ok c) eqn:E; [|discriminate].
  destruct Hx as [->|Hx]; [exact E| eapply IH; eauto].
Qed.

Lemma failing_nil_all {A} (ok : A -> bool) cs :
  failing ok cs = [] -> forall c, In c cs -> ok c = true.
Proof. apply failing_from_nil_all. Qed.
