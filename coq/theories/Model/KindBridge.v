(* C09 part (ii) on the Layer A fragment — the bridge between the Layer A problem record (Planning/Problem.v: [problem])
   and the model of Problem.kind (Model/KindOf.v: [problem_desc], [kind_model]).  DEFINITIONS ONLY
   (proofs: Proofs/LayerA_Kind_proofs.v, statements: Props/C09_la.v).

   Two things:

   1. [desc_of ax P]: the embedding of a Layer A problem into C10's [problem_desc].  A Layer A problem is a sequential
      problem with instantaneous actions only (no events, processes, timed effects / goals, metrics, simulated effects,
      and the only trajectory constraints are the state invariants `Always(body)`).  What the Layer A record does not
      carry (parameter types, the father of a user type, int vs. real, the TypeChecker's class of an assigned value, the
      LinearChecker verdicts, the initial-value bookkeeping, the objects' types) is supplied by [ax : aux]; every
      theorem quantifies over ALL [ax], so nothing is assumed about it.

   2. [la_feats P]: a small kind function defined DIRECTLY on the Layer A record.  It mirrors
      unified_planning/model/problem.py : _KindFactory (update_problem_kind_fluent / _expression / _effect / _action and
      the trajectory-constraint / goal loops of Problem._kind_factory) for the 13 features [la_covered] that are
      determined by the Layer A record:
        NEGATIVE_CONDITIONS DISJUNCTIVE_CONDITIONS EQUALITIES EXISTENTIAL_CONDITIONS UNIVERSAL_CONDITIONS
        INTERPRETED_FUNCTIONS_IN_CONDITIONS CONDITIONAL_EFFECTS FORALL_EFFECTS INCREASE_EFFECTS DECREASE_EFFECTS
        STATE_INVARIANTS BOUNDED_TYPES OBJECT_FLUENTS.
      Proofs/LayerA_Kind_proofs.v : [bridge] proves   filter covered (kind_model (desc_of ax P)) = la_feats P   for every
      [ax] and [P] (list equality), so on the covered features [la_feats] IS KindOf's [kind_model] on the shared
      fragment.  The remaining features (typing, parameter types, INT/REAL_FLUENTS, SIMPLE/GENERAL_NUMERIC_PLANNING,
      fluents / interpreted functions in assignments, undefined initial values, ACTION_BASED) depend on [ax]; they are
      outside the statements of Props/C09_la.v (the validation in harness/props/c09.py covers them). *)
From Coq Require Import List ZArith NArith QArith Qcanon Bool.
Import ListNotations.
Require Import UPV.Core.Expr UPV.Model.Kind UPV.Gen.Gen_Kind.
Require Import UPV.Model.KindOf.
Require Import UPV.Core.Eval UPV.Core.Interp UPV.Planning.Problem.
(* from here on the unqualified record / field names are those of Planning/Problem.v; KindOf's are written KindOf.x *)

(* ------------------------------------------------------------------ 2. the kind function on the Layer A record *)
Definition la_covered : list feature :=
  [ f_NEGATIVE_CONDITIONS; f_DISJUNCTIVE_CONDITIONS; f_EQUALITIES; f_EXISTENTIAL_CONDITIONS; f_UNIVERSAL_CONDITIONS;
    f_INTERPRETED_FUNCTIONS_IN_CONDITIONS; f_CONDITIONAL_EFFECTS; f_FORALL_EFFECTS; f_INCREASE_EFFECTS;
    f_DECREASE_EFFECTS; f_STATE_INVARIANTS; f_BOUNDED_TYPES; f_OBJECT_FLUENTS ].
Definition covered (f : feature) : bool := memN f la_covered.

Definition cexp (e : expr) : cexpr := {| ce := e; ce_lin := true |}.

(* _KindFactory.update_problem_kind_expression (the features it sets; it reads the operators of the expression only) *)
Definition cond_feats (e : expr) : list feature := M.expr_feats (cexp e).

Definition osome {A} (o : option A) : bool := match o with Some _ => true | None => false end.

(* update_problem_kind_fluent, covered part: numeric bounds, object fluents *)
Definition fl_feats (fd : fdecl) : list feature :=
  match fd_ty fd with
  | FNum lo hi => clause f_BOUNDED_TYPES (osome lo || osome hi)
  | FObj _ => [f_OBJECT_FLUENTS]
  | FBool => []
  end.

(* update_problem_kind_effect, covered part *)
Definition eff_feats (e : effect) : list feature :=
  (if negb (is_true (e_cond e)) then cond_feats (e_cond e) ++ [f_CONDITIONAL_EFFECTS] else [])
  ++ (if nonempty (e_vars e) then [f_FORALL_EFFECTS] else [])
  ++ match e_kind e with KInc => [f_INCREASE_EFFECTS] | KDec => [f_DECREASE_EFFECTS] | KAssign => [] end.

(* update_problem_kind_action (InstantaneousAction), covered part *)
Definition act_feats (a : action) : list feature :=
  flat_map cond_feats (a_pre a) ++ flat_map eff_feats (a_effs a).

(* Problem._kind_factory: fluents, actions, trajectory constraints (each state invariant is `Always(body)`), goals *)
Definition la_feats (P : problem) : list feature :=
  flat_map fl_feats (p_fluents P)
  ++ flat_map (fun ia => act_feats (snd ia)) (p_actions P)
  ++ flat_map (fun i => f_STATE_INVARIANTS :: cond_feats i) (p_invs P)
  ++ flat_map cond_feats (p_goals P).

(* every condition of the problem (the condition of an unconditional effect is the constant TRUE, which has no
   feature) *)
Definition la_conds (P : problem) : list expr :=
  flat_map (fun ia => a_pre (snd ia) ++ map e_cond (a_effs (snd ia))) (p_actions P) ++ p_invs P ++ p_goals P.
Definition la_effs (P : problem) : list effect := flat_map (fun ia => a_effs (snd ia)) (p_actions P).

(* the operators update_problem_kind_expression looks for, and the feature each one sets *)
Definition rel_ops : list N := [op_IFUN; op_OR; op_NOT; op_IMPLIES; op_EXISTS; op_FORALL; op_EQUALS].
Definition rel (o : N) : bool := memN o rel_ops.
Definition op_feature (o : N) : feature :=
  if (o =? op_NOT)%N then f_NEGATIVE_CONDITIONS
  else if (o =? op_OR)%N || (o =? op_IMPLIES)%N then f_DISJUNCTIVE_CONDITIONS
  else if (o =? op_EQUALS)%N then f_EQUALITIES
  else if (o =? op_EXISTS)%N then f_EXISTENTIAL_CONDITIONS
  else if (o =? op_FORALL)%N then f_UNIVERSAL_CONDITIONS
  else f_INTERPRETED_FUNCTIONS_IN_CONDITIONS.

(* ------------------------------------------------------------------ 1. the embedding into C10's description *)
Record aux := {
  ax_father : N -> bool;                (* user type t has a father *)
  ax_isint : N -> bool;                 (* the numeric fluent f is an int fluent (otherwise real) *)
  ax_par : N -> KindOf.ty;              (* type of the action parameter with this id *)
  ax_lin : expr -> bool;                (* LinearChecker verdict on a condition *)
  ax_vcls : effect -> vclass;           (* TypeChecker class of the assigned value *)
  ax_rhs : effect -> list expr;
  ax_objtys : list KindOf.ty;           (* the type of every object *)
  ax_default : N -> bool;               (* fluent f has a default initial value *)
  ax_inits : N -> N; ax_size : N -> N; ax_missing : N -> N
}.

Section Embed.
  Variable ax : aux.

  Definition uty (t : N) : KindOf.ty := TUser t (ax_father ax t).
  Definition ty_of (f : N) (t : ftype) : KindOf.ty :=
    match t with
    | FBool => TBool
    | FNum lo hi => if ax_isint ax f then TInt (osome lo) (osome hi) else TReal (osome lo) (osome hi)
    | FObj u => uty u
    end.
  Definition cexp_ax (e : expr) : cexpr := {| ce := e; ce_lin := ax_lin ax e |}.

  Definition fd_of (fd : fdecl) : KindOf.fdecl :=
    {| KindOf.fd_id := fd_id fd; KindOf.fd_ty := ty_of (fd_id fd) (fd_ty fd); KindOf.fd_sig := map uty (fd_sig fd);
       fd_default := ax_default ax (fd_id fd); fd_inits := ax_inits ax (fd_id fd); fd_size := ax_size ax (fd_id fd);
       fd_missing := ax_missing ax (fd_id fd) |}.

  Definition kind_of_ekind (k : ekind) : KindOf.ekind :=
    match k with KAssign => KindOf.KAssign | KInc => KindOf.KInc | KDec => KindOf.KDec end.

  Definition eff_of (tcls : N -> vclass) (e : effect) : eff :=
    {| ef_fl := e_fl e; ef_args := e_args e; ef_val := e_val e; ef_vcls := ax_vcls ax e; ef_tcls := tcls (e_fl e);
       ef_cond := cexp_ax (e_cond e); ef_kind := kind_of_ekind (e_kind e);
       ef_forall := map (fun v => (fst v, uty (snd v))) (e_vars e); ef_rhs := ax_rhs ax e |}.

  Definition act_of (tcls : N -> vclass) (a : action) : KindOf.action :=
    AInst {| ia_params := map (ax_par ax) (a_params a); ia_pre := map cexp_ax (a_pre a);
             ia_effs := map (eff_of tcls) (a_effs a); ia_sim := None; ia_sensing := false; ia_motion := false |}.

  (* class of the declared type of a fluent (CBool when undeclared: the Layer A record only knows e_isbool) *)
  Definition tcls_of (P : problem) (f : N) : vclass :=
    match find (fun fd => (fd_id fd =? f)%N) (p_fluents P) with
    | Some fd => class_of (ty_of f (fd_ty fd))
    | None => CBool
    end.

  Definition desc_of (P : problem) : problem_desc :=
    {| KindOf.p_fluents := map fd_of (p_fluents P);
       p_objtys := ax_objtys ax;
       KindOf.p_actions := map (fun ia => act_of (tcls_of P) (snd ia)) (p_actions P);
       p_events := []; p_processes := []; p_teffs := []; p_tgoals := [];
       KindOf.p_goals := map cexp_ax (p_goals P);
       p_traj := map (fun i => cexp_ax (EAlways i)) (p_invs P);
       p_metrics := []; p_discrete := false; p_selfoverlap := false |}.

  (* Problem.kind of the embedded problem *)
  Definition la_kind (P : problem) : list feature := kind_model (desc_of P).
End Embed.

(* ------------------------------------------------------------------ declared kinds *)
(* "the kind [k] contains every covered feature of [P]" (what `P.kind <= k` says on the covered features) *)
Definition la_within (P : problem) (k : fset) : Prop := forall f, In f (la_feats P) -> mem f k = true.

(* ------------------------------------------------------------------ hypotheses on the external walkers *)
(* The Simplifier (FNode.simplify, check_and_simplify_preconditions) is external behaviour in the Layer A models (a
   Section variable).  For the kind only the operators of its result matter. *)
(* [smp] does not introduce the operator [o]: an operator of the result already occurs in the argument *)
Definition keeps_op (smp : expr -> expr) (o : N) : Prop := forall e, In o (ops_of (smp e)) -> In o (ops_of e).

(* the relevant operators other than Not.  unified_planning/model/walkers/simplifier.py builds an Or only in walk_or,
   an Implies only in walk_implies, Equals only in walk_equals, Exists / Forall only in walk_exists / walk_forall, each
   from a node of the same type, and never builds an interpreted-function application that is not in the argument;
   but it DOES build Not from Implies(a, false) and Iff(a, false) (walk_implies, walk_iff): Not is not in this list. *)
Definition six_ops : list N := [op_IFUN; op_OR; op_IMPLIES; op_EXISTS; op_FORALL; op_EQUALS].
Definition smp_ok (smp : expr -> expr) : Prop := forall o, In o six_ops -> keeps_op smp o.

(* check_and_simplify_preconditions (And(preconditions).simplify() split into conjuncts) does not introduce [o] *)
Definition simp_pre_keeps (simp_pre : list expr -> option (list expr)) (o : N) : Prop :=
  forall l l' c', simp_pre l = Some l' -> In c' l' -> In o (ops_of c') -> exists c, In c l /\ In o (ops_of c).

(* ---- DisjunctiveConditionsRemover: the DNF tables are external (Dnf walker + simplify; C12) *)
(* hypotheses on the DNF tables the model takes from the real walker (Dnf + simplify): the operator [o] occurs in a
   disjunct's literal only if it occurs in the expression the DNF was computed from *)
Record dnf_keeps (cdnf : expr -> list expr) (pre_dnf : action -> list (list expr)) (goals' : list expr) (P : problem)
       (o : N) : Prop := {
  dk_cond : forall c d, In d (cdnf c) -> In o (ops_of d) -> In o (ops_of c);
  dk_pre : forall a d l, In d (pre_dnf a) -> In l d -> In o (ops_of l) -> exists c, In c (a_pre a) /\ In o (ops_of c);
  dk_goal : forall g', In g' goals' -> In o (ops_of g') -> exists g, In g (p_goals P) /\ In o (ops_of g)
}.
(* the literals of a DNF contain no Or / Implies *)
Record dnf_nodisj (cdnf : expr -> list expr) (pre_dnf : action -> list (list expr)) (goals' : list expr) (P : problem)
       (o : N) : Prop := {
  dn_cond : forall c d, In d (cdnf c) -> ~ In o (ops_of d);
  dn_pre : forall a d l, In (fst a, snd a) (p_actions P) -> In d (pre_dnf (snd a)) -> In l d -> ~ In o (ops_of l);
  dn_goal : forall g', In g' goals' -> ~ In o (ops_of g')
}.
Definition dcr_ops : list N := [op_IFUN; op_EXISTS; op_FORALL; op_EQUALS].


(* ---- NegativeConditionsRemover: the rewriting of a condition is external (Nnf: C12, Simplifier: C11, walk_not) *)
(* hypothesis on the external rewriting of ONE condition (NegativeFluentRemover.remove_negative_fluents = Nnf + simplify
   + walk_not): the result has no negation, and every other condition feature of the result is a feature of the
   argument, except that a disjunction may appear when the argument has both a negation and an equality
   (not (a = b) |-> a < b or b < a) *)
Definition rw_feats_ok (rw : expr -> expr) (c : expr) : Prop :=
  forall f, In f (cond_feats (rw c)) ->
    f <> f_NEGATIVE_CONDITIONS /\
    (In f (cond_feats c) \/
     (f = f_DISJUNCTIVE_CONDITIONS /\ In f_EQUALITIES (cond_feats c) /\ In f_NEGATIVE_CONDITIONS (cond_feats c))).

