(* Executable model of the value-storing entry points of unified-planning (C23).
   Mirrors (code as of the repaired tree, see notes/C23.md):
     unified_planning/model/types.py                  is_compatible_type                     -> [compatible]
     unified_planning/model/mixins/fluents_set.py     FluentsSetMixin.__init__ (initial_defaults), _default_value_exp,
                                                      add_fluent (default_initial_value / per-type default) -> [mk_problem], [add_fluent]
     unified_planning/model/mixins/initial_state.py   InitialStateMixin.set_initial_value     -> [set_initial_value]
     unified_planning/model/transition.py             UntimedEffectMixin.add_effect / add_increase_effect / add_decrease_effect
     unified_planning/model/mixins/timed_conds_effs.py TimedCondsEffs.add_effect / add_increase_effect / add_decrease_effect
     unified_planning/model/problem.py                Problem.add_timed_effect / add_increase_effect / add_decrease_effect -> [add_effect]
     unified_planning/plans/plan.py                   ActionInstance.__init__                 -> [action_instance]
   Every entry point first auto-promotes its arguments (may raise), then checks, then stores; the model returns the
   store the call LEAVES together with a flag "raised", so "a rejected call changes nothing" is a theorem. *)
From Coq Require Import List ZArith NArith QArith Bool.
Import ListNotations.

(* ---- types (unified_planning.model.types): Bool, Int[lo,hi], Real[lo,hi] with optional bounds, user types *)
Inductive ty :=
| TBool
| TInt (lo hi : option Z)
| TReal (lo hi : option Q)
| TUser (u : N).

(* the user-type hierarchy: type -> father (None for a root); _UserType.ancestors walks it upwards *)
Definition hier := list (N * option N).

Fixpoint father_of (h : hier) (u : N) : option N :=
  match h with
  | [] => None
  | (v, f) :: h' => if (u =? v)%N then f else father_of h' u
  end.

(* `a in b.ancestors` (ancestors starts with b itself); fuel = number of declared types + 1 *)
Fixpoint in_ancestors (h : hier) (fuel : nat) (a b : N) : bool :=
  if (a =? b)%N then true
  else match fuel with
       | O => false
       | S fuel' => match father_of h b with Some f => in_ancestors h fuel' a f | None => false end
       end.

Definition optZ_eqb (a b : option Z) : bool :=
  match a, b with Some x, Some y => (x =? y)%Z | None, None => true | _, _ => false end.
Definition optQ_eqb (a b : option Q) : bool :=
  match a, b with Some x, Some y => Qeq_bool x y | None, None => true | _, _ => false end.

(* Type.__eq__ : types are interned by the TypeManager, equality is equality of kind and bounds / of the user type *)
Definition ty_eqb (a b : ty) : bool :=
  match a, b with
  | TBool, TBool => true
  | TInt l1 u1, TInt l2 u2 => optZ_eqb l1 l2 && optZ_eqb u1 u2
  | TReal l1 u1, TReal l2 u2 => optQ_eqb l1 l2 && optQ_eqb u1 u2
  | TUser x, TUser y => (x =? y)%N
  | _, _ => false
  end.

Definition zq (o : option Z) : option Q := match o with Some z => Some (inject_Z z) | None => None end.

(* not (right_upper < left_lower or right_lower > left_upper), missing bounds being -inf / +inf *)
Definition le_opt (lo hi : option Q) : bool :=
  match lo, hi with Some l, Some u => Qle_bool l u | _, _ => true end.
Definition overlap (ll lu rl ru : option Q) : bool := le_opt ll ru && le_opt rl lu.

(* is_compatible_type(t_left, t_right) *)
Definition compatible (h : hier) (tl tr : ty) : bool :=
  if ty_eqb tl tr then true
  else match tl, tr with
       | TUser a, TUser b => in_ancestors h (S (length h)) a b
       | TInt l1 u1, TInt l2 u2 => overlap (zq l1) (zq u1) (zq l2) (zq u2)
       | TReal l1 u1, TReal l2 u2 => overlap l1 u1 l2 u2
       | TReal l1 u1, TInt l2 u2 => overlap l1 u1 (zq l2) (zq u2)
       | _, _ => false
       end.

Definition is_numeric (t : ty) : bool := match t with TInt _ _ | TReal _ _ => true | _ => false end.

(* ---- values handed to the API *)
Inductive val :=
| VBool (b : bool)                 (* True / False *)
| VInt (z : Z)                     (* an int: the constant Int(z), of type int[z, z] *)
| VReal (q : Q)                    (* a Fraction / float: the constant Real(q), of type real[q, q] *)
| VObj (o : N) (u : N)             (* an Object o of user type u *)
| VExpr (e : N) (t : ty)           (* any non-constant expression (fluent, parameter, arithmetic...) and its type *)
| VBad.                            (* something auto_promote cannot turn into an expression (it raises) *)

Definition promotable (v : val) : bool := match v with VBad => false | _ => true end.

Definition type_of (v : val) : ty :=
  match v with
  | VBool _ => TBool
  | VInt z => TInt (Some z) (Some z)
  | VReal q => TReal (Some q) (Some q)
  | VObj _ u => TUser u
  | VExpr _ t => t
  | VBad => TBool
  end.

(* FNode.is_constant *)
Definition is_constant (v : val) : bool :=
  match v with VBool _ | VInt _ | VReal _ | VObj _ _ => true | _ => false end.

(* ---- what the model under construction stores *)
Inductive site := SInst | SDur | SProb.          (* InstantaneousAction / DurativeAction / Problem timed effects *)
Inductive ekind := EAssign | EIncrease | EDecrease.

Record store := {
  type_defaults : list (ty * val);               (* _initial_defaults : Dict[Type, FNode] *)
  fluents : list (N * ty);                       (* _fluents (name, type) *)
  fluent_defaults : list (N * ty * val);         (* _fluents_defaults : Dict[Fluent, FNode]; the Fluent carries its type *)
  init_values : list (N * (ty * val));           (* _initial_value : Dict[fluent expression, FNode]; key -> (type of the fluent, value) *)
  effects : list (site * ekind * ty * val);      (* stored effects: container, kind, type of the fluent, value *)
  instances : list (list (ty * val))             (* ActionInstances: per parameter its type and the actual value *)
}.

(* _default_value_exp (fluents_set.py): promote, must be a constant, must be compatible *)
Definition default_ok (h : hier) (t : ty) (v : val) : bool :=
  promotable v && is_constant v && compatible h t (type_of v).

(* Problem(initial_defaults = ds): raises (no problem is built) unless every default passes *)
Definition mk_problem (h : hier) (ds : list (ty * val)) : option store :=
  if forallb (fun p => default_ok h (fst p) (snd p)) ds
  then Some {| type_defaults := ds; fluents := []; fluent_defaults := []; init_values := []; effects := [];
               instances := [] |}
  else None.

Fixpoint find_type_default (t : ty) (ds : list (ty * val)) : option val :=
  match ds with
  | [] => None
  | (k, v) :: ds' => if ty_eqb t k then Some v else find_type_default t ds'
  end.

Definition has_fluent (f : N) (s : store) : bool := existsb (fun p => (fst p =? f)%N) (fluents s).

(* dictionary assignment d[k] = x *)
Fixpoint upsert {A} (k : N) (x : A) (d : list (N * A)) : list (N * A) :=
  match d with
  | [] => [(k, x)]
  | (k', y) :: d' => if (k =? k')%N then (k, x) :: d' else (k', y) :: upsert k x d'
  end.

(* the calls *)
Inductive op :=
| OpAddFluent (f : N) (t : ty) (d : option val)
    (* problem.add_fluent(Fluent(f, t), default_initial_value = d) *)
| OpSetInit (key : N) (t : ty) (args_constant : bool) (v : val)
    (* problem.set_initial_value(fluent expression `key` of a fluent of type t, v) *)
| OpAddEffect (st : site) (k : ekind) (t : ty) (v : val) (cond_bool : bool) (timing_ok : bool) (conflict : bool)
    (* container.add_effect / add_increase_effect / add_decrease_effect (add_timed_effect for the Problem):
       cond_bool = the condition is Boolean; timing_ok = not an EndTiming on a Problem;
       conflict = check_conflicting_effects raises (C24, an input here) *)
| OpInstance (ps : list (ty * val)).
    (* ActionInstance(action with parameters of these types, these actual parameters) *)

(* FluentsSetMixin.add_fluent *)
Definition add_fluent (h : hier) (s : store) (f : N) (t : ty) (d : option val) : store * bool :=
  if has_fluent f s then (s, true)                              (* name already defined *)
  else match d with
       | Some v =>
           if default_ok h t v
           then ({| type_defaults := type_defaults s; fluents := fluents s ++ [(f, t)];
                    fluent_defaults := fluent_defaults s ++ [(f, t, v)];
                    init_values := init_values s; effects := effects s; instances := instances s |}, false)
           else (s, true)
       | None =>
           ({| type_defaults := type_defaults s; fluents := fluents s ++ [(f, t)];
               fluent_defaults := match find_type_default t (type_defaults s) with
                                  | Some v => fluent_defaults s ++ [(f, t, v)]
                                  | None => fluent_defaults s
                                  end;
               init_values := init_values s; effects := effects s; instances := instances s |}, false)
       end.

(* InitialStateMixin.set_initial_value *)
Definition set_initial_value (h : hier) (s : store) (key : N) (t : ty) (args_constant : bool) (v : val) : store * bool :=
  if negb (promotable v) then (s, true)
  else if negb args_constant then (s, true)
  else if negb (compatible h t (type_of v)) then (s, true)
  else if negb (is_constant v) then (s, true)
  else ({| type_defaults := type_defaults s; fluents := fluents s; fluent_defaults := fluent_defaults s;
           init_values := upsert key (t, v) (init_values s); effects := effects s; instances := instances s |}, false).

(* add_effect / add_increase_effect / add_decrease_effect of the three containers *)
Definition add_effect (h : hier) (s : store) (st : site) (k : ekind) (t : ty) (v : val)
    (cond_bool timing_ok conflict : bool) : store * bool :=
  if negb timing_ok then (s, true)
  else if negb (promotable v) then (s, true)
  else if negb cond_bool then (s, true)
  else if negb (compatible h t (type_of v)) then (s, true)
  else if (match k with EAssign => false | _ => negb (is_numeric t) end) then (s, true)
  else if conflict then (s, true)
  else ({| type_defaults := type_defaults s; fluents := fluents s; fluent_defaults := fluent_defaults s;
           init_values := init_values s; effects := effects s ++ [(st, k, t, v)]; instances := instances s |}, false).

(* ActionInstance.__init__: all parameters promoted first, then checked one by one *)
Definition param_ok (h : hier) (p : ty * val) : bool :=
  compatible h (fst p) (type_of (snd p)) && is_constant (snd p).

Definition action_instance (h : hier) (s : store) (ps : list (ty * val)) : store * bool :=
  if negb (forallb (fun p => promotable (snd p)) ps) then (s, true)
  else if negb (forallb (param_ok h) ps) then (s, true)
  else ({| type_defaults := type_defaults s; fluents := fluents s; fluent_defaults := fluent_defaults s;
           init_values := init_values s; effects := effects s; instances := instances s ++ [ps] |}, false).

Definition step (h : hier) (s : store) (o : op) : store * bool :=
  match o with
  | OpAddFluent f t d => add_fluent h s f t d
  | OpSetInit key t ac v => set_initial_value h s key t ac v
  | OpAddEffect st k t v cb tk cf => add_effect h s st k t v cb tk cf
  | OpInstance ps => action_instance h s ps
  end.

Fixpoint run (h : hier) (s : store) (ops : list op) : store :=
  match ops with
  | [] => s
  | o :: ops' => run h (fst (step h s o)) ops'
  end.

(* ---- the property: everything stored is type-compatible with its target, initial values are constants *)
Definition stored_ok (h : hier) (t : ty) (v : val) : bool := compatible h t (type_of v).
Definition stored_const_ok (h : hier) (t : ty) (v : val) : bool := compatible h t (type_of v) && is_constant v.

Definition well_typed (h : hier) (s : store) : Prop :=
  (forall t v, In (t, v) (type_defaults s) -> stored_const_ok h t v = true) /\
  (forall f t v, In (f, t, v) (fluent_defaults s) -> In (f, t) (fluents s) /\ stored_const_ok h t v = true) /\
  (forall k t v, In (k, (t, v)) (init_values s) -> stored_const_ok h t v = true) /\
  (forall st k t v, In (st, k, t, v) (effects s) -> stored_ok h t v = true) /\
  (forall ps t v, In ps (instances s) -> In (t, v) ps -> stored_const_ok h t v = true).
