(* Names chosen by the compilers (property C08).  Names are Coq strings (ASCII).

   Mirrors  unified_planning/engines/compilers/utils.py : get_fresh_name (with its optional `used_names`),
            the way the compilers USE it (a name is looked up against the names of ONE problem; the compilers that
            create several elements either add each element to that problem before asking for the next name, or — the
            grounder — pass the set of names already handed out),
            unified_planning/engines/compilers/grounder.py : GrounderHelper.ground_action /
            utils.create_action_with_given_subs (naming of ground actions: name + "_" + parameters joined by "_";
            an action without parameters keeps its name),
            unified_planning/engines/results.py : CompilerResult.__post_init__,
   and defines the decidable well-formedness checker [wf_np] applied to every compiled problem.
   Only definitions; proofs are in Proofs/FreshNames_proofs.v. *)
From Coq Require Import List String Ascii Bool Arith Decimal DecimalString.
Import ListNotations.
Open Scope string_scope.

Definition dec (n : nat) : string := NilEmpty.string_of_uint (Nat.to_uint n).
Definition mem (x : string) (l : list string) : bool := existsb (String.eqb x) l.

(* "_".join(name_list) *)
Definition join_us (l : list string) : string := String.concat "_" l.

(* the `while problem.has_name(new_name) or new_name in used_names` loop; [fuel] bounds the counter, None = out of
   fuel (excluded by the theorems; S (length used) iterations always suffice, since the candidates are distinct) *)
Fixpoint fresh_loop (used : list string) (base : string) (count fuel : nat) : option string :=
  match fuel with
  | O => None
  | S f => let cand := base ++ "_" ++ dec count in
           if mem cand used then fresh_loop used base (S count) f else Some cand
  end.

(* get_fresh_name(problem, original_name, parameters_names, trailing_info, used_names);
   [used] = the names of the problem together with used_names *)
Definition get_fresh_name (used : list string) (orig : string) (params : list string) (trailing : option string)
  : option string :=
  let tl := match trailing with Some t => if String.eqb t "" then [] else [t] | None => [] end in
  let base := join_us (orig :: params ++ tl) in
  if mem base used then fresh_loop used base 0 (S (List.length used)) else Some base.

(* a compiler creating several elements one after the other, each added to the problem (or to used_names) before the
   next name is chosen: items = (original name, parameter names, trailing info) *)
Definition req := (string * list string * option string)%type.
Fixpoint add_all_fresh (used : list string) (items : list req) : option (list string) :=
  match items with
  | [] => Some []
  | (o, ps, t) :: r =>
      match get_fresh_name used o ps t with
      | Some n => match add_all_fresh (n :: used) r with Some l => Some (n :: l) | None => None end
      | None => None
      end
  end.

(* ---------------------------------------------------------------- the grounder *)
(* the scheme as the design round found it: the name of a ground action is the plain join *)
Definition ground_name (a : string) (ps : list string) : string := join_us (a :: ps).

(* the repaired GrounderHelper: [pnames] = every name of the problem being grounded; [used] = self._used_names;
   an action without parameters keeps its name (it is a name of the problem) *)
Definition item := (string * list string)%type.
Fixpoint ground_all (pnames used : list string) (items : list item) : option (list string) :=
  match items with
  | [] => Some []
  | (a, ps) :: r =>
      match ps with
      | [] => match ground_all pnames used r with Some l => Some (a :: l) | None => None end
      | _ :: _ =>
          match get_fresh_name (pnames ++ used) a ps None with
          | Some n => match ground_all pnames (n :: used) r with Some l => Some (n :: l) | None => None end
          | None => None
          end
      end
  end.

(* ---------------------------------------------------------------- CompilerResult construction *)
Section Result.
  Variables Prob MapBack Conv : Type.
  Variable derive : MapBack -> Conv.     (* lambda plan: plan.replace_action_instances(map_back_action_instance) *)

  Record cresult := { r_problem : option Prob; r_map_back : option MapBack; r_conv : option Conv }.

  (* __post_init__: None = UPUsageError *)
  Definition post_init (p : option Prob) (m : option MapBack) (c : option Conv) : option cresult :=
    match p, m, c with
    | None, Some _, _ => None
    | None, None, Some _ => None
    | Some _, None, None => None
    | _, Some _, Some _ => None
    | _, Some mb, None => Some {| r_problem := p; r_map_back := m; r_conv := Some (derive mb) |}
    | _, None, _ => Some {| r_problem := p; r_map_back := m; r_conv := c |}
    end.
End Result.

(* ---------------------------------------------------------------- well-formed problems, by name *)
(* what an expression / effect / initial value mentions *)
Record refs := {
  rf_fluents : list (string * nat);     (* fluent name, number of arguments *)
  rf_objects : list string;
  rf_types : list string;               (* types of quantified / forall variables *)
  rf_params : list string               (* action parameters *)
}.

Record naction := { na_name : string; na_params : list (string * string) (* name, type ("" = not a user type) *); na_refs : refs }.

Record nproblem := {
  np_types : list (string * string);            (* user type, father ("" = none) *)
  np_objects : list (string * string);          (* object, type *)
  np_fluents : list (string * list (string * string));   (* fluent, its parameters: name, type ("" = not a user type) *)
  np_actions : list naction;
  np_refs : refs;                               (* goals, constraints, initial values, metrics (no parameters) *)
  np_action_refs : list string                  (* actions mentioned by metrics and by the map-back table *)
}.

Definition declared_type (P : nproblem) (t : string) : bool := String.eqb t "" || mem t (map fst (np_types P)).
Definition declared_fluent (P : nproblem) (fa : string * nat) : bool :=
  existsb (fun d => String.eqb (fst d) (fst fa) && Nat.eqb (List.length (snd d)) (snd fa)) (np_fluents P).

Definition refs_ok (P : nproblem) (params : list string) (r : refs) : bool :=
  forallb (declared_fluent P) (rf_fluents r) &&
  forallb (fun o => mem o (map fst (np_objects P))) (rf_objects r) &&
  forallb (declared_type P) (rf_types r) &&
  forallb (fun p => mem p params) (rf_params r).

Fixpoint nodupb (l : list string) : bool :=
  match l with [] => true | x :: r => negb (mem x r) && nodupb r end.

Definition all_names (P : nproblem) : list string :=
  map fst (np_types P) ++ map fst (np_objects P) ++ map fst (np_fluents P) ++ map na_name (np_actions P).

Definition wf_np (P : nproblem) : bool :=
  nodupb (all_names P) &&
  forallb (fun t => declared_type P (snd t)) (np_types P) &&
  forallb (fun o => negb (String.eqb (snd o) "") && declared_type P (snd o)) (np_objects P) &&
  forallb (fun f => nodupb (map fst (snd f)) && forallb (fun p => declared_type P (snd p)) (snd f)) (np_fluents P) &&
  forallb (fun a => nodupb (map fst (na_params a)) && forallb (fun p => declared_type P (snd p)) (na_params a)
                    && refs_ok P (map fst (na_params a)) (na_refs a)) (np_actions P) &&
  refs_ok P [] (np_refs P) &&
  forallb (fun a => mem a (map na_name (np_actions P))) (np_action_refs P).

(* the same, as a proposition *)
Definition refs_wf (P : nproblem) (params : list string) (r : refs) : Prop :=
  (forall f n, In (f, n) (rf_fluents r) -> exists sig, In (f, sig) (np_fluents P) /\ List.length sig = n) /\
  (forall o, In o (rf_objects r) -> In o (map fst (np_objects P))) /\
  (forall t, In t (rf_types r) -> t = "" \/ In t (map fst (np_types P))) /\
  (forall p, In p (rf_params r) -> In p params).

Definition wf_problem (P : nproblem) : Prop :=
  NoDup (all_names P) /\
  (forall t f, In (t, f) (np_types P) -> f = "" \/ In f (map fst (np_types P))) /\
  (forall o t, In (o, t) (np_objects P) -> t <> "" /\ In t (map fst (np_types P))) /\
  (forall f sig, In (f, sig) (np_fluents P) ->
     NoDup (map fst sig) /\ (forall p t, In (p, t) sig -> t = "" \/ In t (map fst (np_types P)))) /\
  (forall a, In a (np_actions P) ->
     NoDup (map fst (na_params a)) /\
     (forall p t, In (p, t) (na_params a) -> t = "" \/ In t (map fst (np_types P))) /\
     refs_wf P (map fst (na_params a)) (na_refs a)) /\
  refs_wf P [] (np_refs P) /\
  (forall a, In a (np_action_refs P) -> In a (map na_name (np_actions P))).
