(* Executable model for C22: Problem.clone / Problem._clone_to (unified_planning/model/problem.py), the mixins'
   _clone_to methods, InstantaneousAction.clone / DurativeAction.clone (action.py), and the public model-building API
   (add_fluent, add_object, add_action, add_goal, add_timed_effect / add_increase_effect / add_decrease_effect,
   add_timed_goal, add_trajectory_constraint, add_quality_metric, set_initial_value, action.add_effect & co,
   epsilon / discrete_time / self_overlapping setters).

   Two layers.
   * PURE layer: a problem is a value [pstate]; [step] gives the outcome (Ok / Fail exception-code) and the new state of
     one API call.  Failure conditions that depend on the STATE are modelled (duplicate names, user-type name clashes,
     conflicting effects via check_conflicting_effects, including what a failed call leaves behind); validation that
     depends only on the ARGUMENTS (type compatibility, end-timings, malformed trajectory constraints) is the [o_pre]
     component of the operation, decided by the caller.
   * HEAP layer: Python objects are mutable and clone() decides, field by field, whether the new problem gets a NEW
     container or a reference to the SAME one.  A [heap] is a list of cells; a problem object [pobj] holds the ADDRESSES
     of its containers; every list / dict / set attribute of the problem, every inner list/dict of the per-timing
     dictionaries and every action object is a cell of its own.  API calls mutate cells IN PLACE ([sync]); [hclone]
     mirrors _clone_to: it allocates a new cell for each attribute the code copies.  Whether editing one problem can be
     seen through the other is then a THEOREM about addresses (Proofs/Clone_proofs.v), not an assumption.

   Values: fluents, objects, types, actions, expressions, effects, timings, metrics are numbers (the harness interns
   them with Python's own ==/hash); a [val] is (identity code, name code) - the name code is what has_name compares. *)
From Coq Require Import List NArith Bool.
From Coq Require String.
Import ListNotations.

Definition val := (N * N)%type.
Definition val_eqb (a b : val) : bool := (fst a =? fst b)%N && (snd a =? snd b)%N.

(* ------------------------------------------------------------------ association lists = Python dicts (insertion order) *)
Fixpoint alookup {A} (k : N) (l : list (N * A)) : option A :=
  match l with
  | [] => None
  | (k', v) :: t => if (k =? k')%N then Some v else alookup k t
  end.
(* d[k] = v : an existing key keeps its position *)
Fixpoint aset {A} (k : N) (v : A) (l : list (N * A)) : list (N * A) :=
  match l with
  | [] => [(k, v)]
  | (k', v') :: t => if (k =? k')%N then (k, v) :: t else (k', v') :: aset k v t
  end.
Definition aget {A} (k : N) (d : A) (l : list (N * A)) : A := match alookup k l with Some v => v | None => d end.
(* d.setdefault(k, dflt) *)
Definition asetdefault {A} (k : N) (d : A) (l : list (N * A)) : list (N * A) :=
  match alookup k l with Some _ => l | None => l ++ [(k, d)] end.

(* Python set of expressions, kept sorted by code (a set has no order; the harness sorts its dump the same way) *)
Fixpoint sadd (x : N) (l : list val) : list val :=
  match l with
  | [] => [(x, 0%N)]
  | y :: t => if (x =? fst y)%N then l else if (x <? fst y)%N then (x, 0%N) :: l else y :: sadd x t
  end.
Definition mem_fst (x : N) (l : list val) : bool := existsb (fun v => (fst v =? x)%N) l.

(* ------------------------------------------------------------------ cells *)
(* an action object: InstantaneousAction (single timing key 0) or DurativeAction (keys = timings).
   a_static = everything clone() copies and no modelled operation changes (class, name, parameters, preconditions /
   conditions, duration); a_sim = fluents written by the simulated effect at each timing;
   a_effs / a_asg / a_incdec = _effects / _fluents_assigned / _fluents_inc_dec; a_ceffs = _continuous_effects *)
Record astate := {
  a_static : N;
  a_sim : list (N * list N);
  a_effs : list (N * list val);
  a_asg : list (N * list (N * N));
  a_incdec : list (N * list val);
  a_ceffs : list (N * list val)        (* DurativeAction._continuous_effects: interval -> list of effects *)
}.
Definition dact : astate := {| a_static := 0; a_sim := []; a_effs := []; a_asg := []; a_incdec := []; a_ceffs := [] |}.

Inductive cell :=
| CList (l : list val)              (* list or set of immutable values *)
| CDict (d : list (N * N))          (* dict immutable -> immutable *)
| CRefs (r : list (N * nat))        (* dict key -> ADDRESS of a container / list of objects keyed by their name *)
| CAct (a : astate).                (* an action object *)
Definition dcell : cell := CList [].
Definition lst (c : cell) : list val := match c with CList l => l | _ => [] end.
Definition dct (c : cell) : list (N * N) := match c with CDict d => d | _ => [] end.
Definition refs (c : cell) : list (N * nat) := match c with CRefs r => r | _ => [] end.
Definition act (c : cell) : astate := match c with CAct a => a | _ => dact end.

(* ------------------------------------------------------------------ the pure problem state *)
(* s_scal: attributes holding immutable scalars; s_flat: attributes holding ONE container; s_nest: attributes holding a
   dict/list of containers (key -> inner container / action object).  Field tables below; Props/C22.v proves that they
   are exactly the attributes Problem.clone() writes according to the regenerated Gen_Clone table. *)
Record pstate := { s_scal : list N; s_flat : list cell; s_nest : list (list (N * cell)) }.

Module Fields.
Import String.
Local Open Scope string_scope.
Definition scal_fields : list String.string := ["_epsilon"; "_discrete_time"; "_self_overlapping"].
Definition flat_fields : list String.string :=
  ["_user_types"; "_objects"; "_fluents"; "_fluents_defaults"; "_initial_defaults"; "_initial_value"; "_goals";
   "_trajectory_constraints"; "_metrics"; "_events"; "_processes"; "_user_types_hierarchy"].
Definition nest_fields : list String.string :=
  ["_actions"; "_timed_effects"; "_timed_goals"; "_fluents_assigned"; "_fluents_inc_dec"].
End Fields.
(* index 0 of s_scal is the problem name (constructor argument, not written by clone) *)
Definition S_NAME := 0. Definition S_EPS := 1. Definition S_DISC := 2. Definition S_SELFOV := 3.
Definition F_TYPES := 0. Definition F_OBJECTS := 1. Definition F_FLUENTS := 2. Definition F_FDEF := 3.
Definition F_IDEF := 4. Definition F_INIT := 5. Definition F_GOALS := 6. Definition F_TRAJ := 7.
Definition F_METRICS := 8. Definition F_EVENTS := 9. Definition F_PROCS := 10. Definition F_HIER := 11.
Definition N_ACTIONS := 0. Definition N_TEFFS := 1. Definition N_TGOALS := 2. Definition N_ASG := 3.
Definition N_INCDEC := 4.

Fixpoint set_nth {A} (i : nat) (x : A) (l : list A) : list A :=
  match l, i with
  | [], _ => []
  | _ :: t, O => x :: t
  | y :: t, S j => y :: set_nth j x t
  end.
Definition flat (s : pstate) (i : nat) : cell := nth i (s_flat s) dcell.
Definition nest (s : pstate) (i : nat) : list (N * cell) := nth i (s_nest s) [].
Definition set_flat (s : pstate) (i : nat) (c : cell) : pstate :=
  {| s_scal := s_scal s; s_flat := set_nth i c (s_flat s); s_nest := s_nest s |}.
Definition set_nest (s : pstate) (i : nat) (l : list (N * cell)) : pstate :=
  {| s_scal := s_scal s; s_flat := s_flat s; s_nest := set_nth i l (s_nest s) |}.
Definition set_scal (s : pstate) (i : nat) (v : N) : pstate :=
  {| s_scal := set_nth i v (s_scal s); s_flat := s_flat s; s_nest := s_nest s |}.
Definition append_flat (s : pstate) (i : nat) (v : val) : pstate := set_flat s i (CList (lst (flat s i) ++ [v])).
Definition dset_flat (s : pstate) (i : nat) (k v : N) : pstate := set_flat s i (CDict (aset k v (dct (flat s i)))).

(* ------------------------------------------------------------------ operations *)
Inductive ekind := EAssign | EIncDec.        (* check_conflicting_effects treats increase and decrease alike *)
(* e_id: the Effect (Python ==); e_fl: effect.fluent; e_val: effect.value up to "equal constants";
   e_skip: effect.is_conditional() or effect.fluent.type.is_bool_type() (then no bookkeeping is consulted or updated) *)
Record eff := { e_id : N; e_fl : N; e_val : N; e_kind : ekind; e_skip : bool }.

Inductive opbody :=
| OAddFluent (f : val) (ty : N) (default : option N) (types : list (list val))
    (* fluent (code, name); code of its type; default_initial_value; user types to register: the fluent's type then the
       signature's, each as the chain [type; father; grandfather; ...] of (type code, type name) *)
| OAddObject (o : val) (types : list (list val))
| OAddAction (name : N) (a : astate) (types : list (list val))
| OAddGoal (g : N) (is_true : bool)
| OTimedEffect (t : N) (e : eff)
| OTimedGoal (iv : N) (g : N)
| OTraj (c : N)
| OMetric (m : N)
| OSetInit (f v : N)
| OActEffect (name : N) (t : N) (e : eff)          (* problem.action(name).add_effect & co; t = 0 for instantaneous *)
| OActContEffect (name : N) (iv : N) (e : N)       (* problem.action(name).add_increase/decrease_continuous_effect *)
| OSetScalar (i : nat) (v : N).                    (* problem.epsilon / discrete_time / self_overlapping = v *)

(* o_pre = Some e: the call raises e during argument validation, before reading or writing the problem *)
Record op := { o_pre : option N; o_body : opbody }.
Inductive outcome := Ok | Fail (e : N).
(* exception codes used by [step]; the argument-validation codes of o_pre are chosen by the caller *)
Definition E_PROBLEM_DEFINITION : N := 1.   (* UPProblemDefinitionError *)
Definition E_CONFLICT : N := 2.             (* UPConflictingEffectsException *)
Definition E_VALUE : N := 9.                (* UPValueError: no action of that name *)

(* Problem.has_name *)
Definition has_name (s : pstate) (n : N) : bool :=
  existsb (fun kc => (fst kc =? n)%N) (nest s N_ACTIONS)
  || existsb (fun v => (snd v =? n)%N) (lst (flat s F_FLUENTS))
  || existsb (fun v => (snd v =? n)%N) (lst (flat s F_OBJECTS))
  || existsb (fun v => (snd v =? n)%N) (lst (flat s F_TYPES)).

(* UserTypesSetMixin._add_user_type; None = UPProblemDefinitionError (nothing has been appended at that point) *)
Fixpoint add_user_type (s : pstate) (chain : list val) : option pstate :=
  match chain with
  | [] => Some s
  | t :: rest =>
      if existsb (val_eqb t) (lst (flat s F_TYPES)) then Some s
      else if has_name s (snd t) then None
      else match add_user_type s rest with
           | None => None
           | Some s' => Some (append_flat s' F_TYPES t)
           end
  end.
(* the loop `for param in ...: self._add_user_type_method(param.type)`: stops at the first failure, keeps what was done *)
Fixpoint add_types (s : pstate) (chains : list (list val)) : pstate * outcome :=
  match chains with
  | [] => (s, Ok)
  | c :: r => match add_user_type s c with
              | None => (s, Fail E_PROBLEM_DEFINITION)
              | Some s' => add_types s' r
              end
  end.

(* effect.check_conflicting_effects (after the repair of #27): None = UPConflictingEffectsException *)
Definition check_conflict (sim : list N) (asg : list (N * N)) (incdec : list val) (e : eff)
  : option (list (N * N) * list val) :=
  if e_skip e then Some (asg, incdec) else
  match e_kind e with
  | EAssign =>
      if mem_fst (e_fl e) incdec then None
      else if existsb (N.eqb (e_fl e)) sim then None
      else match alookup (e_fl e) asg with
           | Some v => if (v =? e_val e)%N then Some (asg, incdec) else None
           | None => Some (asg ++ [(e_fl e, e_val e)], incdec)
           end
  | EIncDec =>
      match alookup (e_fl e) asg with
      | Some _ => None
      | None => if existsb (N.eqb (e_fl e)) sim then None else Some (asg, sadd (e_fl e) incdec)
      end
  end.

(* Problem._add_effect_instance / TimedCondsEffs._add_effect_instance / UntimedEffectMixin._add_effect_instance on the
   triple (_effects, _fluents_assigned, _fluents_inc_dec): the two setdefaults happen before the check and survive a
   rejection; false = rejected *)
Definition tstore := (list (N * list val) * list (N * list (N * N)) * list (N * list val))%type.
Definition tstore_add (sim : list N) (st : tstore) (t : N) (e : eff) : tstore * bool :=
  let '(effs, asg, incdec) := st in
  let asg1 := asetdefault t [] asg in
  let incdec1 := asetdefault t [] incdec in
  match check_conflict sim (aget t [] asg1) (aget t [] incdec1) e with
  | None => ((effs, asg1, incdec1), false)
  | Some (a', i') => ((aset t (aget t [] effs ++ [(e_id e, 0%N)]) effs, aset t a' asg1, aset t i' incdec1), true)
  end.

Definition cells_lst (l : list (N * cell)) : list (N * list val) := map (fun kc => (fst kc, lst (snd kc))) l.
Definition cells_dct (l : list (N * cell)) : list (N * list (N * N)) := map (fun kc => (fst kc, dct (snd kc))) l.
Definition lst_cells (l : list (N * list val)) : list (N * cell) := map (fun kc => (fst kc, CList (snd kc))) l.
Definition dct_cells (l : list (N * list (N * N))) : list (N * cell) := map (fun kc => (fst kc, CDict (snd kc))) l.

Definition step_body (s : pstate) (b : opbody) : pstate * outcome :=
  match b with
  | OAddFluent f ty dflt types =>                                  (* FluentsSetMixin.add_fluent *)
      if has_name s (snd f) then (s, Fail E_PROBLEM_DEFINITION) else
      let s1 := append_flat s F_FLUENTS f in
      let s2 := match dflt with
                | Some v => dset_flat s1 F_FDEF (fst f) v
                | None => match alookup ty (dct (flat s1 F_IDEF)) with
                          | Some v => dset_flat s1 F_FDEF (fst f) v
                          | None => s1
                          end
                end in
      add_types s2 types
  | OAddObject o types =>                                          (* ObjectsSetMixin.add_object *)
      if has_name s (snd o) then (s, Fail E_PROBLEM_DEFINITION) else
      add_types (append_flat s F_OBJECTS o) types
  | OAddAction name a types =>                                     (* ActionsSetMixin.add_action *)
      if has_name s name then (s, Fail E_PROBLEM_DEFINITION) else
      add_types (set_nest s N_ACTIONS (nest s N_ACTIONS ++ [(name, CAct a)])) types
  | OAddGoal g is_true =>                                          (* Problem.add_goal: TRUE is not stored *)
      if is_true then (s, Ok) else (append_flat s F_GOALS (g, 0%N), Ok)
  | OTimedEffect t e =>                                            (* add_timed_effect / add_increase / add_decrease *)
      let '((effs, asg, incdec), accepted) :=
        tstore_add [] (cells_lst (nest s N_TEFFS), cells_dct (nest s N_ASG), cells_lst (nest s N_INCDEC)) t e in
      let s1 := set_nest (set_nest (set_nest s N_TEFFS (lst_cells effs)) N_ASG (dct_cells asg)) N_INCDEC (lst_cells incdec) in
      (s1, if accepted then Ok else Fail E_CONFLICT)
  | OTimedGoal iv g =>                                             (* add_timed_goal: setdefault, no duplicates *)
      let cur := lst (aget iv dcell (nest s N_TGOALS)) in
      let cur' := if existsb (val_eqb (g, 0%N)) cur then cur else cur ++ [(g, 0%N)] in
      (set_nest s N_TGOALS (aset iv (CList cur') (nest s N_TGOALS)), Ok)
  | OTraj c => (append_flat s F_TRAJ (c, 0%N), Ok)                 (* add_trajectory_constraint *)
  | OMetric m => (append_flat s F_METRICS (m, 0%N), Ok)            (* add_quality_metric *)
  | OSetInit f v => (dset_flat s F_INIT f v, Ok)                   (* set_initial_value *)
  | OActEffect name t e =>                                         (* problem.action(name).add_effect & co *)
      match alookup name (nest s N_ACTIONS) with
      | None => (s, Fail E_VALUE)
      | Some c =>
          let a := act c in
          let '((effs, asg, incdec), accepted) := tstore_add (aget t [] (a_sim a)) (a_effs a, a_asg a, a_incdec a) t e in
          let a' := {| a_static := a_static a; a_sim := a_sim a; a_effs := effs; a_asg := asg; a_incdec := incdec;
                       a_ceffs := a_ceffs a |} in
          (set_nest s N_ACTIONS (aset name (CAct a') (nest s N_ACTIONS)), if accepted then Ok else Fail E_CONFLICT)
      end
  | OActContEffect name iv e =>                  (* DurativeAction._add_continuous_effect_instance: setdefault + append *)
      match alookup name (nest s N_ACTIONS) with
      | None => (s, Fail E_VALUE)
      | Some c =>
          let a := act c in
          let a' := {| a_static := a_static a; a_sim := a_sim a; a_effs := a_effs a; a_asg := a_asg a;
                       a_incdec := a_incdec a; a_ceffs := aset iv (aget iv [] (a_ceffs a) ++ [(e, 0%N)]) (a_ceffs a) |} in
          (set_nest s N_ACTIONS (aset name (CAct a') (nest s N_ACTIONS)), Ok)
      end
  | OSetScalar i v => (set_scal s i v, Ok)
  end.

Definition step (s : pstate) (o : op) : pstate * outcome :=
  match o_pre o with
  | Some e => (s, Fail e)
  | None => step_body s (o_body o)
  end.

Fixpoint prun (s : pstate) (ops : list op) : pstate * list outcome :=
  match ops with
  | [] => (s, [])
  | o :: r => let (s1, out) := step s o in let (s2, outs) := prun s1 r in (s2, out :: outs)
  end.

(* ------------------------------------------------------------------ Problem.__eq__ *)
Section Eq.
  (* Problem.kind (the _KindFactory) and InitialStateMixin.initial_values (grounding over the objects) are functions of
     the attributes; they are not modelled: any function will do *)
  Variable kind : pstate -> N.
  Variable initial_values : pstate -> list (N * N).

  Definition set_eqb (a b : list val) : bool :=
    forallb (fun x => existsb (val_eqb x) b) a && forallb (fun x => existsb (val_eqb x) a) b.
  Definition optN_eqb (a b : option N) : bool :=
    match a, b with Some x, Some y => (x =? y)%N | None, None => true | _, _ => false end.
  Definition dict_eqb (a b : list (N * N)) : bool :=
    Nat.eqb (length a) (length b)
    && forallb (fun kv => optN_eqb (alookup (fst kv) a) (alookup (fst kv) b)) a
    && forallb (fun kv => optN_eqb (alookup (fst kv) a) (alookup (fst kv) b)) b.
  (* timed effects / timed goals: same keys, set-equal lists per key *)
  Definition keyed_sets_eqb {A} (f : A -> list val) (a b : list (N * A)) : bool :=
    let cmp := fun kv : N * A => match alookup (fst kv) a, alookup (fst kv) b with
                                 | Some x, Some y => set_eqb (f x) (f y)
                                 | None, None => true
                                 | _, _ => false
                                 end in
    Nat.eqb (length a) (length b) && forallb cmp a && forallb cmp b.
  (* InstantaneousAction.__eq__ / DurativeAction.__eq__ *)
  Definition act_eqb (a b : astate) : bool :=
    (a_static a =? a_static b)%N && keyed_sets_eqb (fun l => l) (a_effs a) (a_effs b)
    && keyed_sets_eqb (fun l => l) (a_ceffs a) (a_ceffs b).
  Definition acts_eqb (a b : list (N * cell)) : bool :=
    forallb (fun x => existsb (fun y => act_eqb (act (snd x)) (act (snd y))) b) a
    && forallb (fun x => existsb (fun y => act_eqb (act (snd x)) (act (snd y))) a) b.

  Definition peq (s t : pstate) : bool :=
    (kind s =? kind t)%N
    && (nth S_NAME (s_scal s) 0 =? nth S_NAME (s_scal t) 0)%N
    && set_eqb (lst (flat s F_TYPES)) (lst (flat t F_TYPES))
    && set_eqb (lst (flat s F_OBJECTS)) (lst (flat t F_OBJECTS))
    && set_eqb (lst (flat s F_FLUENTS)) (lst (flat t F_FLUENTS))
    && dict_eqb (initial_values s) (initial_values t)
    && set_eqb (lst (flat s F_METRICS)) (lst (flat t F_METRICS))
    && set_eqb (lst (flat s F_GOALS)) (lst (flat t F_GOALS))
    && acts_eqb (nest s N_ACTIONS) (nest t N_ACTIONS)
    && set_eqb (lst (flat s F_TRAJ)) (lst (flat t F_TRAJ))
    && keyed_sets_eqb lst (nest s N_TEFFS) (nest t N_TEFFS)
    && keyed_sets_eqb lst (nest s N_TGOALS) (nest t N_TGOALS).
End Eq.

(* ------------------------------------------------------------------ the heap *)
Definition heap := list cell.
Definition rd (h : heap) (a : nat) : cell := nth a h dcell.
Fixpoint upd (h : heap) (a : nat) (c : cell) : heap :=
  match h, a with
  | [], _ => []
  | _ :: t, O => c :: t
  | x :: t, S a' => x :: upd t a' c
  end.

(* a Problem object: scalars + the addresses of its containers *)
Record pobj := { o_scal : list N; o_flat : list nat; o_nest : list nat }.

Definition abs_refs (h : heap) (r : list (N * nat)) : list (N * cell) := map (fun ka => (fst ka, rd h (snd ka))) r.
(* what the problem looks like from its own attributes *)
Definition abs (h : heap) (p : pobj) : pstate :=
  {| s_scal := o_scal p;
     s_flat := map (rd h) (o_flat p);
     s_nest := map (fun a => abs_refs h (refs (rd h a))) (o_nest p) |}.

(* every address reachable from the problem *)
Definition inner (h : heap) (a : nat) : list nat := map snd (refs (rd h a)).
Definition footprint (h : heap) (p : pobj) : list nat := o_flat p ++ o_nest p ++ flat_map (inner h) (o_nest p).

(* in-place mutation: the containers the problem references are overwritten where they are; an inner container that
   already exists for a key is overwritten in place, a new key gets a newly allocated container *)
Fixpoint write_all (h : heap) (addrs : list nat) (cs : list cell) : heap :=
  match addrs, cs with
  | a :: ar, c :: cr => write_all (upd h a c) ar cr
  | _, _ => h
  end.
Fixpoint take (k : N) (old : list (N * nat)) : option (nat * list (N * nat)) :=
  match old with
  | [] => None
  | (k', a) :: t =>
      if (k =? k')%N then Some (a, t)
      else match take k t with
           | Some (a', t') => Some (a', (k', a) :: t')
           | None => None
           end
  end.
Fixpoint sync_refs (h : heap) (old : list (N * nat)) (new : list (N * cell)) : heap * list (N * nat) :=
  match new with
  | [] => (h, [])
  | (k, c) :: rest =>
      match take k old with
      | Some (a, old') => let (h', r) := sync_refs (upd h a c) old' rest in (h', (k, a) :: r)
      | None => let (h', r) := sync_refs (h ++ [c]) old rest in (h', (k, length h) :: r)
      end
  end.
Definition sync_nest (h : heap) (a : nat) (new : list (N * cell)) : heap :=
  let (h', r) := sync_refs h (refs (rd h a)) new in upd h' a (CRefs r).
Fixpoint sync_nests (h : heap) (addrs : list nat) (news : list (list (N * cell))) : heap :=
  match addrs, news with
  | a :: ar, n :: nr => sync_nests (sync_nest h a n) ar nr
  | _, _ => h
  end.
Definition sync (h : heap) (p : pobj) (s : pstate) : heap :=
  sync_nests (write_all h (o_flat p) (s_flat s)) (o_nest p) (s_nest s).

(* one API call on the problem object p living in heap h *)
Definition hstep (h : heap) (p : pobj) (o : op) : heap * pobj * outcome :=
  let (s', out) := step (abs h p) o in
  (sync h p s', {| o_scal := s_scal s'; o_flat := o_flat p; o_nest := o_nest p |}, out).

(* allocation of fresh containers *)
Definition alloc_cells (h : heap) (cs : list cell) : heap * list nat := (h ++ cs, seq (length h) (length cs)).
Definition alloc_refs (h : heap) (l : list (N * cell)) : heap * list (N * nat) :=
  (h ++ map snd l, combine (map fst l) (seq (length h) (length l))).
Definition alloc_nest (h : heap) (l : list (N * cell)) : heap * nat :=
  let (h', r) := alloc_refs h l in (h' ++ [CRefs r], length h').
Fixpoint alloc_nests (h : heap) (ls : list (list (N * cell))) : heap * list nat :=
  match ls with
  | [] => (h, [])
  | l :: r => let (h1, a) := alloc_nest h l in let (h2, ar) := alloc_nests h1 r in (h2, a :: ar)
  end.

(* Problem.clone = Problem(self._name, self._env) + Problem._clone_to:
     new_p._x = self._x[:] / .copy()                        for every flat attribute      (a NEW list/dict, same items)
     new_p._timed_effects = {t: [e.clone() ...] ...}, _timed_goals = {i: [g ...] ...},
     _fluents_assigned = {t: d.copy() ...}, _fluents_inc_dec = {t: fs.copy() ...},
     _actions = [a.clone() ...]                             for every nested attribute    (NEW outer AND inner containers)
     new_p.epsilon / discrete_time / self_overlapping = ... for the scalars *)
Definition hclone (h : heap) (p : pobj) : heap * pobj :=
  let (h1, fl) := alloc_cells h (map (rd h) (o_flat p)) in
  let (h2, ns) := alloc_nests h1 (map (fun a => abs_refs h (refs (rd h a))) (o_nest p)) in
  (h2, {| o_scal := o_scal p; o_flat := fl; o_nest := ns |}).

(* a problem built from scratch with the given content *)
Definition load (s : pstate) : heap * pobj :=
  let (h1, fl) := alloc_cells [] (s_flat s) in
  let (h2, ns) := alloc_nests h1 (s_nest s) in
  (h2, {| o_scal := s_scal s; o_flat := fl; o_nest := ns |}).

(* well-formed: the problem's containers are pairwise distinct existing cells *)
Definition wf (h : heap) (p : pobj) : Prop :=
  NoDup (footprint h p) /\ Forall (fun a => a < length h) (footprint h p).
Definition disjoint (l1 l2 : list nat) : Prop := forall a, In a l1 -> ~ In a l2.

Fixpoint nodupb (l : list nat) : bool :=
  match l with [] => true | x :: t => negb (existsb (Nat.eqb x) t) && nodupb t end.
Definition wfb (h : heap) (p : pobj) : bool :=
  nodupb (footprint h p) && forallb (fun a => Nat.ltb a (length h)) (footprint h p).

(* ------------------------------------------------------------------ two problems in one heap *)
Inductive side := SOrig | SClone.
Record world := { w_heap : heap; w_p : pobj; w_c : pobj }.

Definition wstep (w : world) (so : side * op) : world * outcome :=
  match fst so with
  | SOrig => let '(h, p, out) := hstep (w_heap w) (w_p w) (snd so) in ({| w_heap := h; w_p := p; w_c := w_c w |}, out)
  | SClone => let '(h, c, out) := hstep (w_heap w) (w_c w) (snd so) in ({| w_heap := h; w_p := w_p w; w_c := c |}, out)
  end.
Fixpoint wrun (w : world) (tr : list (side * op)) : world * list outcome :=
  match tr with
  | [] => (w, [])
  | so :: r => let (w1, out) := wstep w so in let (w2, outs) := wrun w1 r in (w2, out :: outs)
  end.
Definition side_eqb (a b : side) : bool := match a, b with SOrig, SOrig => true | SClone, SClone => true | _, _ => false end.
(* the operations of a trace that were addressed to one side *)
Definition proj (sd : side) (tr : list (side * op)) : list op := map snd (filter (fun so => side_eqb (fst so) sd) tr).
(* the outcomes of a trace that belong to one side *)
Fixpoint proj_out (sd : side) (tr : list (side * op)) (outs : list outcome) : list outcome :=
  match tr, outs with
  | so :: r, o :: os => if side_eqb (fst so) sd then o :: proj_out sd r os else proj_out sd r os
  | _, _ => []
  end.
(* start: clone the problem p of heap h *)
Definition clone_world (h : heap) (p : pobj) : world :=
  let (h', c) := hclone h p in {| w_heap := h'; w_p := p; w_c := c |}.
(* the same operation applied to both *)
Definition both (ops : list op) : list (side * op) := flat_map (fun o => [(SOrig, o); (SClone, o)]) ops.

(* ------------------------------------------------------------------ HierarchicalProblem: methods (open finding) *)
(* HierarchicalProblem.clone = the Problem part above +  new_p._methods = self._methods.copy()  (a NEW dict holding the
   SAME Method objects) + the task network's subtask list copied shallowly.  A Method's subtasks hold references to Action
   OBJECTS.  Modelled: the methods dict is a CRefs cell (method name -> address of the Method object); a Method object is
   a CRefs cell (subtask identifier -> address of the Action object it refers to). *)
Record hobj := { h_prob : pobj; h_methods : nat }.
(* what the methods of a hierarchical problem look like: for each method, for each subtask, the action it runs *)
Definition methods_view (h : heap) (a : nat) : list (N * list (N * cell)) :=
  map (fun ma => (fst ma, abs_refs h (refs (rd h (snd ma))))) (refs (rd h a)).
Definition hclone_htn (h : heap) (hp : hobj) : heap * hobj :=
  let (h1, c) := hclone h (h_prob hp) in
  (h1 ++ [CRefs (refs (rd h1 (h_methods hp)))], {| h_prob := c; h_methods := length h1 |}).
