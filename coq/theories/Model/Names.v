(* Executable model of the renaming machinery of the PDDL and ANML writers (property C38).

   Mirrors   unified_planning/io/pddl_writer.py : _get_pddl_name, PDDLWriter._get_mangled_name (with the
             otn_renamings / nto_renamings dictionaries and its counter loop), get_item_named, get_pddl_name;
             unified_planning/io/anml_writer.py : _is_valid_anml_name, _get_anml_valid_name, _get_anml_name and the
             pre-fill loops at the top of ANMLWriter._write_problem (names_mapping).
   The tables (keyword sets, INITIAL_LETTER, regex character classes, replacement, which `re` function) are NOT
   written here: they come from Gen/Gen_Keywords.v (translator) through the records [cfg] / [vcfg].

   Scope: names are Coq [string]s, i.e. sequences of 8-bit characters; the correspondence is claimed for ASCII
   names only (Python's str.lower()/re on non-ASCII text is outside the model).
   An item (Type, Action, Fluent, Object, Parameter, Variable, Problem, ...) is a triple
   (Python class name, identity number, name): two Python items that are == (same dict key) get the same number,
   so Coq equality of items = Python dictionary-key equality.  Both writers keep ONE flat namespace for all kinds
   of items (a single dictionary), and so does the model.
   Only definitions here; proofs are in Proofs/Names_proofs.v. *)
From Coq Require Import List String Ascii Bool Arith NArith Decimal DecimalString.
Import ListNotations.
Open Scope string_scope.

(* ------------------------------------------------------------------ characters and strings *)
Definition cclass := list (ascii * ascii).            (* inclusive ranges, as written inside [...] of a regex *)

Definition in_range (r : ascii * ascii) (c : ascii) : bool :=
  (N_of_ascii (fst r) <=? N_of_ascii c)%N && (N_of_ascii c <=? N_of_ascii (snd r))%N.
Definition in_class (cl : cclass) (c : ascii) : bool := existsb (fun r => in_range r c) cl.

Fixpoint sall (p : ascii -> bool) (s : string) : bool :=
  match s with EmptyString => true | String c r => p c && sall p r end.

Fixpoint smap (f : ascii -> string) (s : string) : string :=
  match s with EmptyString => EmptyString | String c r => f c ++ smap f r end.

Definition one (c : ascii) : string := String c EmptyString.

(* str.lower() on ASCII text *)
Definition lower_char (c : ascii) : ascii :=
  if in_range ("A"%char, "Z"%char) c then ascii_of_N (N_of_ascii c + 32) else c.
Definition lower (s : string) : string := smap (fun c => one (lower_char c)) s.

Definition mem_str (s : string) (l : list string) : bool := existsb (String.eqb s) l.

(* f"{count}" : decimal numeral of a natural number *)
Definition dec (n : nat) : string := NilEmpty.string_of_uint (Nat.to_uint n).

(* `while blocked(x): x = next candidate` with explicit fuel; None = out of fuel (excluded by the theorems) *)
Fixpoint first_free (blocked : string -> bool) (cand : nat -> string) (k fuel : nat) : option string :=
  match fuel with
  | O => None
  | S f => if blocked (cand k) then first_free blocked cand (S k) f else Some (cand k)
  end.

(* candidates of `while name in keywords: name = f"{name}_"` *)
Fixpoint pad (s : string) (k : nat) : string :=
  match k with O => s | S j => pad s j ++ "_" end.

(* candidates of the counter loops: tmp, tmp_0, tmp_1, ... *)
Definition counter_cand (tmp : string) (k : nat) : string :=
  match k with O => tmp | S j => tmp ++ "_" ++ dec j end.

(* ------------------------------------------------------------------ items *)
Record item := mk_item { it_cls : string; it_id : N; it_name : string }.

Definition item_eqb (a b : item) : bool :=
  String.eqb (it_cls a) (it_cls b) && N.eqb (it_id a) (it_id b) && String.eqb (it_name a) (it_name b).

Definition is_type (it : item) : bool := String.eqb (it_cls it) "_UserType".        (* isinstance(item, Type) *)
Definition is_paramvar (it : item) : bool :=                                          (* Parameter or Variable *)
  String.eqb (it_cls it) "Parameter" || String.eqb (it_cls it) "Variable".
Definition is_numtype (it : item) : bool :=
  String.eqb (it_cls it) "_IntType" || String.eqb (it_cls it) "_RealType".

(* ------------------------------------------------------------------ the part shared by both writers *)
Record cfg := mk_cfg {
  c_kws : list string;                 (* the keyword set consulted *)
  c_start : cclass;                    (* re.match(r"^[C]+.*", name): first character in C *)
  c_keep : cclass;                     (* re.sub("[^C]", repl, name): characters in C are kept *)
  c_repl : string;
  c_letters : list (string * string);  (* INITIAL_LETTER, keyed by class name *)
  c_default : string;                  (* INITIAL_LETTER.get(type(item), default) *)
  c_lower : bool                       (* name = name.lower() first (PDDL only) *)
}.

Fixpoint assoc_str (k : string) (l : list (string * string)) : option string :=
  match l with
  | [] => None
  | (k', v) :: l' => if String.eqb k k' then Some v else assoc_str k l'
  end.

Definition initial_letter (c : cfg) (cls : string) : string :=
  match assoc_str cls (c_letters c) with Some l => l | None => c_default c end.

Definition starts_in (cl : cclass) (s : string) : bool :=
  match s with String ch _ => in_class cl ch | EmptyString => false end.

Definition sub_chars (c : cfg) (s : string) : string :=
  smap (fun ch => if in_class (c_keep c) ch then one ch else c_repl c) s.

Definition avoid_keywords (c : cfg) (s : string) : option string :=
  first_free (fun x => mem_str x (c_kws c)) (pad s) 0 (S (List.length (c_kws c))).

(* the common body of _get_pddl_name (before the "?" step) and _get_anml_valid_name *)
Definition base_name (c : cfg) (it : item) : option string :=
  let n := if c_lower c then lower (it_name it) else it_name it in
  let n := if starts_in (c_start c) n then n else initial_letter c (it_cls it) ++ "_" ++ n in
  avoid_keywords c (sub_chars c n).

(* ------------------------------------------------------------------ PDDL *)
(* _get_pddl_name(item, pddl_keywords) *)
Definition pddl_name (c : cfg) (it : item) : option string :=
  match base_name c it with
  | Some n => Some (if is_paramvar it then "?" ++ n else n)
  | None => None
  end.

Record pstate := mk_pstate {
  otn : list (item * string);          (* self.otn_renamings, in insertion order *)
  nto : list (string * item)           (* self.nto_renamings *)
}.
Definition pstate0 : pstate := mk_pstate [] [].

Fixpoint lookup_otn (it : item) (l : list (item * string)) : option string :=
  match l with
  | [] => None
  | (k, v) :: l' => if item_eqb it k then Some v else lookup_otn it l'
  end.
Fixpoint lookup_nto (n : string) (l : list (string * item)) : option item :=
  match l with
  | [] => None
  | (k, v) :: l' => if String.eqb n k then Some v else lookup_nto n l'
  end.

(* get_pddl_name / get_item_named ; None = UPException *)
Definition get_pddl_name (st : pstate) (it : item) : option string := lookup_otn it (otn st).
Definition get_item_named (st : pstate) (n : string) : option item := lookup_nto n (nto st).

Definition taken (st : pstate) (n : string) : bool := mem_str n (map fst (nto st)).   (* n in self.nto_renamings *)

(* PDDLWriter._get_mangled_name(item).
   [c]      the tables with c_kws = self.pddl_keywords,
   [hier]   the condition under which a user type may not be called "object":
            self.problem_kind.has_hierarchical_typing() or len(self.problem.user_types) > 1   (since 6b472be),
   [pnames] the names for which self.problem.has_name(n) is True (the problem is not edited while the writer lives).
   Result: the name and the new dictionaries; None only when a loop runs out of fuel. *)
Definition pddl_mangled (c : cfg) (hier : bool) (pnames : list string) (st : pstate) (it : item)
  : option (string * pstate) :=
  match lookup_otn it (otn st) with
  | Some n => Some (n, st)
  | None =>
      match pddl_name c it with
      | None => None
      | Some t0 =>
          let tmp := if is_type it && hier && String.eqb t0 "object" then t0 ++ "_" else t0 in
          let r :=
            if String.eqb tmp (it_name it) && negb (taken st tmp) then Some tmp
            else first_free (fun n => mem_str n pnames || taken st n) (counter_cand tmp) 0
                            (S (List.length pnames + List.length (nto st))) in
          match r with
          | None => None
          | Some new => Some (new, mk_pstate (otn st ++ [(it, new)]) (nto st ++ [(new, it)]))
          end
      end
  end.

(* a history of name requests *)
Fixpoint pddl_run_from (c : cfg) (hier : bool) (pnames : list string) (st : pstate) (reqs : list item)
  : option (list string * pstate) :=
  match reqs with
  | [] => Some ([], st)
  | it :: rest =>
      match pddl_mangled c hier pnames st it with
      | None => None
      | Some (n, st') =>
          match pddl_run_from c hier pnames st' rest with
          | None => None
          | Some (ns, st'') => Some (n :: ns, st'')
          end
      end
  end.
Definition pddl_run c hier pnames reqs := pddl_run_from c hier pnames pstate0 reqs.

(* ------------------------------------------------------------------ ANML *)
Record vcfg := mk_vcfg {
  v_first : cclass;                    (* r"^[C1][C2]*" *)
  v_rest : cclass;
  v_full : bool                        (* true: re.fullmatch (whole name); false: re.match (a prefix is enough) *)
}.

(* _is_valid_anml_name(name) *)
Definition anml_is_valid (v : vcfg) (kws : list string) (s : string) : bool :=
  match s with
  | EmptyString => false
  | String ch r => in_class (v_first v) ch && (if v_full v then sall (in_class (v_rest v)) r else true)
  end && negb (mem_str s kws).

Definition amap := list (item * string).     (* names_mapping, in insertion order *)

Definition bool_item : item := mk_item "_BoolType" 0 "".
Definition int_item : item := mk_item "_IntType" 0 "".
Definition real_item : item := mk_item "_RealType" 0 "".

(* names_mapping[BoolType()] = "boolean"; [IntType()] = "integer"; [RealType()] = "float" *)
Definition anml_init (builtin : list string) : amap :=
  combine [bool_item; int_item; real_item] builtin.

(* d[k] = v *)
Fixpoint set_map (k : item) (v : string) (m : amap) : amap :=
  match m with
  | [] => [(k, v)]
  | (k', v') :: m' => if item_eqb k k' then (k, v) :: m' else (k', v') :: set_map k v m'
  end.

Definition values (m : amap) : list string := map snd m.

(* one iteration of the pre-fill loops:
     if _is_valid_anml_name(x.name) and x.name not in names_mapping.values(): names_mapping[x] = x.name *)
Definition anml_prefill (v : vcfg) (c : cfg) (m : amap) (it : item) : amap :=
  if anml_is_valid v (c_kws c) (it_name it) && negb (mem_str (it_name it) (values m))
  then set_map it (it_name it) m else m.

(* _get_anml_name(item, names_mapping).  Bounded int/real types that are not yet in the mapping get a rendered
   range ("integer [0, 5]"); they are not named model elements and are not modelled: None. *)
Definition anml_get_name (c : cfg) (m : amap) (it : item) : option (string * amap) :=
  match lookup_otn it m with
  | Some n => Some (n, m)
  | None =>
      if is_numtype it then None
      else match base_name c it with
           | None => None
           | Some new =>
               match first_free (fun n => mem_str n (values m)) (counter_cand new) 0 (S (List.length m)) with
               | None => None
               | Some test => Some (test, set_map it test m)
               end
           end
  end.

Inductive aop :=
| APre (it : item)          (* an element met by a pre-fill loop *)
| AReq (it : item).         (* a call _get_anml_name(it, names_mapping) *)

Fixpoint anml_run_from (v : vcfg) (c : cfg) (m : amap) (ops : list aop) : option (list (option string) * amap) :=
  match ops with
  | [] => Some ([], m)
  | APre it :: rest =>
      match anml_run_from v c (anml_prefill v c m it) rest with
      | None => None
      | Some (ns, m') => Some (None :: ns, m')
      end
  | AReq it :: rest =>
      match anml_get_name c m it with
      | None => None
      | Some (n, m1) =>
          match anml_run_from v c m1 rest with
          | None => None
          | Some (ns, m') => Some (Some n :: ns, m')
          end
      end
  end.
Definition anml_run v c builtin ops := anml_run_from v c (anml_init builtin) ops.

(* name -> item for ANML: the writer has no such method; this is the specification-level inverse of the mapping *)
Fixpoint anml_item_named (n : string) (m : amap) : option item :=
  match m with
  | [] => None
  | (k, v) :: m' => if String.eqb n v then Some k else anml_item_named n m'
  end.

(* ------------------------------------------------------------------ target-language identifiers (specification) *)
Definition is_lower_letter (c : ascii) : bool := in_range ("a"%char, "z"%char) c.
Definition is_upper_letter (c : ascii) : bool := in_range ("A"%char, "Z"%char) c.
Definition is_letter (c : ascii) : bool := is_lower_letter c || is_upper_letter c.
Definition is_digit (c : ascii) : bool := in_range ("0"%char, "9"%char) c.
Definition is_us (c : ascii) : bool := Ascii.eqb c "_"%char.

(* ANML identifier: [a-zA-Z][a-zA-Z0-9_]*   PDDL name: [a-zA-Z][a-zA-Z0-9_-]*   PDDL variable: "?" name *)
Definition anml_rest (c : ascii) : bool := is_letter c || is_digit c || is_us c.
Definition pddl_rest (c : ascii) : bool := anml_rest c || Ascii.eqb c "-"%char.

Definition ident (rest : ascii -> bool) (s : string) : bool :=
  match s with String c r => is_letter c && sall rest r | EmptyString => false end.
Definition anml_ident := ident anml_rest.
Definition pddl_ident := ident pddl_rest.
Definition pddl_ident_for (it : item) (s : string) : bool :=
  if is_paramvar it then match s with String c r => Ascii.eqb c "?"%char && pddl_ident r | EmptyString => false end
  else pddl_ident s.

Definition no_upper (s : string) : bool := sall (fun c => negb (is_upper_letter c)) s.

(* ------------------------------------------------------------------ side conditions on the tables
   (all boolean, so Props/C38.v discharges them for the generated tables by computation) *)
Definition all_ascii : list ascii := map ascii_of_nat (seq 0 256).

Definition class_sub (cl : cclass) (p : ascii -> bool) : bool :=
  forallb (fun ch => implb (in_class cl ch) (p ch)) all_ascii.

Definition letter_ok (c : cfg) (l : string) : bool :=
  match l with
  | String ch r => is_letter ch && in_class (c_keep c) ch && sall (in_class (c_keep c)) r
  | EmptyString => false
  end.

Definition has_us (s : string) : bool := negb (sall (fun c => negb (is_us c)) s).
Definition starts_qmark (s : string) : bool :=
  match s with String c _ => Ascii.eqb c "?"%char | EmptyString => false end.
Definition kw_ok (k : string) : bool := negb (has_us k) && negb (starts_qmark k).

(* the tables make the shared body produce identifiers of the language whose rest-class is [rest] *)
Definition tables_ok (c : cfg) (rest : ascii -> bool) : bool :=
  class_sub (c_start c) is_letter
  && class_sub (c_start c) (in_class (c_keep c))
  && class_sub (c_keep c) rest
  && sall rest (c_repl c)
  && rest "_"%char
  && forallb (fun kv => letter_ok c (snd kv)) (c_letters c)
  && letter_ok c (c_default c).

(* additionally for PDDL: nothing re-introduces an upper-case letter after name.lower() *)
Definition tables_lower_ok (c : cfg) : bool :=
  c_lower c && no_upper (c_repl c) && forallb (fun kv => no_upper (snd kv)) (c_letters c) && no_upper (c_default c).

(* _is_valid_anml_name decides exactly "ANML identifier and not a keyword" *)
Definition vcfg_ok (v : vcfg) : bool :=
  v_full v
  && forallb (fun ch => Bool.eqb (in_class (v_first v) ch) (is_letter ch)) all_ascii
  && forallb (fun ch => Bool.eqb (in_class (v_rest v) ch) (anml_rest ch)) all_ascii.

Fixpoint nodup_str (l : list string) : bool :=
  match l with [] => true | x :: r => negb (mem_str x r) && nodup_str r end.
(* the three built-in type names are pairwise different *)
Definition builtin_ok (b : list string) : bool := Nat.eqb (List.length b) 3 && nodup_str b.

(* ------------------------------------------------------------------ the writers' actual tables (Gen/Gen_Keywords.v) *)
Require Import UPV.Gen.Gen_Keywords.

(* [kws] is the writer's self.pddl_keywords: (a copy of) GENERAL plus the tables its __init__ adds; the theorems
   cover every subset of Gen_Keywords.pddl_all_keywords *)
Definition pddl_cfg (kws : list string) : cfg :=
  mk_cfg kws pddl_start_class pddl_keep_class pddl_repl pddl_initial_letter pddl_default_letter true.
Definition anml_cfg : cfg :=
  mk_cfg anml_keywords anml_start_class anml_keep_class anml_repl anml_initial_letter anml_default_letter false.
Definition anml_vcfg : vcfg := mk_vcfg anml_valid_first_class anml_valid_rest_class anml_valid_full.

(* PDDLWriter.__init__ : the keyword set of a writer whose problem has the features [has]
   ("processes", "events", "trajectory_constraints", "durative_actions", "contingent"); the rules come from the source *)
Definition rule_applies (has : string -> bool) (r : option (list string) * list string) : bool :=
  match fst r with None => true | Some fs => existsb has fs end.
Definition kws_of_rules (base : list string) (rules : list (option (list string) * list string)) (has : string -> bool)
  : list string :=
  (base ++ List.concat (map (fun r => if rule_applies has r then snd r else []) rules))%list.
Definition pddl_writer_kws (has : string -> bool) : list string := kws_of_rules pddl_base_keywords pddl_keyword_rules has.

(* SPECIFICATION (pinned by hand, independent of the source): the words reserved by PDDL for a problem with the
   features [has].  Props/C38.v proves that the writer's keyword set always contains them. *)
Definition pddl_reserved_spec (has : string -> bool) : list string :=
  (["action"; "adl"; "and"; "assign"; "conditional-effects"; "constants"; "contingent";
     "continuous-effects"; "decrease"; "define"; "derived"; "derived-predicates";
     "disjunctive-preconditions"; "domain"; "durative-actions"; "effect"; "either"; "equality";
     "existential-preconditions"; "exists"; "fluents"; "forall"; "goal"; "imply"; "increase";
     "init"; "maximize"; "metric"; "minimize"; "negative-preconditions"; "not"; "number";
     "objects"; "or"; "parameters"; "precondition"; "predicates"; "problem";
     "quantified-preconditions"; "requirements"; "scale-down"; "scale-up"; "strips"; "time";
     "timed-initial-effects"; "timed-initial-literals"; "total-cost"; "total-time"; "types";
     "typing"; "universal-preconditions"; "when"]
   ++ (if has "processes" || has "events" then ["event"; "process"] else [])
   ++ (if has "durative_actions" then ["all"; "at"; "condition"; "duration"; "durative-action"; "end"; "over"; "start"] else [])
   ++ (if has "trajectory_constraints" then
         ["always"; "always-within"; "at-most-once"; "constraints"; "hold-after"; "hold-during";
          "is-violated"; "preference"; "preferences"; "sometime"; "sometime-after"; "sometime-before";
          "within"] else [])
   ++ (if has "contingent" then ["observe"; "oneof"; "unknown"] else []))%list.

Definition subset_b (a b : list string) : bool := forallb (fun k => mem_str k b) a.
