(* Model of unified_planning/engines/interpreted_functions_planner.py : InterpretedFunctionsPlanner._solve
   -- the refinement loop "compile the problem with the current knowledge (InterpretedFunctionsRemover), solve the
   compiled problem with the underlying engine, map the plan back, validate it on the ORIGINAL problem, and, when it is
   not valid, add the interpreted-function values observed by the validator to the knowledge".

   Definitions only.  Everything the loop talks to is a Section Variable:
     [planner k]   = engine.solve(InterpretedFunctionsRemover(k).compile(problem).problem), the plan already mapped
                     back with comp_res.map_back_action_instance (timeouts are out of scope);
     [validate p]  = SequentialPlanValidator().validate(problem, p): verdict VALID? and the
                     `calculated_interpreted_functions` of the validation;
     [update k o]  = knowledge.update(o);   [size k] = len(knowledge). *)
From Coq Require Import List Arith Bool.
Import ListNotations.
Require Import UPV.Model.Oversub.   (* status, positive *)

Section IFP.
  Variable plan : Type.
  Variable K : Type.          (* knowledge : Dict[interpreted-function application, value] *)
  Variable Obs : Type.          (* one validation's calculated_interpreted_functions *)
  Variable planner : K -> status * option plan.
  Variable validate : plan -> bool * Obs.
  Variable update : K -> Obs -> K.
  Variable size : K -> nat.

  Inductive outcome :=
  | Returned (st : status) (p : option plan)   (* a PlanGenerationResult *)
  | Raised                                     (* UPException "Internal Error: ... was not able to retrieve InterpretedFunctions values" *)
  | AssertFailed                               (* `assert res.plan is not None` *)
  | OutOfFuel.                                 (* artefact of the model: the `while True` loop was cut *)

  (* one turn of `while True` per unit of fuel *)
  Fixpoint ifp_loop (fuel : nat) (k : K) : outcome :=
    match fuel with
    | O => OutOfFuel
    | S fuel' =>
        let '(st, pl) := planner k in
        if positive st then
          match pl with
          | None => AssertFailed
          | Some p =>
              let '(ok, o) := validate p in
              if ok then Returned st (Some p)
              else let k' := update k o in
                   if size k <? size k' then ifp_loop fuel' k' else Raised
          end
        else Returned st None
    end.

  (* the knowledge handed to the compiler at each turn (observable: one compile + one engine call each) *)
  Fixpoint ifp_queries (fuel : nat) (k : K) : list K :=
    match fuel with
    | O => []
    | S fuel' =>
        let '(st, pl) := planner k in
        if positive st then
          match pl with
          | None => [k]
          | Some p =>
              let '(ok, o) := validate p in
              if ok then [k]
              else let k' := update k o in
                   if size k <? size k' then k :: ifp_queries fuel' k' else [k]
          end
        else [k]
    end.
End IFP.

Arguments Returned {plan}.
Arguments Raised {plan}.
Arguments AssertFailed {plan}.
Arguments OutOfFuel {plan}.
