(* Model of unified_planning/engines/oversubscription_planner.py : OversubscriptionPlanner._solve
   (and of the way unified_planning/engines/meta_engine.py wraps the underlying engine: the meta engine owns one
   engine instance and calls its `solve` on derived problems; the engine is a Section Variable here).

   Definitions only.  Soft goals are numbered 0..n-1 (Python: `goals = list(qm.goals.items())`, the keys of a dict,
   hence pairwise distinct); a subset of them is a Boolean mask of length n (bit i = "goal i is in the subset").
   Gains are exact rationals (Qc). *)
From Coq Require Import List ZArith NArith QArith Qcanon Bool.
Import ListNotations.
Require Import UPV.Core.Expr UPV.Core.Eval.

(* unified_planning.engines.results.PlanGenerationResultStatus *)
Inductive status :=
| SolvedSat | SolvedOpt | UnsolvProven | UnsolvIncomplete | Timeout | Memout | InternalError | Unsupported | Intermediate.

Definition status_eqb (a b : status) : bool :=
  match a, b with
  | SolvedSat, SolvedSat | SolvedOpt, SolvedOpt | UnsolvProven, UnsolvProven | UnsolvIncomplete, UnsolvIncomplete
  | Timeout, Timeout | Memout, Memout | InternalError, InternalError | Unsupported, Unsupported
  | Intermediate, Intermediate => true
  | _, _ => false
  end.

(* results.POSITIVE_OUTCOMES *)
Definition positive (s : status) : bool := match s with SolvedSat | SolvedOpt => true | _ => false end.

(* the statuses after which _solve sets `incomplete = True` *)
Definition marks_incomplete (s : status) : bool :=
  match s with Memout | InternalError | Unsupported | UnsolvIncomplete => true | _ => false end.

(* the remaining non-positive, non-timeout statuses: the loop silently goes on, i.e. it takes the answer as a proof
   that the subset is unachievable (UNSOLVABLE_PROVEN; INTERMEDIATE is never produced by a oneshot planner) *)
Definition silent (s : status) : bool := match s with UnsolvProven | Intermediate => true | _ => false end.

Definition mask := list bool.

(* itertools.combinations(range n, r), as masks, in itertools' order (index tuples in lexicographic order):
   the combinations containing index 0 come first *)
Fixpoint combos (n r : nat) : list mask :=
  match n with
  | O => match r with O => [[]] | S _ => [] end
  | S n' =>
      (match r with O => [] | S r' => map (cons true) (combos n' r') end) ++ map (cons false) (combos n' r)
  end.

(* utils.powerset: chain.from_iterable(combinations(s, r) for r in range(len(s) + 1)) *)
Definition powerset (n : nat) : list mask := flat_map (combos n) (seq 0 (S n)).

(* `weight += c` over the members of the subset *)
Fixpoint weight (ws : list Qc) (m : mask) : Qc :=
  match ws, m with
  | w :: ws', b :: m' => if b then Qcplus w (weight ws' m') else weight ws' m'
  | _, _ => zq 0
  end.

(* q.sort(reverse=True, key=lambda t: t[0]) : stable, descending.  Insertion from the right: a new element goes
   before the first element whose weight is not strictly greater, so equal weights keep their original order. *)
Fixpoint insert_desc (x : Qc * mask) (l : list (Qc * mask)) : list (Qc * mask) :=
  match l with
  | [] => [x]
  | y :: l' => if qc_ltb (fst x) (fst y) then y :: insert_desc x l' else x :: l
  end.

Definition sort_desc (l : list (Qc * mask)) : list (Qc * mask) := fold_right insert_desc [] l.

Definition queue (ws : list Qc) : list (Qc * mask) :=
  sort_desc (map (fun m => (weight ws m, m)) (powerset (length ws))).

Section Loop.
  Variable plan : Type.
  (* self.engine.solve(new_problem) where new_problem = problem.clone() without metrics, plus, for every soft goal g,
     the goal `g` when bit i of the mask is set and `Not(g)` otherwise *)
  Variable planner : mask -> status * option plan.

  (* the `for t in q` loop; [nogoals] = (len(goals) == 0) *)
  Fixpoint os_loop (nogoals incomplete : bool) (q : list (Qc * mask)) : status * option plan :=
    match q with
    | [] => (if incomplete then UnsolvIncomplete else UnsolvProven, None)
    | (_, m) :: q' =>
        let '(st, pl) := planner m in
        if positive st then (if incomplete || nogoals then SolvedSat else SolvedOpt, pl)
        else match st with
             | Timeout => (Timeout, None)
             | _ => os_loop nogoals (incomplete || marks_incomplete st) q'
             end
    end.

  (* the subsets handed to the engine, in order (observable: one engine call each) *)
  Fixpoint os_queries (q : list (Qc * mask)) : list mask :=
    match q with
    | [] => []
    | (_, m) :: q' =>
        let st := fst (planner m) in
        if positive st then [m]
        else match st with Timeout => [m] | _ => m :: os_queries q' end
    end.

  Definition oversub_solve (ws : list Qc) : status * option plan :=
    os_loop (Nat.eqb (length ws) 0) false (queue ws).

  Definition oversub_queries (ws : list Qc) : list mask := os_queries (queue ws).
End Loop.

(* ------------------------------------------------------------------ what the derived problems mean
   [valid_hard p]  : plan p is valid for the problem without its metric (the hard goals);
   [achieved p]    : the truth value of every soft goal in the final state of p (None: p is not executable, or some
                     soft goal has no truth value there -- then neither `g` nor `Not(g)` holds and the metric has no
                     value). *)
Fixpoint mask_eqb (a b : mask) : bool :=
  match a, b with
  | [], [] => true
  | x :: a', y :: b' => Bool.eqb x y && mask_eqb a' b'
  | _, _ => false
  end.

Section Meaning.
  Variable plan : Type.
  Variable valid_hard : plan -> bool.
  Variable achieved : plan -> option mask.

  (* validity for the derived problem of a subset: hard goals, and exactly the soft goals of the mask hold *)
  Definition valid_sub (m : mask) (p : plan) : bool :=
    valid_hard p && match achieved p with Some a => mask_eqb a m | None => false end.

  (* the oversubscription gain of the final state of p *)
  Definition gain (ws : list Qc) (p : plan) : option Qc := option_map (weight ws) (achieved p).
End Meaning.

(* ------------------------------------------------------------------ the derived problems, concretely
   (over Planning/Problem.v): `new_problem = problem.clone(); clear_quality_metrics(); add_goal(g | Not(g))` *)
Require Import UPV.Planning.Problem UPV.Planning.Sem UPV.Planning.SeqValidate.

Fixpoint soft_lits (gs : list expr) (m : mask) : list expr :=
  match gs, m with
  | g :: gs', b :: m' => (if b then g else ENot g) :: soft_lits gs' m'
  | _, _ => []
  end.

Definition with_soft (P : problem) (gs : list expr) (m : mask) : problem :=
  {| p_objs := p_objs P; p_ifun := p_ifun P; p_fluents := p_fluents P; p_actions := p_actions P;
     p_goals := p_goals P ++ soft_lits gs m; p_invs := p_invs P |}.

(* truth value of every soft goal in a state; None when one of them has no truth value *)
Fixpoint truths (sc : bool) (I : interp) (gs : list expr) : option mask :=
  match gs with
  | [] => Some []
  | g :: gs' =>
      match eval sc g I, truths sc I gs' with
      | Some (VBool b), Some r => Some (b :: r)
      | _, _ => None
      end
  end.

Definition achieved_in (sc : bool) (P : problem) (s0 : state) (gs : list expr) (pl : list (N * list value))
  : option mask :=
  match run P (spec_step sc P) s0 pl with
  | Some s => truths sc (mk_interp P s []) gs
  | None => None
  end.
