(* EXPECTATION of the hand-written walker models (Walkers/{Simplify,NnfDnf,Subst,TypeInfer,Linear}.v over Core/Expr.v)
   about the DISPATCH STRUCTURE of the Python walkers: which OperatorKind members exist, which of them Core/Expr.v has a
   constructor for, and which handler (defining class "." method) every walker applies to every operator.

   This file is hand-written and does not depend on the code.  coq/theories/Gen/Gen_Walkers.v is regenerated from the
   current source by tools/gen_walkers.py on every run; Props/C11_dispatch.v, C12_dispatch.v, C13_dispatch.v,
   C15_dispatch.v and C17_dispatch.v state that the regenerated tables EQUAL the literals below.  A re-mapped handler, a
   dropped handler (so that an inherited one applies), a changed @handles list or a NEW OperatorKind member therefore breaks
   a checked equality instead of going unnoticed by the differential correspondence (whose generators only produce the
   operators they know about).

   Each entry is commented with the Gallina definition (function: match branch) that models the handler.
   To update after a deliberate change of the code: run  tools/gen_walkers.py --json , compare, change the MODEL first
   (the branch named in the comment), then the literal here. *)
From Coq Require Import List String Bool Permutation ZArith NArith.
Import ListNotations.
Require Import UPV.Core.Expr UPV.Core.Eval.
Local Open Scope string_scope.

Definition table := list (string * string).

Fixpoint lookup {A : Type} (k : string) (l : list (string * A)) : option A :=
  match l with
  | [] => None
  | (k', v) :: r => if String.eqb k k' then Some v else lookup k r
  end.

Definition mem (x : string) (l : list string) : bool := existsb (String.eqb x) l.

(* ------------------------------------------------------------------------------------------------------------------
   (a) the constructors of Core/Expr.v and the OperatorKind member each one stands for *)

(* total by Coq's exhaustiveness check: a constructor added to [expr] without a line here does not compile *)
Definition op_of (e : expr) : string :=
  match e with
  | EBool _ => "BOOL_CONSTANT"
  | EInt _ => "INT_CONSTANT"
  | EReal _ => "REAL_CONSTANT"
  | EObj _ => "OBJECT_EXP"
  | EParam _ => "PARAM_EXP"
  | EVar _ _ => "VARIABLE_EXP"
  | EFluent _ _ => "FLUENT_EXP"
  | EIFun _ _ => "INTERPRETED_FUNCTION_EXP"
  | EAnd _ => "AND"
  | EOr _ => "OR"
  | ENot _ => "NOT"
  | EImplies _ _ => "IMPLIES"
  | EIff _ _ => "IFF"
  | EExists _ _ => "EXISTS"
  | EForall _ _ => "FORALL"
  | EPlus _ => "PLUS"
  | EMinus _ _ => "MINUS"
  | ETimes _ => "TIMES"
  | EDiv _ _ => "DIV"
  | ELe _ _ => "LE"
  | ELt _ _ => "LT"
  | EEquals _ _ => "EQUALS"
  | EAlways _ => "ALWAYS"
  | ESometime _ => "SOMETIME"
  | ESometimeBefore _ _ => "SOMETIME_BEFORE"
  | ESometimeAfter _ _ => "SOMETIME_AFTER"
  | EAtMostOnce _ => "AT_MOST_ONCE"
  end.

Definition tt_ : expr := EBool true.
(* one witness per constructor, in the order of the Inductive *)
Definition expr_witnesses : list (string * expr) :=
  [ ("EBool", EBool true)
  ; ("EInt", EInt 0%Z)
  ; ("EReal", EReal (zq 0%Z))
  ; ("EObj", EObj 0%N)
  ; ("EParam", EParam 0%N)
  ; ("EVar", EVar 0%N 0%N)
  ; ("EFluent", EFluent 0%N [])
  ; ("EIFun", EIFun 0%N [])
  ; ("EAnd", EAnd [])
  ; ("EOr", EOr [])
  ; ("ENot", ENot tt_)
  ; ("EImplies", EImplies tt_ tt_)
  ; ("EIff", EIff tt_ tt_)
  ; ("EExists", EExists [] tt_)
  ; ("EForall", EForall [] tt_)
  ; ("EPlus", EPlus [])
  ; ("EMinus", EMinus tt_ tt_)
  ; ("ETimes", ETimes [])
  ; ("EDiv", EDiv tt_ tt_)
  ; ("ELe", ELe tt_ tt_)
  ; ("ELt", ELt tt_ tt_)
  ; ("EEquals", EEquals tt_ tt_)
  ; ("EAlways", EAlways tt_)
  ; ("ESometime", ESometime tt_)
  ; ("ESometimeBefore", ESometimeBefore tt_ tt_)
  ; ("ESometimeAfter", ESometimeAfter tt_ tt_)
  ; ("EAtMostOnce", EAtMostOnce tt_) ].

(* constructor name -> OperatorKind member name *)
Definition expr_operator_names : list (string * string) :=
  map (fun p => (fst p, op_of (snd p))) expr_witnesses.

Definition modelled_operators : list string := map snd expr_operator_names.

(* OperatorKind members WITHOUT a constructor in Core/Expr.v: no model says anything about expressions containing them
   (timing / presence expressions of temporal and scheduling problems, agent-qualified fluents of multi-agent problems) *)
Definition unmodelled_operators : list string := ["TIMING_EXP"; "PRESENT_EXP"; "DOT"].

(* every expression of the IR is tagged with a modelled operator (all e: by case analysis on the constructor) *)
Lemma op_of_modelled : forall e : expr, In (op_of e) modelled_operators.
Proof.
  intro e; destruct e; vm_compute; tauto.
Qed.

(* and every modelled operator is the tag of some expression *)
Lemma modelled_has_witness : forall o, In o modelled_operators -> exists e : expr, op_of e = o.
Proof.
  intros o H. unfold modelled_operators, expr_operator_names in H.
  rewrite map_map in H. apply in_map_iff in H. destruct H as [p [Hp _]]. exists (snd p). exact Hp.
Qed.

Fixpoint nodupb (l : list string) : bool :=
  match l with
  | [] => true
  | x :: r => negb (mem x r) && nodupb r
  end.

Definition same_members (a b : list string) : bool :=
  forallb (fun x => mem x b) a && forallb (fun x => mem x a) b.

(* [covers kinds]: the given member list is duplicate free and is exactly modelled ++ unmodelled as a set *)
Definition covers (kinds : list string) : bool :=
  nodupb kinds && nodupb (modelled_operators ++ unmodelled_operators)
  && same_members kinds (modelled_operators ++ unmodelled_operators).

Lemma mem_In : forall x l, mem x l = true <-> In x l.
Proof.
  intros x l. unfold mem. rewrite existsb_exists. split.
  - intros [y [Hy He]]. apply String.eqb_eq in He. subst. exact Hy.
  - intros H. exists x. split; [exact H | apply String.eqb_refl].
Qed.

Lemma nodupb_NoDup : forall l, nodupb l = true -> NoDup l.
Proof.
  induction l as [|x r IH]; simpl; intros H.
  - constructor.
  - apply andb_true_iff in H. destruct H as [H1 H2]. constructor.
    + intro Hin. apply mem_In in Hin. rewrite Hin in H1. discriminate.
    + apply IH. exact H2.
Qed.

(* the Boolean test decides: the OperatorKind members are a permutation of modelled ++ unmodelled *)
Lemma covers_sound : forall kinds, covers kinds = true ->
  Permutation kinds (modelled_operators ++ unmodelled_operators).
Proof.
  intros kinds H. unfold covers in H.
  apply andb_true_iff in H. destruct H as [H H3]. apply andb_true_iff in H. destruct H as [H1 H2].
  unfold same_members in H3. apply andb_true_iff in H3. destruct H3 as [Ha Hb].
  rewrite forallb_forall in Ha, Hb.
  apply NoDup_Permutation.
  - apply nodupb_NoDup. exact H1.
  - apply nodupb_NoDup. exact H2.
  - intro x. split; intro Hx.
    + apply mem_In. apply Ha. exact Hx.
    + apply mem_In. apply Hb. exact Hx.
Qed.

(* [handled disp w e]: the table of walker [w] sends the operator of [e] to a handler other than Walker.walk_error *)
Definition handled (disp : list (string * table)) (w : string) (e : expr) : bool :=
  match lookup w disp with
  | None => false
  | Some t => match lookup (op_of e) t with
              | None => false
              | Some h => negb (String.eqb h "Walker.walk_error")
              end
  end.

(* the shape summaries (sorted manager constructors / self helpers / <Class>.super calls) of the listed handlers *)
Definition shapes_for (hs : list string) (shapes : list (string * list string)) : list (string * option (list string)) :=
  map (fun h => (h, lookup h shapes)) hs.
Definition expect_shapes (exp : list (string * list string)) : list (string * option (list string)) :=
  map (fun p => (fst p, Some (snd p))) exp.

(* the OperatorKind members in declaration order, as the models were written against *)
Definition expected_operator_kinds : list string :=
  [ "AND"; "OR"; "NOT"; "IMPLIES"; "IFF"; "EXISTS"; "FORALL"; "FLUENT_EXP"; "INTERPRETED_FUNCTION_EXP"; "PARAM_EXP"; "VARIABLE_EXP"; "OBJECT_EXP"; "TIMING_EXP"; "PRESENT_EXP"; "BOOL_CONSTANT"; "INT_CONSTANT"; "REAL_CONSTANT"; "PLUS"; "MINUS"; "TIMES"; "DIV"; "LE"; "LT"; "EQUALS"; "ALWAYS"; "SOMETIME"; "SOMETIME_BEFORE"; "SOMETIME_AFTER"; "AT_MOST_ONCE"; "DOT" ].

(* ------------------------------------------------------------------------------------------------------------------
   (b) expected dispatch tables.  Left: content of Walker.functions (operator -> defining class "." method) as computed
   by MetaNodeTypeHandler + Walker.__init__; right: the Gallina branch that models the handler. *)

(* Simplifier -- modelled by Walkers/Simplify.v (Fixpoint simp, inner fix go)  [C11] *)
Definition expected_simplifier : table :=
  [ ("AND", "Simplifier.walk_and")                                        (* simp: EAnd l => walk_junct true (map go l) *)
  ; ("OR", "Simplifier.walk_or")                                          (* simp: EOr l => walk_junct false (map go l) *)
  ; ("NOT", "Simplifier.walk_not")                                        (* simp: ENot a => walk_not (go a) *)
  ; ("IMPLIES", "Simplifier.walk_implies")                                (* simp: EImplies a b => walk_implies (go a) (go b) *)
  ; ("IFF", "Simplifier.walk_iff")                                        (* simp: EIff a b => walk_iff (go a) (go b) *)
  ; ("EXISTS", "Simplifier.walk_exists")                                  (* simp: EExists vs a => walk_exists G resimp vs (go a) *)
  ; ("FORALL", "Simplifier.walk_forall")                                  (* simp: EForall vs a => walk_forall G vs (go a) *)
  ; ("FLUENT_EXP", "Simplifier.walk_fluent_exp")                          (* simp: EFluent f l => walk_fluent G f (map go l) *)
  ; ("INTERPRETED_FUNCTION_EXP", "Simplifier.walk_interpreted_function_exp") (* simp: EIFun f l => walk_ifun G f (map go l) *)
  ; ("PARAM_EXP", "Simplifier.walk_identity")                             (* simp: EBool _ | EInt _ | EReal _ | EObj _ | EParam _ | EVar _ _ => e *)
  ; ("VARIABLE_EXP", "Simplifier.walk_identity")                          (* simp: EBool _ | EInt _ | EReal _ | EObj _ | EParam _ | EVar _ _ => e *)
  ; ("OBJECT_EXP", "Simplifier.walk_identity")                            (* simp: EBool _ | EInt _ | EReal _ | EObj _ | EParam _ | EVar _ _ => e *)
  ; ("TIMING_EXP", "Simplifier.walk_identity")                            (* NOT MODELLED: TIMING_EXP has no constructor in Core/Expr.v (see unmodelled_operators) *)
  ; ("PRESENT_EXP", "Simplifier.walk_identity")                           (* NOT MODELLED: PRESENT_EXP has no constructor in Core/Expr.v (see unmodelled_operators) *)
  ; ("BOOL_CONSTANT", "Simplifier.walk_identity")                         (* simp: EBool _ | EInt _ | EReal _ | EObj _ | EParam _ | EVar _ _ => e *)
  ; ("INT_CONSTANT", "Simplifier.walk_identity")                          (* simp: EBool _ | EInt _ | EReal _ | EObj _ | EParam _ | EVar _ _ => e *)
  ; ("REAL_CONSTANT", "Simplifier.walk_identity")                         (* simp: EBool _ | EInt _ | EReal _ | EObj _ | EParam _ | EVar _ _ => e *)
  ; ("PLUS", "Simplifier.walk_plus")                                      (* simp: EPlus l => walk_arith false (map go l) *)
  ; ("MINUS", "Simplifier.walk_minus")                                    (* simp: EMinus a b => walk_minus (go a) (go b) *)
  ; ("TIMES", "Simplifier.walk_times")                                    (* simp: ETimes l => walk_arith true (map go l) *)
  ; ("DIV", "Simplifier.walk_div")                                        (* simp: EDiv a b => walk_div (go a) (go b) *)
  ; ("LE", "Simplifier.walk_le")                                          (* simp: ELe a b => walk_le (go a) (go b) *)
  ; ("LT", "Simplifier.walk_lt")                                          (* simp: ELt a b => walk_lt (go a) (go b) *)
  ; ("EQUALS", "Simplifier.walk_equals")                                  (* simp: EEquals a b => walk_equals G (go a) (go b) *)
  ; ("ALWAYS", "Simplifier.walk_always")                                  (* simp: EAlways a => walk_always (go a) *)
  ; ("SOMETIME", "Simplifier.walk_sometime")                              (* simp: ESometime a => walk_sometime (go a) *)
  ; ("SOMETIME_BEFORE", "Simplifier.walk_sometime_before")                (* simp: ESometimeBefore a b => walk_sometime_before (go a) (go b) *)
  ; ("SOMETIME_AFTER", "Simplifier.walk_sometime_after")                  (* simp: ESometimeAfter a b => walk_sometime_after (go a) (go b) *)
  ; ("AT_MOST_ONCE", "Simplifier.walk_at_most_once")                      (* simp: EAtMostOnce a => walk_at_most_once (go a) *)
  ; ("DOT", "Simplifier.walk_dot")                                        (* NOT MODELLED: DOT has no constructor in Core/Expr.v (see unmodelled_operators) *)
  ].

(* IdentityDagWalker -- modelled by Walkers/Subst.v (Fixpoint walk: the rebuilt node) ; the same rebuilds in Simplify.v subst and Subst.v topdown_replace  [C13] *)
Definition expected_identitydagwalker : table :=
  [ ("AND", "IdentityDagWalker.walk_and")                                 (* walk: EAnd l => mkAnd (map (walk s) l) *)
  ; ("OR", "IdentityDagWalker.walk_or")                                   (* walk: EOr l => mkOr (map (walk s) l) *)
  ; ("NOT", "IdentityDagWalker.walk_not")                                 (* walk: ENot a => mkNot (walk s a) *)
  ; ("IMPLIES", "IdentityDagWalker.walk_implies")                         (* walk: EImplies a b => EImplies (walk s a) (walk s b) *)
  ; ("IFF", "IdentityDagWalker.walk_iff")                                 (* walk: EIff a b => EIff (walk s a) (walk s b) *)
  ; ("EXISTS", "IdentityDagWalker.walk_exists")                           (* walk: EExists vs a => EExists vs (... body walked by a fresh Substituter with filter_map s vs ...) *)
  ; ("FORALL", "IdentityDagWalker.walk_forall")                           (* walk: EForall vs a => EForall vs (... body walked by a fresh Substituter with filter_map s vs ...) *)
  ; ("FLUENT_EXP", "IdentityDagWalker.walk_fluent_exp")                   (* walk: EFluent f args => EFluent f (map (walk s) args) *)
  ; ("INTERPRETED_FUNCTION_EXP", "IdentityDagWalker.walk_interpreted_function_exp") (* walk: EIFun f args => EIFun f (map (walk s) args) *)
  ; ("PARAM_EXP", "IdentityDagWalker.walk_param_exp")                     (* walk: EBool _ | EInt _ | EReal _ | EObj _ | EParam _ | EVar _ _ => e *)
  ; ("VARIABLE_EXP", "IdentityDagWalker.walk_variable_exp")               (* walk: EBool _ | EInt _ | EReal _ | EObj _ | EParam _ | EVar _ _ => e *)
  ; ("OBJECT_EXP", "IdentityDagWalker.walk_object_exp")                   (* walk: EBool _ | EInt _ | EReal _ | EObj _ | EParam _ | EVar _ _ => e *)
  ; ("TIMING_EXP", "IdentityDagWalker.walk_timing_exp")                   (* NOT MODELLED: TIMING_EXP has no constructor in Core/Expr.v (see unmodelled_operators) *)
  ; ("PRESENT_EXP", "IdentityDagWalker.walk_present_exp")                 (* NOT MODELLED: PRESENT_EXP has no constructor in Core/Expr.v (see unmodelled_operators) *)
  ; ("BOOL_CONSTANT", "IdentityDagWalker.walk_bool_constant")             (* walk: EBool _ | EInt _ | EReal _ | EObj _ | EParam _ | EVar _ _ => e *)
  ; ("INT_CONSTANT", "IdentityDagWalker.walk_int_constant")               (* walk: EBool _ | EInt _ | EReal _ | EObj _ | EParam _ | EVar _ _ => e *)
  ; ("REAL_CONSTANT", "IdentityDagWalker.walk_real_constant")             (* walk: EBool _ | EInt _ | EReal _ | EObj _ | EParam _ | EVar _ _ => e *)
  ; ("PLUS", "IdentityDagWalker.walk_plus")                               (* walk: EPlus l => mkPlus (map (walk s) l) *)
  ; ("MINUS", "IdentityDagWalker.walk_minus")                             (* walk: EMinus a b => EMinus (walk s a) (walk s b) *)
  ; ("TIMES", "IdentityDagWalker.walk_times")                             (* walk: ETimes l => mkTimes (map (walk s) l) *)
  ; ("DIV", "IdentityDagWalker.walk_div")                                 (* walk: EDiv a b => EDiv (walk s a) (walk s b) *)
  ; ("LE", "IdentityDagWalker.walk_le")                                   (* walk: ELe a b => ELe (walk s a) (walk s b) *)
  ; ("LT", "IdentityDagWalker.walk_lt")                                   (* walk: ELt a b => ELt (walk s a) (walk s b) *)
  ; ("EQUALS", "IdentityDagWalker.walk_equals")                           (* walk: EEquals a b => EEquals (walk s a) (walk s b) *)
  ; ("ALWAYS", "IdentityDagWalker.walk_always")                           (* walk: EAlways a => EAlways (walk s a) *)
  ; ("SOMETIME", "IdentityDagWalker.walk_sometime")                       (* walk: ESometime a => ESometime (walk s a) *)
  ; ("SOMETIME_BEFORE", "IdentityDagWalker.walk_sometime_before")         (* walk: ESometimeBefore a b => ESometimeBefore (walk s a) (walk s b) *)
  ; ("SOMETIME_AFTER", "IdentityDagWalker.walk_sometime_after")           (* walk: ESometimeAfter a b => ESometimeAfter (walk s a) (walk s b) *)
  ; ("AT_MOST_ONCE", "IdentityDagWalker.walk_at_most_once")               (* walk: EAtMostOnce a => EAtMostOnce (walk s a) *)
  ; ("DOT", "IdentityDagWalker.walk_dot")                                 (* NOT MODELLED: DOT has no constructor in Core/Expr.v (see unmodelled_operators) *)
  ].

(* Substituter -- modelled by Walkers/Subst.v (Fixpoint walk; walk_replace_or_identity = replace_or_identity, then IdentityDagWalker.super)  [C13] *)
Definition expected_substituter : table :=
  [ ("AND", "Substituter.walk_replace_or_identity")                       (* walk: replace_or_identity s e (...)  [outermost call, the same for every constructor] *)
  ; ("OR", "Substituter.walk_replace_or_identity")                        (* walk: replace_or_identity s e (...)  [outermost call, the same for every constructor] *)
  ; ("NOT", "Substituter.walk_replace_or_identity")                       (* walk: replace_or_identity s e (...)  [outermost call, the same for every constructor] *)
  ; ("IMPLIES", "Substituter.walk_replace_or_identity")                   (* walk: replace_or_identity s e (...)  [outermost call, the same for every constructor] *)
  ; ("IFF", "Substituter.walk_replace_or_identity")                       (* walk: replace_or_identity s e (...)  [outermost call, the same for every constructor] *)
  ; ("EXISTS", "Substituter.walk_replace_or_identity")                    (* walk: replace_or_identity s e (...)  [outermost call, the same for every constructor] *)
  ; ("FORALL", "Substituter.walk_replace_or_identity")                    (* walk: replace_or_identity s e (...)  [outermost call, the same for every constructor] *)
  ; ("FLUENT_EXP", "Substituter.walk_replace_or_identity")                (* walk: replace_or_identity s e (...)  [outermost call, the same for every constructor] *)
  ; ("INTERPRETED_FUNCTION_EXP", "Substituter.walk_replace_or_identity")  (* walk: replace_or_identity s e (...)  [outermost call, the same for every constructor] *)
  ; ("PARAM_EXP", "Substituter.walk_replace_or_identity")                 (* walk: replace_or_identity s e (...)  [outermost call, the same for every constructor] *)
  ; ("VARIABLE_EXP", "Substituter.walk_replace_or_identity")              (* walk: replace_or_identity s e (...)  [outermost call, the same for every constructor] *)
  ; ("OBJECT_EXP", "Substituter.walk_replace_or_identity")                (* walk: replace_or_identity s e (...)  [outermost call, the same for every constructor] *)
  ; ("TIMING_EXP", "Substituter.walk_replace_or_identity")                (* NOT MODELLED: TIMING_EXP has no constructor in Core/Expr.v (see unmodelled_operators) *)
  ; ("PRESENT_EXP", "Substituter.walk_replace_or_identity")               (* NOT MODELLED: PRESENT_EXP has no constructor in Core/Expr.v (see unmodelled_operators) *)
  ; ("BOOL_CONSTANT", "Substituter.walk_replace_or_identity")             (* walk: replace_or_identity s e (...)  [outermost call, the same for every constructor] *)
  ; ("INT_CONSTANT", "Substituter.walk_replace_or_identity")              (* walk: replace_or_identity s e (...)  [outermost call, the same for every constructor] *)
  ; ("REAL_CONSTANT", "Substituter.walk_replace_or_identity")             (* walk: replace_or_identity s e (...)  [outermost call, the same for every constructor] *)
  ; ("PLUS", "Substituter.walk_replace_or_identity")                      (* walk: replace_or_identity s e (...)  [outermost call, the same for every constructor] *)
  ; ("MINUS", "Substituter.walk_replace_or_identity")                     (* walk: replace_or_identity s e (...)  [outermost call, the same for every constructor] *)
  ; ("TIMES", "Substituter.walk_replace_or_identity")                     (* walk: replace_or_identity s e (...)  [outermost call, the same for every constructor] *)
  ; ("DIV", "Substituter.walk_replace_or_identity")                       (* walk: replace_or_identity s e (...)  [outermost call, the same for every constructor] *)
  ; ("LE", "Substituter.walk_replace_or_identity")                        (* walk: replace_or_identity s e (...)  [outermost call, the same for every constructor] *)
  ; ("LT", "Substituter.walk_replace_or_identity")                        (* walk: replace_or_identity s e (...)  [outermost call, the same for every constructor] *)
  ; ("EQUALS", "Substituter.walk_replace_or_identity")                    (* walk: replace_or_identity s e (...)  [outermost call, the same for every constructor] *)
  ; ("ALWAYS", "Substituter.walk_replace_or_identity")                    (* walk: replace_or_identity s e (...)  [outermost call, the same for every constructor] *)
  ; ("SOMETIME", "Substituter.walk_replace_or_identity")                  (* walk: replace_or_identity s e (...)  [outermost call, the same for every constructor] *)
  ; ("SOMETIME_BEFORE", "Substituter.walk_replace_or_identity")           (* walk: replace_or_identity s e (...)  [outermost call, the same for every constructor] *)
  ; ("SOMETIME_AFTER", "Substituter.walk_replace_or_identity")            (* walk: replace_or_identity s e (...)  [outermost call, the same for every constructor] *)
  ; ("AT_MOST_ONCE", "Substituter.walk_replace_or_identity")              (* walk: replace_or_identity s e (...)  [outermost call, the same for every constructor] *)
  ; ("DOT", "Substituter.walk_replace_or_identity")                       (* NOT MODELLED: DOT has no constructor in Core/Expr.v (see unmodelled_operators) *)
  ].

(* Dnf -- modelled by Walkers/NnfDnf.v (Fixpoint dnf_walk)  [C12] *)
Definition expected_dnf : table :=
  [ ("AND", "Dnf.walk_and")                                               (* dnf_walk: EAnd l => walk_and (map dnf_walk l) *)
  ; ("OR", "Dnf.walk_or")                                                 (* dnf_walk: EOr l => concat (map dnf_walk l) *)
  ; ("NOT", "Dnf.walk_all")                                               (* dnf_walk: _ => [[e]] *)
  ; ("IMPLIES", "Dnf.walk_all")                                           (* dnf_walk: _ => [[e]] *)
  ; ("IFF", "Dnf.walk_all")                                               (* dnf_walk: _ => [[e]] *)
  ; ("EXISTS", "Dnf.walk_all")                                            (* dnf_walk: _ => [[e]] *)
  ; ("FORALL", "Dnf.walk_all")                                            (* dnf_walk: _ => [[e]] *)
  ; ("FLUENT_EXP", "Dnf.walk_all")                                        (* dnf_walk: _ => [[e]] *)
  ; ("INTERPRETED_FUNCTION_EXP", "Dnf.walk_all")                          (* dnf_walk: _ => [[e]] *)
  ; ("PARAM_EXP", "Dnf.walk_all")                                         (* dnf_walk: _ => [[e]] *)
  ; ("VARIABLE_EXP", "Dnf.walk_all")                                      (* dnf_walk: _ => [[e]] *)
  ; ("OBJECT_EXP", "Dnf.walk_all")                                        (* dnf_walk: _ => [[e]] *)
  ; ("TIMING_EXP", "Dnf.walk_all")                                        (* NOT MODELLED: TIMING_EXP has no constructor in Core/Expr.v (see unmodelled_operators) *)
  ; ("PRESENT_EXP", "Dnf.walk_all")                                       (* NOT MODELLED: PRESENT_EXP has no constructor in Core/Expr.v (see unmodelled_operators) *)
  ; ("BOOL_CONSTANT", "Dnf.walk_all")                                     (* dnf_walk: _ => [[e]] *)
  ; ("INT_CONSTANT", "Dnf.walk_all")                                      (* dnf_walk: _ => [[e]] *)
  ; ("REAL_CONSTANT", "Dnf.walk_all")                                     (* dnf_walk: _ => [[e]] *)
  ; ("PLUS", "Dnf.walk_all")                                              (* dnf_walk: _ => [[e]] *)
  ; ("MINUS", "Dnf.walk_all")                                             (* dnf_walk: _ => [[e]] *)
  ; ("TIMES", "Dnf.walk_all")                                             (* dnf_walk: _ => [[e]] *)
  ; ("DIV", "Dnf.walk_all")                                               (* dnf_walk: _ => [[e]] *)
  ; ("LE", "Dnf.walk_all")                                                (* dnf_walk: _ => [[e]] *)
  ; ("LT", "Dnf.walk_all")                                                (* dnf_walk: _ => [[e]] *)
  ; ("EQUALS", "Dnf.walk_all")                                            (* dnf_walk: _ => [[e]] *)
  ; ("ALWAYS", "Dnf.walk_all")                                            (* dnf_walk: _ => [[e]] *)
  ; ("SOMETIME", "Dnf.walk_all")                                          (* dnf_walk: _ => [[e]] *)
  ; ("SOMETIME_BEFORE", "Dnf.walk_all")                                   (* dnf_walk: _ => [[e]] *)
  ; ("SOMETIME_AFTER", "Dnf.walk_all")                                    (* dnf_walk: _ => [[e]] *)
  ; ("AT_MOST_ONCE", "Dnf.walk_all")                                      (* dnf_walk: _ => [[e]] *)
  ; ("DOT", "Dnf.walk_all")                                               (* NOT MODELLED: DOT has no constructor in Core/Expr.v (see unmodelled_operators) *)
  ].

(* Nnf is not a Walker: the two if/elif chains of Nnf.get_nnf_expression (see tools/gen_walkers.py) *)
(* Nnf.expand -- modelled by Walkers/NnfDnf.v (Fixpoint nnf_pol)  [C12] *)
Definition expected_nnf_expand : table :=
  [ ("AND", "Nnf.get_nnf_expression:expand:is_and|is_or")                 (* nnf_pol: EAnd l => ... (map (nnf_pol p) l)  [children pushed with the same polarity] *)
  ; ("OR", "Nnf.get_nnf_expression:expand:is_and|is_or")                  (* nnf_pol: EOr l => ... (map (nnf_pol p) l)  [children pushed with the same polarity] *)
  ; ("NOT", "Nnf.get_nnf_expression:expand:is_not")                       (* nnf_pol: ENot a => nnf_pol (negb p) a *)
  ; ("IMPLIES", "Nnf.get_nnf_expression:expand:is_implies")               (* nnf_pol: EImplies a b => orp p [nnf_pol (negb p) a; nnf_pol p b] *)
  ; ("IFF", "Nnf.get_nnf_expression:expand:is_iff")                       (* nnf_pol: EIff a b => orp p [andp p [..a; ..b]; andp p [..not a; ..not b]] *)
  ; ("EXISTS", "Nnf.get_nnf_expression:expand:else")                      (* nnf_pol: _ => if p then e else ENot e *)
  ; ("FORALL", "Nnf.get_nnf_expression:expand:else")                      (* nnf_pol: _ => if p then e else ENot e *)
  ; ("FLUENT_EXP", "Nnf.get_nnf_expression:expand:else")                  (* nnf_pol: _ => if p then e else ENot e *)
  ; ("INTERPRETED_FUNCTION_EXP", "Nnf.get_nnf_expression:expand:else")    (* nnf_pol: _ => if p then e else ENot e *)
  ; ("PARAM_EXP", "Nnf.get_nnf_expression:expand:else")                   (* nnf_pol: _ => if p then e else ENot e *)
  ; ("VARIABLE_EXP", "Nnf.get_nnf_expression:expand:else")                (* nnf_pol: _ => if p then e else ENot e *)
  ; ("OBJECT_EXP", "Nnf.get_nnf_expression:expand:else")                  (* nnf_pol: _ => if p then e else ENot e *)
  ; ("TIMING_EXP", "Nnf.get_nnf_expression:expand:else")                  (* NOT MODELLED: TIMING_EXP has no constructor in Core/Expr.v (see unmodelled_operators) *)
  ; ("PRESENT_EXP", "Nnf.get_nnf_expression:expand:else")                 (* NOT MODELLED: PRESENT_EXP has no constructor in Core/Expr.v (see unmodelled_operators) *)
  ; ("BOOL_CONSTANT", "Nnf.get_nnf_expression:expand:else")               (* nnf_pol: _ => if p then e else ENot e *)
  ; ("INT_CONSTANT", "Nnf.get_nnf_expression:expand:else")                (* nnf_pol: _ => if p then e else ENot e *)
  ; ("REAL_CONSTANT", "Nnf.get_nnf_expression:expand:else")               (* nnf_pol: _ => if p then e else ENot e *)
  ; ("PLUS", "Nnf.get_nnf_expression:expand:else")                        (* nnf_pol: _ => if p then e else ENot e *)
  ; ("MINUS", "Nnf.get_nnf_expression:expand:else")                       (* nnf_pol: _ => if p then e else ENot e *)
  ; ("TIMES", "Nnf.get_nnf_expression:expand:else")                       (* nnf_pol: _ => if p then e else ENot e *)
  ; ("DIV", "Nnf.get_nnf_expression:expand:else")                         (* nnf_pol: _ => if p then e else ENot e *)
  ; ("LE", "Nnf.get_nnf_expression:expand:else")                          (* nnf_pol: _ => if p then e else ENot e *)
  ; ("LT", "Nnf.get_nnf_expression:expand:else")                          (* nnf_pol: _ => if p then e else ENot e *)
  ; ("EQUALS", "Nnf.get_nnf_expression:expand:else")                      (* nnf_pol: _ => if p then e else ENot e *)
  ; ("ALWAYS", "Nnf.get_nnf_expression:expand:else")                      (* nnf_pol: _ => if p then e else ENot e *)
  ; ("SOMETIME", "Nnf.get_nnf_expression:expand:else")                    (* nnf_pol: _ => if p then e else ENot e *)
  ; ("SOMETIME_BEFORE", "Nnf.get_nnf_expression:expand:else")             (* nnf_pol: _ => if p then e else ENot e *)
  ; ("SOMETIME_AFTER", "Nnf.get_nnf_expression:expand:else")              (* nnf_pol: _ => if p then e else ENot e *)
  ; ("AT_MOST_ONCE", "Nnf.get_nnf_expression:expand:else")                (* nnf_pol: _ => if p then e else ENot e *)
  ; ("DOT", "Nnf.get_nnf_expression:expand:else")                         (* NOT MODELLED: DOT has no constructor in Core/Expr.v (see unmodelled_operators) *)
  ].

(* Nnf.rebuild -- modelled by Walkers/NnfDnf.v (Fixpoint nnf_pol: andp / orp)  [C12] *)
Definition expected_nnf_rebuild : table :=
  [ ("AND", "Nnf.get_nnf_expression:rebuild:is_and")                      (* nnf_pol: EAnd l => andp p (...)  [if p: And(args) else: Or(args)] *)
  ; ("OR", "Nnf.get_nnf_expression:rebuild:is_or")                        (* nnf_pol: EOr l => orp p (...)  [if p: Or(args) else: And(args)] *)
  ; ("NOT", "Nnf.get_nnf_expression:rebuild:else")                        (* unreachable in the code (UPUnreachableCodeError): only And/Or nodes are pushed with status True *)
  ; ("IMPLIES", "Nnf.get_nnf_expression:rebuild:else")                    (* unreachable in the code (UPUnreachableCodeError): only And/Or nodes are pushed with status True *)
  ; ("IFF", "Nnf.get_nnf_expression:rebuild:else")                        (* unreachable in the code (UPUnreachableCodeError): only And/Or nodes are pushed with status True *)
  ; ("EXISTS", "Nnf.get_nnf_expression:rebuild:else")                     (* unreachable in the code (UPUnreachableCodeError): only And/Or nodes are pushed with status True *)
  ; ("FORALL", "Nnf.get_nnf_expression:rebuild:else")                     (* unreachable in the code (UPUnreachableCodeError): only And/Or nodes are pushed with status True *)
  ; ("FLUENT_EXP", "Nnf.get_nnf_expression:rebuild:else")                 (* unreachable in the code (UPUnreachableCodeError): only And/Or nodes are pushed with status True *)
  ; ("INTERPRETED_FUNCTION_EXP", "Nnf.get_nnf_expression:rebuild:else")   (* unreachable in the code (UPUnreachableCodeError): only And/Or nodes are pushed with status True *)
  ; ("PARAM_EXP", "Nnf.get_nnf_expression:rebuild:else")                  (* unreachable in the code (UPUnreachableCodeError): only And/Or nodes are pushed with status True *)
  ; ("VARIABLE_EXP", "Nnf.get_nnf_expression:rebuild:else")               (* unreachable in the code (UPUnreachableCodeError): only And/Or nodes are pushed with status True *)
  ; ("OBJECT_EXP", "Nnf.get_nnf_expression:rebuild:else")                 (* unreachable in the code (UPUnreachableCodeError): only And/Or nodes are pushed with status True *)
  ; ("TIMING_EXP", "Nnf.get_nnf_expression:rebuild:else")                 (* NOT MODELLED: TIMING_EXP has no constructor in Core/Expr.v (see unmodelled_operators) *)
  ; ("PRESENT_EXP", "Nnf.get_nnf_expression:rebuild:else")                (* NOT MODELLED: PRESENT_EXP has no constructor in Core/Expr.v (see unmodelled_operators) *)
  ; ("BOOL_CONSTANT", "Nnf.get_nnf_expression:rebuild:else")              (* unreachable in the code (UPUnreachableCodeError): only And/Or nodes are pushed with status True *)
  ; ("INT_CONSTANT", "Nnf.get_nnf_expression:rebuild:else")               (* unreachable in the code (UPUnreachableCodeError): only And/Or nodes are pushed with status True *)
  ; ("REAL_CONSTANT", "Nnf.get_nnf_expression:rebuild:else")              (* unreachable in the code (UPUnreachableCodeError): only And/Or nodes are pushed with status True *)
  ; ("PLUS", "Nnf.get_nnf_expression:rebuild:else")                       (* unreachable in the code (UPUnreachableCodeError): only And/Or nodes are pushed with status True *)
  ; ("MINUS", "Nnf.get_nnf_expression:rebuild:else")                      (* unreachable in the code (UPUnreachableCodeError): only And/Or nodes are pushed with status True *)
  ; ("TIMES", "Nnf.get_nnf_expression:rebuild:else")                      (* unreachable in the code (UPUnreachableCodeError): only And/Or nodes are pushed with status True *)
  ; ("DIV", "Nnf.get_nnf_expression:rebuild:else")                        (* unreachable in the code (UPUnreachableCodeError): only And/Or nodes are pushed with status True *)
  ; ("LE", "Nnf.get_nnf_expression:rebuild:else")                         (* unreachable in the code (UPUnreachableCodeError): only And/Or nodes are pushed with status True *)
  ; ("LT", "Nnf.get_nnf_expression:rebuild:else")                         (* unreachable in the code (UPUnreachableCodeError): only And/Or nodes are pushed with status True *)
  ; ("EQUALS", "Nnf.get_nnf_expression:rebuild:else")                     (* unreachable in the code (UPUnreachableCodeError): only And/Or nodes are pushed with status True *)
  ; ("ALWAYS", "Nnf.get_nnf_expression:rebuild:else")                     (* unreachable in the code (UPUnreachableCodeError): only And/Or nodes are pushed with status True *)
  ; ("SOMETIME", "Nnf.get_nnf_expression:rebuild:else")                   (* unreachable in the code (UPUnreachableCodeError): only And/Or nodes are pushed with status True *)
  ; ("SOMETIME_BEFORE", "Nnf.get_nnf_expression:rebuild:else")            (* unreachable in the code (UPUnreachableCodeError): only And/Or nodes are pushed with status True *)
  ; ("SOMETIME_AFTER", "Nnf.get_nnf_expression:rebuild:else")             (* unreachable in the code (UPUnreachableCodeError): only And/Or nodes are pushed with status True *)
  ; ("AT_MOST_ONCE", "Nnf.get_nnf_expression:rebuild:else")               (* unreachable in the code (UPUnreachableCodeError): only And/Or nodes are pushed with status True *)
  ; ("DOT", "Nnf.get_nnf_expression:rebuild:else")                        (* NOT MODELLED: DOT has no constructor in Core/Expr.v (see unmodelled_operators) *)
  ].

(* TypeChecker -- modelled by Walkers/TypeInfer.v (Fixpoint infer_r)  [C15] *)
Definition expected_typechecker : table :=
  [ ("AND", "TypeChecker.walk_bool_to_bool")                              (* infer_r: EAnd l | EOr l => bind (infs l) walk_bool *)
  ; ("OR", "TypeChecker.walk_bool_to_bool")                               (* infer_r: EAnd l | EOr l => bind (infs l) walk_bool *)
  ; ("NOT", "TypeChecker.walk_bool_to_bool")                              (* infer_r: ENot a | EExists _ a | EForall _ a | EAlways a | ESometime a | EAtMostOnce a => one a walk_bool *)
  ; ("IMPLIES", "TypeChecker.walk_bool_to_bool")                          (* infer_r: EImplies a b | EIff a b | ESometimeBefore a b => two a b walk_bool *)
  ; ("IFF", "TypeChecker.walk_bool_to_bool")                              (* infer_r: EImplies a b | EIff a b | ESometimeBefore a b => two a b walk_bool *)
  ; ("EXISTS", "TypeChecker.walk_bool_to_bool")                           (* infer_r: ENot a | EExists _ a | EForall _ a | EAlways a | ESometime a | EAtMostOnce a => one a walk_bool *)
  ; ("FORALL", "TypeChecker.walk_bool_to_bool")                           (* infer_r: ENot a | EExists _ a | EForall _ a | EAlways a | ESometime a | EAtMostOnce a => one a walk_bool *)
  ; ("FLUENT_EXP", "TypeChecker.walk_fluent_exp")                         (* infer_r: EFluent f args => bind (infs args) (walk_app G (lookupN f (g_fl G))) *)
  ; ("INTERPRETED_FUNCTION_EXP", "TypeChecker.walk_interpreted_function_exp") (* infer_r: EIFun f args => bind (infs args) (walk_app G (lookupN f (g_ifun G))) *)
  ; ("PARAM_EXP", "TypeChecker.walk_param_exp")                           (* infer_r: EParam p => lookupN p (g_par G) *)
  ; ("VARIABLE_EXP", "TypeChecker.walk_variable_exp")                     (* infer_r: EVar v t => lookupN v (g_var G), TUser t *)
  ; ("OBJECT_EXP", "TypeChecker.walk_object_exp")                         (* infer_r: EObj o => lookupN o (g_obj G), TUser *)
  ; ("TIMING_EXP", "TypeChecker.walk_timing_exp")                         (* NOT MODELLED: TIMING_EXP has no constructor in Core/Expr.v (see unmodelled_operators) *)
  ; ("PRESENT_EXP", "TypeChecker.walk_present_exp")                       (* NOT MODELLED: PRESENT_EXP has no constructor in Core/Expr.v (see unmodelled_operators) *)
  ; ("BOOL_CONSTANT", "TypeChecker.walk_identity_bool")                   (* infer_r: EBool _ => inl TBool *)
  ; ("INT_CONSTANT", "TypeChecker.walk_identity_int")                     (* infer_r: EInt z => inl (TInt (Some z) (Some z)) *)
  ; ("REAL_CONSTANT", "TypeChecker.walk_identity_real")                   (* infer_r: EReal q => inl (TReal (Some q) (Some q)) *)
  ; ("PLUS", "TypeChecker.walk_plus")                                     (* infer_r: EPlus l => bind (infs l) walk_plus *)
  ; ("MINUS", "TypeChecker.walk_minus")                                   (* infer_r: EMinus a b => two a b walk_minus *)
  ; ("TIMES", "TypeChecker.walk_times")                                   (* infer_r: ETimes l => bind (infs l) walk_times *)
  ; ("DIV", "TypeChecker.walk_div")                                       (* infer_r: EDiv a b => two a b walk_div *)
  ; ("LE", "TypeChecker.walk_math_relation")                              (* infer_r: ELe a b | ELt a b => two a b walk_rel *)
  ; ("LT", "TypeChecker.walk_math_relation")                              (* infer_r: ELe a b | ELt a b => two a b walk_rel *)
  ; ("EQUALS", "TypeChecker.walk_equals")                                 (* infer_r: EEquals a b => two a b (walk_equals G) *)
  ; ("ALWAYS", "TypeChecker.walk_always")                                 (* infer_r: ENot a | EExists _ a | EForall _ a | EAlways a | ESometime a | EAtMostOnce a => one a walk_bool  [walk_always = the bool-to-bool test on one operand] *)
  ; ("SOMETIME", "TypeChecker.walk_sometime")                             (* infer_r: ENot a | EExists _ a | EForall _ a | EAlways a | ESometime a | EAtMostOnce a => one a walk_bool  [walk_sometime] *)
  ; ("SOMETIME_BEFORE", "TypeChecker.walk_sometime_before")               (* infer_r: EImplies a b | EIff a b | ESometimeBefore a b => two a b walk_bool  [walk_sometime_before] *)
  ; ("SOMETIME_AFTER", "TypeChecker.walk_sometime_after")                 (* infer_r: ESometimeAfter a b => two a b (fun ts => ... ty_eqb x y ... walk_bool ts) *)
  ; ("AT_MOST_ONCE", "TypeChecker.walk_at_most_once")                     (* infer_r: ENot a | EExists _ a | EForall _ a | EAlways a | ESometime a | EAtMostOnce a => one a walk_bool  [walk_at_most_once] *)
  ; ("DOT", "TypeChecker.walk_dot")                                       (* NOT MODELLED: DOT has no constructor in Core/Expr.v (see unmodelled_operators) *)
  ].

(* LinearChecker -- modelled by Walkers/Linear.v (Fixpoint lin)  [C17] *)
Definition expected_linearchecker : table :=
  [ ("AND", "LinearChecker.walk_default")                                 (* lin: EIFun _ l | EAnd l | EOr l | EPlus l => dfltn l  [walk_default] *)
  ; ("OR", "LinearChecker.walk_default")                                  (* lin: EIFun _ l | EAnd l | EOr l | EPlus l => dfltn l  [walk_default] *)
  ; ("NOT", "LinearChecker.walk_default")                                 (* lin: ENot a | EExists _ a | EForall _ a | EAlways a | ESometime a | EAtMostOnce a => dflt1 a  [walk_default] *)
  ; ("IMPLIES", "LinearChecker.walk_default")                             (* lin: EImplies a b | EIff a b | ELe a b | ELt a b | EEquals a b | ESometimeBefore a b | ESometimeAfter a b => dflt2 a b  [walk_default] *)
  ; ("IFF", "LinearChecker.walk_default")                                 (* lin: EImplies a b | EIff a b | ELe a b | ELt a b | EEquals a b | ESometimeBefore a b | ESometimeAfter a b => dflt2 a b  [walk_default] *)
  ; ("EXISTS", "LinearChecker.walk_default")                              (* lin: ENot a | EExists _ a | EForall _ a | EAlways a | ESometime a | EAtMostOnce a => dflt1 a  [walk_default] *)
  ; ("FORALL", "LinearChecker.walk_default")                              (* lin: ENot a | EExists _ a | EForall _ a | EAlways a | ESometime a | EAtMostOnce a => dflt1 a  [walk_default] *)
  ; ("FLUENT_EXP", "LinearChecker.walk_fluent_exp")                       (* lin: EFluent f args => Some (forallb r_lin rs, [e], []) *)
  ; ("INTERPRETED_FUNCTION_EXP", "LinearChecker.walk_default")            (* lin: EIFun _ l | EAnd l | EOr l | EPlus l => dfltn l  [walk_default] *)
  ; ("PARAM_EXP", "LinearChecker.walk_default")                           (* lin: EBool _ | EInt _ | EReal _ | EObj _ | EParam _ | EVar _ _ => Some (walk_default []) *)
  ; ("VARIABLE_EXP", "LinearChecker.walk_default")                        (* lin: EBool _ | EInt _ | EReal _ | EObj _ | EParam _ | EVar _ _ => Some (walk_default []) *)
  ; ("OBJECT_EXP", "LinearChecker.walk_default")                          (* lin: EBool _ | EInt _ | EReal _ | EObj _ | EParam _ | EVar _ _ => Some (walk_default []) *)
  ; ("TIMING_EXP", "LinearChecker.walk_default")                          (* NOT MODELLED: TIMING_EXP has no constructor in Core/Expr.v (see unmodelled_operators) *)
  ; ("PRESENT_EXP", "LinearChecker.walk_default")                         (* NOT MODELLED: PRESENT_EXP has no constructor in Core/Expr.v (see unmodelled_operators) *)
  ; ("BOOL_CONSTANT", "LinearChecker.walk_default")                       (* lin: EBool _ | EInt _ | EReal _ | EObj _ | EParam _ | EVar _ _ => Some (walk_default []) *)
  ; ("INT_CONSTANT", "LinearChecker.walk_default")                        (* lin: EBool _ | EInt _ | EReal _ | EObj _ | EParam _ | EVar _ _ => Some (walk_default []) *)
  ; ("REAL_CONSTANT", "LinearChecker.walk_default")                       (* lin: EBool _ | EInt _ | EReal _ | EObj _ | EParam _ | EVar _ _ => Some (walk_default []) *)
  ; ("PLUS", "LinearChecker.walk_default")                                (* lin: EIFun _ l | EAnd l | EOr l | EPlus l => dfltn l  [walk_default] *)
  ; ("MINUS", "LinearChecker.walk_minus")                                 (* lin: EMinus a b => Some (walk_minus ra rb) *)
  ; ("TIMES", "LinearChecker.walk_times")                                 (* lin: ETimes l => walk_times G l rs *)
  ; ("DIV", "LinearChecker.walk_div")                                     (* lin: EDiv a b => walk_div G b ra rb *)
  ; ("LE", "LinearChecker.walk_default")                                  (* lin: EImplies a b | EIff a b | ELe a b | ELt a b | EEquals a b | ESometimeBefore a b | ESometimeAfter a b => dflt2 a b  [walk_default] *)
  ; ("LT", "LinearChecker.walk_default")                                  (* lin: EImplies a b | EIff a b | ELe a b | ELt a b | EEquals a b | ESometimeBefore a b | ESometimeAfter a b => dflt2 a b  [walk_default] *)
  ; ("EQUALS", "LinearChecker.walk_default")                              (* lin: EImplies a b | EIff a b | ELe a b | ELt a b | EEquals a b | ESometimeBefore a b | ESometimeAfter a b => dflt2 a b  [walk_default] *)
  ; ("ALWAYS", "LinearChecker.walk_default")                              (* lin: ENot a | EExists _ a | EForall _ a | EAlways a | ESometime a | EAtMostOnce a => dflt1 a  [walk_default] *)
  ; ("SOMETIME", "LinearChecker.walk_default")                            (* lin: ENot a | EExists _ a | EForall _ a | EAlways a | ESometime a | EAtMostOnce a => dflt1 a  [walk_default] *)
  ; ("SOMETIME_BEFORE", "LinearChecker.walk_default")                     (* lin: EImplies a b | EIff a b | ELe a b | ELt a b | EEquals a b | ESometimeBefore a b | ESometimeAfter a b => dflt2 a b  [walk_default] *)
  ; ("SOMETIME_AFTER", "LinearChecker.walk_default")                      (* lin: EImplies a b | EIff a b | ELe a b | ELt a b | EEquals a b | ESometimeBefore a b | ESometimeAfter a b => dflt2 a b  [walk_default] *)
  ; ("AT_MOST_ONCE", "LinearChecker.walk_default")                        (* lin: ENot a | EExists _ a | EForall _ a | EAlways a | ESometime a | EAtMostOnce a => dflt1 a  [walk_default] *)
  ; ("DOT", "LinearChecker.walk_default")                                 (* NOT MODELLED: DOT has no constructor in Core/Expr.v (see unmodelled_operators) *)
  ].

(* ------------------------------------------------------------------------------------------------------------------
   (c) expected shape summaries of the handlers that BUILD expressions: which ExpressionManager constructors
   (manager.X), helpers of the same object (self.x) and <Class>.super calls occur in the body.  A handler whose body is
   replaced by another one's (or that starts building a different node) changes its summary. *)

Definition expected_shapes_simplifier : list (string * list string) :=
  [ ("Simplifier.walk_and", ["manager.And"; "manager.FALSE"; "manager.Not"; "manager.TRUE"; "self.walk_not"])
  ; ("Simplifier.walk_or", ["manager.FALSE"; "manager.Not"; "manager.Or"; "manager.TRUE"; "self.walk_not"])
  ; ("Simplifier.walk_not", ["manager.Bool"; "manager.Not"])
  ; ("Simplifier.walk_implies", ["manager.Implies"; "manager.Not"; "manager.TRUE"])
  ; ("Simplifier.walk_iff", ["manager.Bool"; "manager.Iff"; "manager.Not"; "manager.TRUE"])
  ; ("Simplifier.walk_exists", ["manager.And"; "manager.Exists"; "self._has_no_objects"; "self._simplify_rebuilt"])
  ; ("Simplifier.walk_forall", ["manager.Forall"; "self._has_no_objects"])
  ; ("Simplifier.walk_fluent_exp", ["manager.FluentExp"])
  ; ("Simplifier.walk_interpreted_function_exp", ["manager.Bool"; "manager.Int"; "manager.InterpretedFunctionExp"; "manager.ObjectExp"; "manager.Real"])
  ; ("Simplifier.walk_identity", [])
  ; ("Simplifier.walk_plus", ["manager.Int"; "manager.Plus"; "self._number_to_fnode"])
  ; ("Simplifier.walk_minus", ["manager.Minus"; "manager.Plus"; "self._number_to_fnode"; "self.walk_plus"])
  ; ("Simplifier.walk_times", ["manager.Int"; "manager.Times"; "self._number_to_fnode"])
  ; ("Simplifier.walk_div", ["manager.Div"; "self._number_to_fnode"])
  ; ("Simplifier.walk_le", ["manager.Bool"; "manager.LE"])
  ; ("Simplifier.walk_lt", ["manager.Bool"; "manager.LT"])
  ; ("Simplifier.walk_equals", ["manager.Bool"; "manager.Equals"; "manager.FALSE"; "manager.TRUE"])
  ; ("Simplifier.walk_always", ["manager.Always"; "manager.FALSE"; "manager.TRUE"])
  ; ("Simplifier.walk_sometime", ["manager.FALSE"; "manager.Sometime"; "manager.TRUE"])
  ; ("Simplifier.walk_sometime_before", ["manager.FALSE"; "manager.SometimeBefore"; "manager.TRUE"])
  ; ("Simplifier.walk_sometime_after", ["manager.FALSE"; "manager.SometimeAfter"; "manager.TRUE"])
  ; ("Simplifier.walk_at_most_once", ["manager.AtMostOnce"; "manager.TRUE"])
  ; ("Simplifier.walk_dot", ["manager.Dot"]) ].

Definition expected_shapes_substituter : list (string * list string) :=
  [ ("Substituter.walk_replace_or_identity", ["IdentityDagWalker.super"])
  ; ("IdentityDagWalker.walk_and", ["manager.And"])
  ; ("IdentityDagWalker.walk_or", ["manager.Or"])
  ; ("IdentityDagWalker.walk_not", ["manager.Not"])
  ; ("IdentityDagWalker.walk_implies", ["manager.Implies"])
  ; ("IdentityDagWalker.walk_iff", ["manager.Iff"])
  ; ("IdentityDagWalker.walk_exists", ["manager.Exists"])
  ; ("IdentityDagWalker.walk_forall", ["manager.Forall"])
  ; ("IdentityDagWalker.walk_fluent_exp", ["manager.FluentExp"])
  ; ("IdentityDagWalker.walk_interpreted_function_exp", ["manager.InterpretedFunctionExp"])
  ; ("IdentityDagWalker.walk_param_exp", ["manager.ParameterExp"])
  ; ("IdentityDagWalker.walk_variable_exp", ["manager.VariableExp"])
  ; ("IdentityDagWalker.walk_object_exp", ["manager.ObjectExp"])
  ; ("IdentityDagWalker.walk_timing_exp", ["manager.TimingExp"])
  ; ("IdentityDagWalker.walk_present_exp", ["manager.PresentExp"])
  ; ("IdentityDagWalker.walk_bool_constant", ["manager.Bool"])
  ; ("IdentityDagWalker.walk_int_constant", ["manager.Int"])
  ; ("IdentityDagWalker.walk_real_constant", ["manager.Real"])
  ; ("IdentityDagWalker.walk_plus", ["manager.Plus"])
  ; ("IdentityDagWalker.walk_minus", ["manager.Minus"])
  ; ("IdentityDagWalker.walk_times", ["manager.Times"])
  ; ("IdentityDagWalker.walk_div", ["manager.Div"])
  ; ("IdentityDagWalker.walk_le", ["manager.LE"])
  ; ("IdentityDagWalker.walk_lt", ["manager.LT"])
  ; ("IdentityDagWalker.walk_equals", ["manager.Equals"])
  ; ("IdentityDagWalker.walk_always", ["manager.Always"])
  ; ("IdentityDagWalker.walk_sometime", ["manager.Sometime"])
  ; ("IdentityDagWalker.walk_sometime_before", ["manager.SometimeBefore"])
  ; ("IdentityDagWalker.walk_sometime_after", ["manager.SometimeAfter"])
  ; ("IdentityDagWalker.walk_at_most_once", ["manager.AtMostOnce"])
  ; ("IdentityDagWalker.walk_dot", ["manager.Dot"]) ].

Definition expected_shapes_nnf_dnf : list (string * list string) :=
  [ ("Nnf.get_nnf_expression:expand:is_and|is_or", [])
  ; ("Nnf.get_nnf_expression:expand:is_not", [])
  ; ("Nnf.get_nnf_expression:expand:is_implies", ["manager.Not"; "manager.Or"])
  ; ("Nnf.get_nnf_expression:expand:is_iff", ["manager.And"; "manager.Not"; "manager.Or"])
  ; ("Nnf.get_nnf_expression:expand:else", ["manager.Not"])
  ; ("Nnf.get_nnf_expression:rebuild:is_and", ["manager.And"; "manager.Or"])
  ; ("Nnf.get_nnf_expression:rebuild:is_or", ["manager.And"; "manager.Or"])
  ; ("Nnf.get_nnf_expression:rebuild:else", [])
  ; ("Dnf.walk_and", ["manager.And"])
  ; ("Dnf.walk_or", [])
  ; ("Dnf.walk_all", []) ].
