(* Executable model of the conflicting-effects bookkeeping of unified-planning (C24).
   Mirrors (code as of the repaired tree, see notes/C24.md):
     unified_planning/model/effect.py        check_conflicting_effects, check_conflicting_simulated_effects
     unified_planning/model/transition.py    UntimedEffectMixin._add_effect_instance / set_simulated_effect
                                             (InstantaneousAction; add_effect / add_increase_effect / add_decrease_effect
                                             all end in _add_effect_instance)
     unified_planning/model/mixins/timed_conds_effs.py  TimedCondsEffs._add_effect_instance / set_simulated_effect
                                             (DurativeAction: one bookkeeping record per Timing)
     unified_planning/model/problem.py       Problem._add_effect_instance (timed effects; never a simulated effect)
   Python mutates the bookkeeping in place and then raises; the model therefore returns the state the code LEAVES
   together with a flag "raised UPConflictingEffectsException" (it does not return an option), so that
   "a rejected insertion changes nothing" is a theorem and not a modelling convention.

   Abstraction of an Effect: exactly the attributes the checks inspect --
     e_fluent : the fluent expression (hash-consed FNode => a number)
     e_bool   : effect.fluent.type.is_bool_type()
     e_kind   : EffectKind
     e_value  : the value expression (see [value])
     e_cond   : effect.is_conditional()
     e_tag    : identity of the Effect object (only used to compare the stored effect lists). *)
From Coq Require Import List ZArith NArith QArith Bool.
Import ListNotations.

Inductive ekind := KAssign | KIncrease | KDecrease | KContIncrease | KContDecrease.

(* value expressions as far as   a != b and not (a.is_constant() and b.is_constant() and a.constant_value() == b.constant_value())
   can tell them apart: numeric constants (Int/Real nodes; Int(1) and Real(1) are different nodes with equal constant
   values), object constants (hash-consed: node identity = object equality) and non-constant expressions (node identity).
   Boolean constants never reach the check: it only looks at values of non-Boolean fluents, and add_effect rejects an
   ill-typed value before. *)
Inductive value := VNum (q : Q) | VObj (o : N) | VExpr (e : N).

(* "the two values are the same" = the negation of the condition that raises *)
Definition veq (a b : value) : bool :=
  match a, b with
  | VNum p, VNum q => Qeq_bool p q
  | VObj x, VObj y => (x =? y)%N
  | VExpr x, VExpr y => (x =? y)%N
  | _, _ => false
  end.

Record effect := {
  e_fluent : N;
  e_bool : bool;
  e_kind : ekind;
  e_value : value;
  e_cond : bool;
  e_tag : N
}.

Definition fdict := list (N * value).      (* fluents_assigned : Dict[FNode, FNode], insertion ordered *)
Definition fset := list N.                 (* fluents_inc_dec  : Set[FNode] *)

Definition mem (f : N) (s : list N) : bool := existsb (N.eqb f) s.
Definition set_add (f : N) (s : fset) : fset := if mem f s then s else s ++ [f].

Fixpoint lookup (f : N) (d : fdict) : option value :=
  match d with
  | [] => None
  | (g, v) :: d' => if (f =? g)%N then Some v else lookup f d'
  end.

Definition has_key (f : N) (d : fdict) : bool :=
  match lookup f d with Some _ => true | None => false end.

Definition is_assign (e : effect) : bool := match e_kind e with KAssign => true | _ => false end.

(* the guard `not effect.is_conditional() and not effect.fluent.type.is_bool_type()` *)
Definition relevant (e : effect) : bool := negb (e_cond e) && negb (e_bool e).

Definition in_sim (f : N) (sim : option (list N)) : bool :=
  match sim with Some F => mem f F | None => false end.

(* check_conflicting_effects: returns (fluents_assigned, fluents_inc_dec) as the call leaves them, and whether it raised *)
Definition check_conflicting_effects (e : effect) (sim : option (list N)) (fa : fdict) (fid : fset)
  : fdict * fset * bool :=
  if relevant e then
    match e_kind e with
    | KAssign =>
        if mem (e_fluent e) fid then (fa, fid, true)
        else if in_sim (e_fluent e) sim then (fa, fid, true)
        else match lookup (e_fluent e) fa with
             | Some v0 => if veq v0 (e_value e) then (fa, fid, false) else (fa, fid, true)
             | None => (fa ++ [(e_fluent e, e_value e)], fid, false)
             end
    | _ =>
        if has_key (e_fluent e) fa then (fa, fid, true)
        else if in_sim (e_fluent e) sim then (fa, fid, true)
        else (fa, set_add (e_fluent e) fid, false)
    end
  else (fa, fid, false).

(* check_conflicting_simulated_effects: only raises or not *)
Definition check_conflicting_simulated_effects (F : list N) (fa : fdict) (fid : fset) : bool :=
  existsb (fun f => mem f fid || has_key f fa) F.

(* ---- one time point: an InstantaneousAction, or one Timing of a DurativeAction / Problem ---- *)
Record tp := {
  effects : list effect;          (* _effects (resp. _effects[timing], _timed_effects[timing]) *)
  assigned : fdict;               (* _fluents_assigned *)
  incdec : fset;                  (* _fluents_inc_dec *)
  sim : option (list N)           (* _simulated_effect: the fluents of the simulated effect, None when absent *)
}.

Definition tp_empty : tp := {| effects := []; assigned := []; incdec := []; sim := None |}.

(* _add_effect_instance: check (mutating the bookkeeping), then append *)
Definition add_effect_instance (s : tp) (e : effect) : tp * bool :=
  let '(fa, fid, raised) := check_conflicting_effects e (sim s) (assigned s) (incdec s) in
  if raised
  then ({| effects := effects s; assigned := fa; incdec := fid; sim := sim s |}, true)
  else ({| effects := effects s ++ [e]; assigned := fa; incdec := fid; sim := sim s |}, false).

(* set_simulated_effect: check, then REPLACE the simulated effect *)
Definition set_simulated_effect (s : tp) (F : list N) : tp * bool :=
  if check_conflicting_simulated_effects F (assigned s) (incdec s)
  then (s, true)
  else ({| effects := effects s; assigned := assigned s; incdec := incdec s; sim := Some F |}, false).

(* a member of a collection: an effect (add_effect / add_increase_effect / add_decrease_effect) or a simulated effect *)
Inductive item := IEff (e : effect) | ISim (F : list N).

Definition add_item (s : tp) (i : item) : tp * bool :=
  match i with
  | IEff e => add_effect_instance s e
  | ISim F => set_simulated_effect s F
  end.

(* insert a whole collection in the given order, catching the exception of every rejected insertion;
   true iff some insertion raised *)
Fixpoint raises (s : tp) (l : list item) : bool :=
  match l with
  | [] => false
  | i :: l' => let (s', r) := add_item s i in r || raises s' l'
  end.

Fixpoint run (s : tp) (l : list item) : tp :=
  match l with
  | [] => s
  | i :: l' => run (fst (add_item s i)) l'
  end.

Fixpoint count_sims (l : list item) : nat :=
  match l with
  | [] => 0
  | ISim _ :: l' => S (count_sims l')
  | IEff _ :: l' => count_sims l'
  end.

Definition sim_count (s : tp) : nat := match sim s with Some _ => 1 | None => 0 end.

(* ---- the specification side: which two members of a collection are in conflict ---- *)
Definition conflicts_ee (a b : effect) : bool :=
  relevant a && relevant b && (e_fluent a =? e_fluent b)%N &&
  (if is_assign a then (if is_assign b then negb (veq (e_value a) (e_value b)) else true) else is_assign b).

Definition conflicts_se (F : list N) (e : effect) : bool := relevant e && mem (e_fluent e) F.

Definition conflicts (i j : item) : bool :=
  match i, j with
  | IEff a, IEff b => conflicts_ee a b
  | ISim F, IEff e => conflicts_se F e
  | IEff e, ISim F => conflicts_se F e
  | ISim _, ISim _ => false
  end.

(* what a time point holds, as collection members *)
Definition tp_items (s : tp) : list item :=
  map IEff (effects s) ++ match sim s with Some F => [ISim F] | None => [] end.

(* ---- timed containers (DurativeAction, Problem): a finite map Timing -> tp.
   The four Python dictionaries (_effects, _simulated_effects, _fluents_assigned, _fluents_inc_dec) keyed by Timing are
   presented as one map to the per-time-point record; an absent key and a key bound to an empty dict/set (created by
   `setdefault` even when the insertion is then rejected) are the same thing here, as they are for every later check. *)
Definition timed := list (N * tp).

Fixpoint tfind (t : N) (m : timed) : option tp :=
  match m with
  | [] => None
  | (t', s) :: m' => if (t =? t')%N then Some s else tfind t m'
  end.

Definition tget (t : N) (m : timed) : tp := match tfind t m with Some s => s | None => tp_empty end.

Fixpoint tset (t : N) (s : tp) (m : timed) : timed :=
  match m with
  | [] => [(t, s)]
  | (t', s') :: m' => if (t =? t')%N then (t, s) :: m' else (t', s') :: tset t s m'
  end.

Definition tadd_item (m : timed) (ti : N * item) : timed * bool :=
  let (s', r) := add_item (tget (fst ti) m) (snd ti) in (tset (fst ti) s' m, r).

Fixpoint traises (m : timed) (l : list (N * item)) : bool :=
  match l with
  | [] => false
  | ti :: l' => let (m', r) := tadd_item m ti in r || traises m' l'
  end.

Fixpoint trun (m : timed) (l : list (N * item)) : timed :=
  match l with
  | [] => m
  | ti :: l' => trun (fst (tadd_item m ti)) l'
  end.

(* the members of a timed collection that sit at time point t *)
Fixpoint proj (t : N) (l : list (N * item)) : list item :=
  match l with
  | [] => []
  | (t', i) :: l' => if (t =? t')%N then i :: proj t l' else proj t l'
  end.

(* ---- reachable containers: anything built from an empty action/problem by any sequence of insertions,
   accepted or rejected ---- *)
Inductive reach : tp -> Prop :=
| reach_empty : reach tp_empty
| reach_add s i : reach s -> reach (fst (add_item s i)).

Inductive treach : timed -> Prop :=
| treach_empty : treach []
| treach_add m ti : treach m -> treach (fst (tadd_item m ti)).
