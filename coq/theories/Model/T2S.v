(* Executable model of unified_planning/engines/compilers/timed_to_sequential.py : plan_back_conversion_callable
   (after the repair `fix: timed-to-sequential back conversion picks a duration inside a left-open duration interval`):
     * min_time_step = problem.epsilon if it is set, else 1/100                      -> [eps]
     * bound_value(bound): a duration bound with the actual parameters substituted and every fluent replaced by its
       value in the state in which the compiled action is about to be applied            -> [beval]
     * dtime = bound_value(lower); if the interval is left-open: dtime = (dtime + bound_value(upper)) / 2
                                                                                         -> [choose_duration]
     * a durative action is placed at time_now with duration dtime, then time_now += dtime + min_time_step;
       an instantaneous action is placed at time_now, then time_now += min_time_step     -> [back_conv]
   The sequential simulator that produces the states is external to this function: the state before each step is part
   of the step ([s_state]), and the theorems quantify over all of them.  None = an exception (a fluent without value). *)
From Coq Require Import List ZArith NArith QArith Bool.
Import ListNotations.
Open Scope Q_scope.

Inductive barg := AParam (i : nat) | AObj (o : N).

(* duration bound expressions *)
Inductive bexp :=
| BConst (q : Q)
| BFluent (f : N) (args : list barg)
| BPlus (a b : bexp)
| BMinus (a b : bexp)
| BTimes (a b : bexp).

Definition state := list ((N * list N) * Q).      (* numeric ground fluents with a value *)

Fixpoint ns_eqb (a b : list N) : bool :=
  match a, b with
  | [], [] => true
  | x :: a', y :: b' => (x =? y)%N && ns_eqb a' b'
  | _, _ => false
  end.

Fixpoint lookup (f : N) (vs : list N) (st : state) : option Q :=
  match st with
  | [] => None
  | ((g, ws), q) :: st' => if (f =? g)%N && ns_eqb vs ws then Some q else lookup f vs st'
  end.

Definition obind {A B} (x : option A) (f : A -> option B) : option B :=
  match x with Some a => f a | None => None end.

Fixpoint args_val (ps : list N) (args : list barg) : option (list N) :=
  match args with
  | [] => Some []
  | a :: args' =>
      obind (match a with AParam i => nth_error ps i | AObj o => Some o end)
            (fun v => obind (args_val ps args') (fun r => Some (v :: r)))
  end.

Fixpoint beval (st : state) (ps : list N) (e : bexp) : option Q :=
  match e with
  | BConst q => Some q
  | BFluent f args => obind (args_val ps args) (fun vs => lookup f vs st)
  | BPlus a b => obind (beval st ps a) (fun x => obind (beval st ps b) (fun y => Some (x + y)))
  | BMinus a b => obind (beval st ps a) (fun x => obind (beval st ps b) (fun y => Some (x - y)))
  | BTimes a b => obind (beval st ps a) (fun x => obind (beval st ps b) (fun y => Some (x * y)))
  end.

(* the duration chosen for an interval with bound values lo, hi; only left-openness matters to the code *)
Definition choose_duration (lo hi : Q) (lopen : bool) : Q :=
  if lopen then Qred ((lo + hi) / 2) else Qred lo.

Inductive skind :=
| SInst
| SDur (lo hi : bexp) (lopen ropen : bool).

Record sstep := { s_kind : skind; s_params : list N; s_state : state }.

(* None = exception; Some None = instantaneous action *)
Definition step_duration (s : sstep) : option (option Q) :=
  match s_kind s with
  | SInst => Some None
  | SDur lo hi lopen _ =>
      obind (beval (s_state s) (s_params s) lo) (fun l =>
        if lopen
        then obind (beval (s_state s) (s_params s) hi) (fun h => Some (Some (choose_duration l h true)))
        else Some (Some (choose_duration l l false)))
  end.

Definition tentry := (Q * option Q)%type.         (* (start, duration) of the i-th action of the plan *)

Fixpoint back_conv (eps : Q) (now : Q) (steps : list sstep) : option (list tentry) :=
  match steps with
  | [] => Some []
  | s :: rest =>
      match step_duration s with
      | None => None
      | Some None => option_map (cons (now, None)) (back_conv eps (Qred (now + eps)) rest)
      | Some (Some d) => option_map (cons (now, Some d)) (back_conv eps (Qred (now + d + eps)) rest)
      end
  end.

(* ---------------------------------------------------------------- specification side *)
Definition in_interval (d lo hi : Q) (lopen ropen : bool) : Prop :=
  (if lopen then lo < d else lo <= d) /\ (if ropen then d < hi else d <= hi).

Definition nonempty (lo hi : Q) (lopen ropen : bool) : Prop :=
  if lopen || ropen then lo < hi else lo <= hi.

Definition dur_of (e : tentry) : Q := match snd e with Some d => d | None => 0 end.
Definition end_of (e : tentry) : Q := fst e + dur_of e.

(* boolean judges, evaluated in Coq on the plan the implementation returned *)
Definition Qlt_bool (a b : Q) : bool := negb (Qle_bool b a).
Definition in_intervalb (d lo hi : Q) (lopen ropen : bool) : bool :=
  (if lopen then Qlt_bool lo d else Qle_bool lo d) && (if ropen then Qlt_bool d hi else Qle_bool d hi).

Definition entry_ok (s : sstep) (e : tentry) : bool :=
  match s_kind s, snd e with
  | SInst, None => true
  | SDur lo hi lopen ropen, Some d =>
      match beval (s_state s) (s_params s) lo, beval (s_state s) (s_params s) hi with
      | Some l, Some h => in_intervalb d l h lopen ropen
      | _, _ => false
      end
  | _, _ => false
  end.

Fixpoint entries_ok (steps : list sstep) (out : list tentry) : bool :=
  match steps, out with
  | [], [] => true
  | s :: steps', e :: out' => entry_ok s e && entries_ok steps' out'
  | _, _ => false
  end.

Fixpoint spaced (out : list tentry) : bool :=
  match out with
  | e1 :: ((e2 :: _) as rest) => Qlt_bool (fst e1) (fst e2) && Qlt_bool (end_of e1) (fst e2) && spaced rest
  | _ => true
  end.

(* the duration choice BEFORE the repair (kept only to state what was wrong, see Props/C28.v):
   `dtime = lower if not left-open else min_time_step` *)
Definition choose_duration_before_fix (eps lo : Q) (lopen : bool) : Q :=
  if lopen then eps else Qred lo.
