(* The STATEMENT layer of the ANML codec (property C19) on top of the expression codec Model/AnmlExpr.v: the
   statements of an action body - timed conditions and timed effects.

   Printer : ANMLWriter._convert_anml_timing, _convert_anml_interval, _convert_effect and the condition lines of
             _write_problem (unified_planning/io/anml_writer.py).
   Parser  : anml_grammar.py (interval, timed_expression, conditional_expression, the assignment level of
             boolean_expression, quantified_expression_def used as "forall over assignments") followed by
             ANMLReader._populate_parsed_action_body, _parse_interval, _parse_timing, _parse_assignment,
             _check_conditional_intervals (anml_reader.py), with is_global = False (inside an action).
   Types   : [timing], [tinterval] of Planning/Temporal.v, [effect] of Planning/Problem.v.

   Limits of the model (stated, not hidden):
   - a timing is read only in the syntax the writer uses: start | end, optionally followed by + or - and a
     non-negative rational n or n/d.  The real reader accepts every arithmetic expression that the Simplifier turns
     into `timing`, `timing + constant` or `timing - constant`; `all` and the problem-level (global) timings are not
     modelled;
   - expressions are printed with `walk` (the writer calls `convert` = Simplifier + walk) and read without the
     final `simplify()` (C11's subject), as in AnmlExpr.v;
   - _check_conditional_intervals compares the TEXT of two intervals; the model compares the parsed intervals. *)
From Coq Require Import List ZArith NArith QArith Qcanon Bool.
Import ListNotations.
Require Import UPV.Core.Expr UPV.Core.Eval UPV.Planning.Problem UPV.Planning.Temporal UPV.Model.AnmlExpr.
Local Open Scope nat_scope.

(* ------------------------------------------------------------------------------------------------ printer *)
(* str(delay) for a non-negative int / Fraction: "3" or "3/2" *)
Definition pr_rat (q : Qc) : list token :=
  match Qden (this q) with
  | xH => [TNum (Z.to_N (Qnum (this q)))]
  | d => [TNum (Z.to_N (Qnum (this q))); TDiv; TNum (Npos d)]
  end.

Definition qc_pos (q : Qc) : bool := (0 <? Qnum (this q))%Z.
Definition qc_neg (q : Qc) : bool := (Qnum (this q) <? 0)%Z.

(* _convert_anml_timing *)
Definition pr_timing (tm : timing) : list token :=
  (match tm_anchor tm with AStart => TStart | AEnd => TEnd end) ::
  (if qc_pos (tm_delay tm) then TPlus :: pr_rat (tm_delay tm)
   else if qc_neg (tm_delay tm) then TMinus :: pr_rat (Qcopp (tm_delay tm))
   else []).

Definition anchor_eqb (a b : anchor) : bool :=
  match a, b with AStart, AStart | AEnd, AEnd => true | _, _ => false end.
Definition timing_eqb (a b : timing) : bool :=
  anchor_eqb (tm_anchor a) (tm_anchor b) && qc_eqb (tm_delay a) (tm_delay b).

(* _convert_anml_interval *)
Definition pr_interval (iv : tinterval) : list token :=
  (if ti_lopen iv then TLp else TLsq) ::
  (if timing_eqb (ti_lo iv) (ti_hi iv) then pr_timing (ti_lo iv)
   else pr_timing (ti_lo iv) ++ TComma :: pr_timing (ti_hi iv)) ++
  [if ti_ropen iv then TRp else TRsq].

Inductive stmt :=
| SCond (iv : tinterval) (c : expr)        (* a.conditions: "{interval} {cond};" *)
| SEff (tm : timing) (e : effect)          (* a.effects: _convert_effect; e_cond = the condition as the converter prints it *)
| SEffW (tm : timing) (e : effect).        (* an effect whose STORED condition is not the constant TRUE (Effect.is_conditional()
                                              looks at the unsimplified condition, e.g. Not(FALSE)) while the condition the
                                              converter prints, e_cond, is: written "when true {...}".  Outside stmt_ok. *)

Definition kind_tok (k : ekind) : token :=
  match k with KAssign => TAssign | KInc => TIncrease | KDec => TDecrease end.

(* Effect.is_conditional(): the condition is not the constant TRUE *)
Definition is_cond (e : effect) : bool := negb (is_true (e_cond e)).
Definition is_forall (e : effect) : bool := match e_vars e with [] => false | _ => true end.

Section Printer.
  Variable W : wnames.

  Definition pr_effect_core (e : effect) : list token :=
    (if is_cond e then TWhen :: pr W (e_cond e) ++ [TLb] else []) ++
    pr W (EFluent (e_fl e) (e_args e)) ++ kind_tok (e_kind e) :: pr W (e_val e) ++ [TSemi] ++
    (if is_cond e then [TRb; TSemi] else []).
  (* the same with the `when` block forced (SEffW) *)
  Definition pr_effect_core_w (e : effect) : list token :=
    (TWhen :: pr W (e_cond e) ++ [TLb]) ++
    pr W (EFluent (e_fl e) (e_args e)) ++ kind_tok (e_kind e) :: pr W (e_val e) ++ [TSemi] ++ [TRb; TSemi].

  Definition pr_stmt (s : stmt) : list token :=
    match s with
    | SCond iv c => pr_interval iv ++ pr W c ++ [TSemi]
    | SEff tm e =>
        TLsq :: pr_timing tm ++ TRsq ::
        (if is_forall e
         then TForall :: TLp :: pr_vars W (e_vars e) ++ TRp :: TLb :: pr_effect_core e ++ [TRb; TSemi]
         else pr_effect_core e)
    | SEffW tm e =>
        TLsq :: pr_timing tm ++ TRsq ::
        (if is_forall e
         then TForall :: TLp :: pr_vars W (e_vars e) ++ TRp :: TLb :: pr_effect_core_w e ++ [TRb; TSemi]
         else pr_effect_core_w e)
    end.
End Printer.

(* ------------------------------------------------------------------------------------------------ parser *)
Definition mkq (n : N) (d : positive) : Qc := Q2Qc (Qmake (Z.of_N n) d).

(* "n" or "n/d" (what the Simplifier folds Div(Int n, Int d) to); division by zero: the reader raises *)
Definition parse_rat (ts : list token) : option (Qc * list token) :=
  match ts with
  | TNum n :: TDiv :: TNum (Npos d) :: r => Some (mkq n d, r)
  | TNum n :: TDiv :: _ => None
  | TNum n :: r => Some (mkq n 1, r)
  | _ => None
  end.

(* _parse_timing (is_global = False): `start + c` needs a timing from start, `end - c` one from end *)
Definition parse_timing (ts : list token) : option (timing * list token) :=
  match ts with
  | (TStart | TEnd) as a :: r =>
      let an := match a with TStart => AStart | _ => AEnd end in
      match r with
      | TPlus :: r1 =>
          match an, parse_rat r1 with
          | AStart, Some (q, r2) => Some ({| tm_anchor := AStart; tm_delay := q |}, r2)
          | _, _ => None
          end
      | TMinus :: r1 =>
          match an, parse_rat r1 with
          | AEnd, Some (q, r2) => Some ({| tm_anchor := AEnd; tm_delay := Qcopp q |}, r2)
          | _, _ => None
          end
      | _ => Some ({| tm_anchor := an; tm_delay := Q2Qc 0 |}, r)
      end
  | _ => None
  end.

(* what _parse_interval returns: a Timing for "[ t ]", a TimeInterval for "l t1, t2 r" *)
Inductive piv := PPoint (tm : timing) | PIv (iv : tinterval).

Definition parse_interval (ts : list token) : option (piv * list token) :=
  match ts with
  | (TLsq | TLp) as l :: r =>
      let lopen := match l with TLp => true | _ => false end in
      match parse_timing r with
      | Some (t1, TComma :: r1) =>
          match parse_timing r1 with
          | Some (t2, TRsq :: r2) => Some (PIv {| ti_lo := t1; ti_hi := t2; ti_lopen := lopen; ti_ropen := false |}, r2)
          | Some (t2, TRp :: r2) => Some (PIv {| ti_lo := t1; ti_hi := t2; ti_lopen := lopen; ti_ropen := true |}, r2)
          | _ => None
          end
      | Some (t1, TRsq :: r1) => if lopen then None else Some (PPoint t1, r1)   (* point intervals can't have '(' *)
      | _ => None
      end
  | _ => None
  end.

(* Optional(interval) of timed_expression: on failure the parser goes on without an interval *)
Definition opt_interval (ts : list token) : option piv * list token :=
  match parse_interval ts with
  | Some (p, r) => (Some p, r)
  | None => (None, ts)
  end.

Definition start_tm : timing := {| tm_anchor := AStart; tm_delay := Q2Qc 0 |}.
Definition point_iv (t : timing) : tinterval := {| ti_lo := t; ti_hi := t; ti_lopen := false; ti_ropen := false |}.

Definition piv_eqb (a b : piv) : bool :=
  match a, b with
  | PPoint x, PPoint y => timing_eqb x y
  | PIv x, PIv y => timing_eqb (ti_lo x) (ti_lo y) && timing_eqb (ti_hi x) (ti_hi y)
                    && Bool.eqb (ti_lopen x) (ti_lopen y) && Bool.eqb (ti_ropen x) (ti_ropen y)
  | _, _ => false
  end.

(* _check_conditional_intervals: the intervals outside the block, before the condition and before the assignment
   must agree when more than one is given; None = a disagreement (the reader raises) *)
Definition merge2 (a b : option piv) : option (option piv) :=
  match a, b with
  | Some x, Some y => if piv_eqb x y then Some a else None
  | Some _, None => Some a
  | None, _ => Some b
  end.
Definition merge3 (outer cnd eff : option piv) : option (option piv) :=
  match merge2 outer cnd with Some r => merge2 r eff | None => None end.

Definition is_stmt_tok (t : token) : bool :=
  match t with TAssign | TIncrease | TDecrease => true | _ => false end.
Definition tok_kind (t : token) : option ekind :=
  match t with TAssign => Some KAssign | TIncrease => Some KInc | TDecrease => Some KDec | _ => None end.
Definition is_when (t : token) : bool := match t with TWhen => true | _ => false end.

Inductive pstmt :=
| PCond (iv : tinterval) (c : expr)
| PEff (tm : timing) (e : effect).

Section Parser.
  Variable R : rtables.

  (* "fluent_ref op value ;"  (one timed_expression of the assignment level) *)
  Definition parse_assign (n : nat) (sc : list (N * N)) (ts : list token)
    : option (N * list expr * ekind * expr * list token) :=
    match go R n SImp sc ts with
    | Ok (EFluent f args) _ (k :: r) =>
        match tok_kind k with
        | Some kd =>
            match go R n SImp sc r with
            | Ok v _ (TSemi :: r') => Some (f, args, kd, v, r')
            | _ => None
            end
        | None => None
        end
    | _ => None
    end.

  (* "when [iv] cond { [iv] assignment ; } ;" or "[iv]? assignment ;" -- what stands after the outer interval (or inside
     a forall).  [csc]: the variables the CONDITION is read with, [sc]: those for fluent and value
     (_parse_assignment reads the condition of a non-quantified `when` without variables). *)
  Definition parse_core (n : nat) (csc sc : list (N * N)) (ts : list token)
    : option (option piv * option piv * option expr * (N * list expr * ekind * expr) * list token) :=
    match ts with
    | TWhen :: r =>
        let (civ, r1) := opt_interval r in
        match go R n SImp csc r1 with
        | Ok c _ (TLb :: r2) =>
            let (eiv, r3) := opt_interval r2 in
            match parse_assign n sc r3 with
            | Some (f, args, kd, v, TRb :: TSemi :: r4) => Some (civ, eiv, Some c, (f, args, kd, v), r4)
            | _ => None
            end
        | _ => None
        end
    | _ =>
        match parse_assign n sc ts with
        | Some (f, args, kd, v, r) => Some (None, None, None, (f, args, kd, v), r)
        | None => None
        end
    end.

  Definition mk_effect (f : N) (args : list expr) (kd : ekind) (v : expr) (c : expr) (vs : list (N * N)) : effect :=
    {| e_fl := f; e_args := args; e_val := v; e_cond := c; e_kind := kd; e_vars := vs; e_isbool := fbool R f |}.

  (* _parse_assignment + the effect branch of _populate_parsed_action_body *)
  Definition parse_effect (n : nat) (ts : list token) : option pstmt :=
    let (oiv, r) := opt_interval ts in
    match r with
    | TForall :: TLp :: r1 =>
        match pvars r1 with
        | Some (decls, TLb :: r2) =>
            match decl_types R decls with
            | Some d =>
                let d' := dict_of d in
                let vs := map (fun p => (varOf R (fst p), snd p)) d' in
                match parse_core n d' d' r2 with
                | Some (civ, eiv, oc, (f, args, kd, v), [TRb; TSemi]) =>
                    match merge3 oiv civ eiv with
                    | Some (Some (PIv _)) => None               (* an effect with a durative interval *)
                    | Some fin =>
                        let tm := match fin with Some (PPoint t) => t | _ => start_tm end in
                        let c := match oc with Some c => EAnd [c; EBool true] | None => EBool true end in
                        Some (PEff tm (mk_effect f args kd v c vs))
                    | None => None
                    end
                | _ => None
                end
            | None => None
            end
        | _ => None
        end
    | _ =>
        match parse_core n [] [] r with
        | Some (civ, eiv, oc, (f, args, kd, v), []) =>
            match merge3 oiv civ eiv with
            | Some (Some (PIv _)) => None
            | Some fin =>
                let tm := match fin with Some (PPoint t) => t | _ => start_tm end in
                let c := match oc with Some c => c | None => EBool true end in
                Some (PEff tm (mk_effect f args kd v c []))
            | None => None
            end
        | _ => None
        end
    end.

  (* the condition branch of _populate_parsed_action_body *)
  Definition parse_cond (n : nat) (ts : list token) : option pstmt :=
    let (oiv, r) := opt_interval ts in
    match go R n SImp [] r with
    | Ok c _ [TSemi] =>
        Some (PCond (match oiv with
                     | None => point_iv start_tm
                     | Some (PPoint t) => point_iv t       (* add_condition turns a Timing into [t, t] *)
                     | Some (PIv iv) => iv
                     end) c)
    | _ => None
    end.

  (* one statement of an action body, up to and including its ";".  The reader looks for the words
     := :increase :decrease when ANYWHERE in the statement (find_strings) to choose the branch. *)
  Definition parse_stmt (ts : list token) : option pstmt :=
    if existsb is_stmt_tok ts then parse_effect (fuel_of ts) ts
    else if existsb is_when ts then None      (* "when keyword used in an action precondition is not supported" *)
    else parse_cond (fuel_of ts) ts.
End Parser.

(* ------------------------------------------------------------------------------------------------ normal form *)
Definition norm_effect (e : effect) : effect :=
  {| e_fl := e_fl e; e_args := map norm (e_args e); e_val := norm (e_val e);
     e_cond := if is_cond e
               then (if is_forall e then EAnd [norm (e_cond e); EBool true] else norm (e_cond e))
               else EBool true;
     e_kind := e_kind e; e_vars := e_vars e; e_isbool := e_isbool e |}.

Definition norm_stmt (s : stmt) : pstmt :=
  match s with
  | SCond iv c => PCond iv (norm c)
  | SEff tm e => PEff tm (norm_effect e)
  | SEffW tm e =>
      PEff tm {| e_fl := e_fl e; e_args := map norm (e_args e); e_val := norm (e_val e);
                 e_cond := if is_forall e then EAnd [norm (e_cond e); EBool true] else norm (e_cond e);
                 e_kind := e_kind e; e_vars := e_vars e; e_isbool := e_isbool e |}
  end.

(* ------------------------------------------------------------------------------------------------ fragment *)
Definition qc_zero (q : Qc) : bool := (Qnum (this q) =? 0)%Z.
(* start + d with d >= 0, end - d with d >= 0: the only forms _parse_timing accepts inside an action *)
Definition timing_ok (tm : timing) : bool :=
  match tm_anchor tm with
  | AStart => negb (qc_neg (tm_delay tm))
  | AEnd => negb (qc_pos (tm_delay tm))
  end.
(* an interval of one instant is printed "[ t ]" / "( t )": only the closed one can be read *)
Definition interval_ok (iv : tinterval) : bool :=
  timing_ok (ti_lo iv) && timing_ok (ti_hi iv) &&
  (if timing_eqb (ti_lo iv) (ti_hi iv) then negb (ti_lopen iv) && negb (ti_ropen iv) else true).

Section Fragment.
  Variable R : rtables.
  Variable arity : N -> nat.
  Definition effect_ok (e : effect) : bool :=
    anml_ok R arity (e_vars e) (EFluent (e_fl e) (e_args e)) && anml_ok R arity (e_vars e) (e_val e)
    && (if is_cond e then anml_ok R arity (e_vars e) (e_cond e) else true)
    && (if is_forall e then nodupN (map fst (e_vars e)) else true)
    && Bool.eqb (e_isbool e) (fbool R (e_fl e)).
  Definition stmt_ok (s : stmt) : bool :=
    match s with
    | SCond iv c => interval_ok iv && anml_ok R arity [] c
    | SEff tm e => timing_ok tm && effect_ok e
    | SEffW _ _ => false
    end.
End Fragment.
