(* Executable model of engine selection in unified_planning/engines/factory.py (C32; the pipeline part is reused by C09).

   Mirrors:
     ProblemKindMeta._set/_unset/_has + the straight-line bodies of resulting_problem_kind  -> [instr], [cond], [exec]
     Engine.supports  (`problem_kind <= X.supported_kind()` in every built-in engine)         -> [supports]
     Factory._engine_satisfies_conditions                                                    -> [satisfies_conditions]
     Factory._get_engine_class                                                               -> [get_engine_class]
     the `compilation_kinds` branch of Factory._get_engine                                   -> [pipeline]
   The registry (name -> engine description) is a parameter; the built-in one is regenerated into Gen/Gen_Engines.v.
   Compilation kinds, plan kinds and guarantees are numbers (index in the regenerated name tables). *)
From Coq Require Import List NArith Bool String.
Import ListNotations.
Require Import UPV.Model.Kind.

(* ------------------------------------------------------------------ programs over a ProblemKind being edited *)
(* `problem_kind.has_x()` / `new_kind.has_x()`: some feature of the list is present *)
Inductive cond :=
| CHasOld (fs : list N)          (* on the parameter problem_kind *)
| CHasNew (fs : list N)          (* on the clone being edited *)
| COr (a b : cond)
| CAnd (a b : cond)
| CNot (a : cond).

Inductive instr :=
| ISet (f : N)                   (* new_kind.set_<class>("F")   (F is in the class: checked by the translator) *)
| IUnset (f : N)                 (* new_kind.unset_<class>("F") *)
| IIf (c : cond) (th el : list instr).

Definition has_any (s : fset) (fs : list N) : bool := existsb (fun f => mem f s) fs.

Fixpoint eval_cond (old cur : fset) (c : cond) : bool :=
  match c with
  | CHasOld fs => has_any old fs
  | CHasNew fs => has_any cur fs
  | COr a b => eval_cond old cur a || eval_cond old cur b
  | CAnd a b => eval_cond old cur a && eval_cond old cur b
  | CNot a => negb (eval_cond old cur a)
  end.

Section Exec.
  Variable T : tables.
  Variable ver : option N.        (* the clone's _version: _set asserts  _version is None or added(F) <= _version *)
  Variable old : fset.

  Fixpoint exec_i (i : instr) (cur : fset) : res fset :=
    match i with
    | ISet f =>
        match ver with
        | Some v => if (added T f <=? v)%N then Ok (N.setbit cur f) else AssertErr
        | None => Ok (N.setbit cur f)
        end
    | IUnset f => Ok (N.clearbit cur f)
    | IIf c th el =>
        let fix exec_l (l : list instr) (cur : fset) : res fset :=
          match l with
          | [] => Ok cur
          | x :: l' => match exec_i x cur with Ok cur' => exec_l l' cur' | KeyErr => KeyErr | AssertErr => AssertErr end
          end in
        if eval_cond old cur c then exec_l th cur else exec_l el cur
    end.

  Fixpoint exec (l : list instr) (cur : fset) : res fset :=
    match l with
    | [] => Ok cur
    | x :: l' => match exec_i x cur with Ok cur' => exec l' cur' | KeyErr => KeyErr | AssertErr => AssertErr end
    end.
End Exec.

(* X.resulting_problem_kind(problem_kind, ck):  new_kind = problem_kind.clone(); <program>; return new_kind *)
Definition run_resulting (T : tables) (prog : list instr) (k : kind) : res kind :=
  match exec T (k_ver k) (k_feats k) prog (k_feats k) with
  | Ok s => Ok {| k_feats := s; k_ver := k_ver k |}
  | KeyErr => KeyErr
  | AssertErr => AssertErr
  end.

(* ------------------------------------------------------------------ engines *)
Inductive opmode :=
| ONESHOT_PLANNER | ANYTIME_PLANNER | PLAN_VALIDATOR | PORTFOLIO_SELECTOR | COMPILER
| SEQUENTIAL_SIMULATOR | REPLANNER | PLAN_REPAIRER | ACTION_SELECTOR.

Definition opmode_eqb (a b : opmode) : bool :=
  match a, b with
  | ONESHOT_PLANNER, ONESHOT_PLANNER | ANYTIME_PLANNER, ANYTIME_PLANNER | PLAN_VALIDATOR, PLAN_VALIDATOR
  | PORTFOLIO_SELECTOR, PORTFOLIO_SELECTOR | COMPILER, COMPILER | SEQUENTIAL_SIMULATOR, SEQUENTIAL_SIMULATOR
  | REPLANNER, REPLANNER | PLAN_REPAIRER, PLAN_REPAIRER | ACTION_SELECTOR, ACTION_SELECTOR => true
  | _, _ => false
  end.

Record engine := {
  e_class : string;                 (* Python class name (documentation only) *)
  e_modes : list opmode;            (* the is_<mode>() that return True *)
  e_supported : kind;               (* supported_kind() *)
  e_compilations : list N;          (* supports_compilation(ck) *)
  e_plans : list N;                 (* supports_plan(pk) *)
  e_optimality : list N;            (* satisfies(og) *)
  e_anytime : list N;               (* ensures(ag) *)
  e_resulting : list instr          (* resulting_problem_kind body *)
}.

Definition registry := list (string * engine).      (* Factory._engines (insertion order irrelevant) *)

Fixpoint lookup (name : string) (reg : registry) : option engine :=
  match reg with
  | [] => None
  | (n, e) :: reg' => if String.eqb name n then Some e else lookup name reg'
  end.

Record request := {
  r_mode : opmode;
  r_kind : kind;
  r_optimality : option N;
  r_compilation : option N;
  r_plan : option N;
  r_anytime : option N
}.

Definition inN (x : N) (l : list N) : bool := existsb (N.eqb x) l.
Definition is_mode (e : engine) (m : opmode) : bool := existsb (opmode_eqb m) (e_modes e).
Definition is_none {A} (o : option A) : bool := match o with None => true | Some _ => false end.

Section Select.
  Variable T : tables.

  (* EngineClass.supports(problem_kind) *)
  Definition supports (e : engine) (k : kind) : res bool := le T k (e_supported e).

  (* an optional requirement is honoured: `req is not None and not Engine.method(req)` is false *)
  Definition honoured (req : option N) (offered : list N) : bool :=
    match req with None => true | Some x => inN x offered end.

  (* _engine_satisfies_conditions.  AssertErr = one of its `assert ... is None` fails (the public entry points never
     pass a requirement that does not belong to the mode). *)
  Definition satisfies_conditions (e : engine) (r : request) : res bool :=
    if negb (is_mode e (r_mode r)) then Ok false else
    match r_mode r with
    | ONESHOT_PLANNER | REPLANNER | PORTFOLIO_SELECTOR =>
        if negb (is_none (r_anytime r) && is_none (r_compilation r) && is_none (r_plan r)) then AssertErr
        else if negb (honoured (r_optimality r) (e_optimality e)) then Ok false
        else supports e (r_kind r)
    | PLAN_VALIDATOR =>
        if negb (is_none (r_optimality r) && is_none (r_anytime r) && is_none (r_compilation r)) then AssertErr
        else if negb (honoured (r_plan r) (e_plans e)) then Ok false
        else supports e (r_kind r)
    | COMPILER =>
        if negb (is_none (r_optimality r) && is_none (r_anytime r) && is_none (r_plan r)) then AssertErr
        else if negb (honoured (r_compilation r) (e_compilations e)) then Ok false
        else supports e (r_kind r)
    | ANYTIME_PLANNER =>
        if negb (is_none (r_optimality r) && is_none (r_compilation r) && is_none (r_plan r)) then AssertErr
        else if negb (honoured (r_anytime r) (e_anytime e)) then Ok false
        else supports e (r_kind r)
    | PLAN_REPAIRER =>
        if negb (is_none (r_anytime r) && is_none (r_compilation r)) then AssertErr
        else if negb (honoured (r_plan r) (e_plans e)) then Ok false
        else if negb (honoured (r_optimality r) (e_optimality e)) then Ok false
        else supports e (r_kind r)
    | SEQUENTIAL_SIMULATOR | ACTION_SELECTOR =>
        if negb (is_none (r_optimality r) && is_none (r_anytime r) && is_none (r_compilation r) && is_none (r_plan r))
        then AssertErr
        else supports e (r_kind r)
    end.

  Inductive selection :=
  | Found (name : string) (e : engine)
  | NoSuitable                    (* UPNoSuitableEngineAvailableException *)
  | NoRequested                   (* UPNoRequestedEngineAvailableException (name given, not registered) *)
  | RaisedKey                     (* KeyError: a preference-list name that is not registered, or a missing upgrade function *)
  | RaisedAssert.                 (* AssertionError *)

  (* an engine of the right mode that does not qualify is added to the error report: the report evaluates
     EngineClass.supports(ProblemKind({f}, version=problem_kind.version)) for every feature f of the request, which raises
     KeyError exactly when the comparison needs an upgrade function that does not exist.  [report_raises_spec] is the literal
     transcription; [report_raises] is the equivalent closed form used by the loop (Factory_proofs.report_raises_equiv):
     whether an upgrade function is missing depends on the two versions only. *)
  Definition report_raises_spec (e : engine) (r : request) : bool :=
    is_mode e (r_mode r)
    && existsb (fun f => match supports e {| k_feats := mask_of [f]; k_ver := Some (version T (r_kind r)) |} with
                         | Ok _ => false | _ => true end)
               (elements (k_feats (r_kind r))).

  Definition report_raises (e : engine) (r : request) : bool :=
    is_mode e (r_mode r)
    && negb (k_feats (r_kind r) =? 0)%N
    && match equalize T 0%N 0%N (version T (r_kind r)) (version T (e_supported e)) with None => true | Some _ => false end.

  (* the loop `for name in self._preference_list` of _get_engine_class *)
  Fixpoint first_satisfying (reg : registry) (prefs : list string) (r : request) : selection :=
    match prefs with
    | [] => NoSuitable
    | name :: prefs' =>
        match lookup name reg with
        | None => RaisedKey
        | Some e =>
            match satisfies_conditions e r with
            | Ok true => Found name e
            | Ok false => if report_raises e r then RaisedKey else first_satisfying reg prefs' r
            | KeyErr => RaisedKey
            | AssertErr => RaisedAssert
            end
        end
    end.

  (* _get_engine_class(operation_mode, name, problem_kind, og, ck, pk, ag) *)
  Definition get_engine_class (reg : registry) (prefs : list string) (name : option string) (r : request) : selection :=
    match name with
    | Some n => match lookup n reg with Some e => Found n e | None => NoRequested end
    | None =>
        if negb (is_none (r_optimality r) || is_none (r_compilation r)) then RaisedAssert
        else first_satisfying reg prefs r
    end.

  (* the `operation_mode == COMPILER and compilation_kinds is not None` branch of _get_engine:
     names : per step, an explicit engine name or None; the result lists, per step, the chosen engine and the kind it was
     chosen for, and ends with the kind declared for the pipeline's output *)
  Inductive pipe :=
  | Pipe (steps : list (string * engine * kind)) (final : kind)
  | PipeFail (s : selection).

  Definition comp_request (k : kind) (ck : N) : request :=
    {| r_mode := COMPILER; r_kind := k; r_optimality := None; r_compilation := Some ck; r_plan := None; r_anytime := None |}.

  Fixpoint pipeline_from (reg : registry) (prefs : list string) (steps : list (option string * N)) (k : kind)
           (acc : list (string * engine * kind)) : pipe :=
    match steps with
    | [] => Pipe (rev acc) k
    | (name, ck) :: steps' =>
        match get_engine_class reg prefs name (comp_request k ck) with
        | Found n e =>
            if negb (is_mode e COMPILER) then PipeFail RaisedAssert          (* assert issubclass(EngineClass, CompilerMixin) *)
            else match run_resulting T (e_resulting e) k with
                 | Ok k' => pipeline_from reg prefs steps' k' ((n, e, k) :: acc)
                 | KeyErr => PipeFail RaisedKey
                 | AssertErr => PipeFail RaisedAssert
                 end
        | s => PipeFail s
        end
    end.

  Definition pipeline (reg : registry) (prefs : list string) (names : option (list (option string))) (cks : list N) (k : kind) : pipe :=
    match names with
    | None => pipeline_from reg prefs (map (fun ck => (None, ck)) cks) k []
    | Some ns =>
        (* params defaults to one dict per compilation kind; `assert len(names) == len(params)` *)
        if negb (Nat.eqb (List.length ns) (List.length cks)) then PipeFail RaisedAssert
        else pipeline_from reg prefs (combine ns cks) k []
    end.
End Select.
