(* C10, the other problem classes — definitions only.

   Model/KindOf.v describes class `Problem`.  This file adds, for ContingentProblem, MultiAgentProblem,
   HierarchicalProblem and SchedulingProblem:
     - a wrapper record holding what the class adds to (or puts in place of) a [problem_desc];
     - the FLATTENED VIEW [flat_*]: the [problem_desc] made of everything the class's `kind` iterates over (so that the
       independent extractor [spec_features] of KindOf.v can be reused for the common features);
     - [kind_*]: the mirror of the class's `kind` property AS IT IS in /repo today;
     - [spec_*]: the independent specification of the features the problem syntactically uses (common features through
       the flattened view, one short clause per class-specific feature);
     - [*_goal]: the full statement "spec inside kind" including the positions the class's `kind` did not look at
       (multi-agent: refuted in Props/C10_classes.v; hierarchical and scheduling: proved after the repairs c453608 and
       c7cadef of /repo, which the mirrors below include).
   Feature numbers come from Gen_Kind. *)
From Coq Require Import List ZArith NArith Bool.
Import ListNotations.
Require Import UPV.Core.Expr UPV.Model.Kind UPV.Gen.Gen_Kind UPV.Model.KindOf.

(* a problem_desc with further goals (used for the conditions a class passes to update_problem_kind_expression) *)
Definition with_goals (B : problem_desc) (extra : list cexpr) : problem_desc :=
  {| p_fluents := p_fluents B; p_objtys := p_objtys B; p_actions := p_actions B; p_events := p_events B;
     p_processes := p_processes B; p_teffs := p_teffs B; p_tgoals := p_tgoals B; p_goals := p_goals B ++ extra;
     p_traj := p_traj B; p_metrics := p_metrics B; p_discrete := p_discrete B; p_selfoverlap := p_selfoverlap B |}.

(* the features of [spec_features] (every clause head of KindOf.Spec.spec_features) *)
Definition spec_feature_list : list feature :=
  [ f_FLAT_TYPING; f_HIERARCHICAL_TYPING; f_INT_FLUENTS; f_REAL_FLUENTS; f_OBJECT_FLUENTS; f_BOOL_FLUENT_PARAMETERS
  ; f_BOUNDED_INT_FLUENT_PARAMETERS; f_BOOL_ACTION_PARAMETERS; f_BOUNDED_INT_ACTION_PARAMETERS
  ; f_UNBOUNDED_INT_ACTION_PARAMETERS; f_REAL_ACTION_PARAMETERS; f_BOUNDED_TYPES; f_NEGATIVE_CONDITIONS
  ; f_DISJUNCTIVE_CONDITIONS; f_EQUALITIES; f_EXISTENTIAL_CONDITIONS; f_UNIVERSAL_CONDITIONS
  ; f_INTERPRETED_FUNCTIONS_IN_CONDITIONS; f_CONDITIONAL_EFFECTS; f_FORALL_EFFECTS; f_INCREASE_EFFECTS
  ; f_DECREASE_EFFECTS; f_INCREASE_CONTINUOUS_EFFECTS; f_DECREASE_CONTINUOUS_EFFECTS
  ; f_STATIC_FLUENTS_IN_BOOLEAN_ASSIGNMENTS; f_STATIC_FLUENTS_IN_NUMERIC_ASSIGNMENTS; f_STATIC_FLUENTS_IN_OBJECT_ASSIGNMENTS
  ; f_FLUENTS_IN_BOOLEAN_ASSIGNMENTS; f_FLUENTS_IN_NUMERIC_ASSIGNMENTS; f_FLUENTS_IN_OBJECT_ASSIGNMENTS
  ; f_STATIC_FLUENTS_IN_DURATIONS; f_FLUENTS_IN_DURATIONS; f_INTERPRETED_FUNCTIONS_IN_DURATIONS; f_INT_TYPE_DURATIONS
  ; f_REAL_TYPE_DURATIONS; f_DURATION_INEQUALITIES; f_TIMED_EFFECTS; f_TIMED_GOALS; f_PROCESSES; f_EVENTS
  ; f_STATE_INVARIANTS; f_TRAJECTORY_CONSTRAINTS; f_ACTIONS_COST; f_FINAL_VALUE; f_MAKESPAN; f_PLAN_LENGTH
  ; f_OVERSUBSCRIPTION; f_TEMPORAL_OVERSUBSCRIPTION; f_STATIC_FLUENTS_IN_ACTIONS_COST; f_FLUENTS_IN_ACTIONS_COST
  ; f_INT_NUMBERS_IN_ACTIONS_COST; f_REAL_NUMBERS_IN_ACTIONS_COST; f_INT_NUMBERS_IN_OVERSUBSCRIPTION
  ; f_REAL_NUMBERS_IN_OVERSUBSCRIPTION; f_UNDEFINED_INITIAL_NUMERIC; f_UNDEFINED_INITIAL_SYMBOLIC ].

(* what a type contributes when it is the type of a decision variable / parameter (specification side; the same
   case analysis as the documentation table: typing + parameter kinds) *)
Definition spec_param_features (t : ty) : list feature :=
  match t with
  | TUser _ hf => if hf then [f_HIERARCHICAL_TYPING] else [f_FLAT_TYPING]
  | TBool => [f_BOOL_ACTION_PARAMETERS]
  | TReal _ _ => [f_REAL_ACTION_PARAMETERS]
  | TInt lo hi => if lo && hi then [f_BOUNDED_INT_ACTION_PARAMETERS] else [f_UNBOUNDED_INT_ACTION_PARAMETERS]
  end.
(* typing only (method / task parameters, task-network variables: they are not ACTION parameters) *)
Definition spec_type_features (t : ty) : list feature :=
  match t with TUser _ hf => if hf then [f_HIERARCHICAL_TYPING] else [f_FLAT_TYPING] | _ => [] end.

(* ================================================================================================ CONTINGENT *)
(* unified_planning/model/contingent/contingent_problem.py.  A ContingentProblem IS a Problem (sensing actions are
   InstantaneousActions of p_actions with ia_sensing = true) plus the initial constraints on hidden fluents. *)
Record contingent_desc := {
  cp_base : problem_desc;
  cp_or : list (list expr);           (* or_constraints   (fluent literals) *)
  cp_oneof : list (list expr);        (* oneof_constraints *)
  cp_observed : list expr             (* observed fluents of all sensing actions *)
}.
(* what the class feeds to the factory: exactly what Problem._kind_factory reads; the initial constraints and the
   observed fluents are never read *)
Definition flat_contingent (C : contingent_desc) : problem_desc := cp_base C.
(* ContingentProblem.kind:  self._kind = super().kind;  self._kind.set_problem_class("CONTINGENT") *)
Definition kind_contingent (C : contingent_desc) : list feature := f_CONTINGENT :: kind_model (cp_base C).
(* specification: the common features of the flattened view; CONTINGENT because the problem is of that class (the
   hidden fluents / sensing actions ARE the feature CONTINGENT; reading: a hidden fluent with a default value is not an
   "undefined initial value", see [contingent_hidden_reading] in Props/C10_classes.v) *)
Definition spec_contingent (C : contingent_desc) : list feature := spec_features (flat_contingent C) ++ [f_CONTINGENT].
Definition wf_contingent (C : contingent_desc) : Prop := wf (flat_contingent C).
(* the alternative reading: a fluent mentioned by an initial constraint has no defined initial value *)
Definition spec_contingent_hidden (C : contingent_desc) : list feature :=
  clause f_UNDEFINED_INITIAL_SYMBOLIC (nonempty (cp_or C) || nonempty (cp_oneof C)).

(* =============================================================================================== MULTI-AGENT *)
(* unified_planning/model/multi_agent/ma_problem.py.  MultiAgentProblem.kind does NOT use _KindFactory: it has its own
   _update_problem_kind_effect / _condition / _type / _fluent / _action and _update_agent_goal_kind. *)
Record agent_desc := {
  ag_fluents : list fdecl;
  ag_actions : list action;
  ag_public : list cexpr;             (* public_goals *)
  ag_private : list cexpr             (* private_goals *)
}.
Record ma_desc := {
  ma_agents : list agent_desc;
  ma_env_fluents : list fdecl;        (* ma_environment.fluents *)
  ma_objtys : list ty;
  ma_goals : list cexpr
}.

Definition ma_all_fluents (M : ma_desc) : list fdecl := flat_map ag_fluents (ma_agents M) ++ ma_env_fluents M.
Definition ma_all_actions (M : ma_desc) : list action := flat_map ag_actions (ma_agents M).
Definition ma_all_goals (M : ma_desc) : list cexpr :=
  flat_map (fun ag => ag_private ag ++ ag_public ag) (ma_agents M) ++ ma_goals M.
(* flattened view: every agent's fluents and actions, the environment fluents, every goal *)
Definition flat_ma (M : ma_desc) : problem_desc :=
  {| p_fluents := ma_all_fluents M; p_objtys := ma_objtys M; p_actions := ma_all_actions M; p_events := [];
     p_processes := []; p_teffs := []; p_tgoals := []; p_goals := ma_all_goals M; p_traj := []; p_metrics := [];
     p_discrete := false; p_selfoverlap := false |}.

(* _update_problem_kind_condition *)
Definition ma_cond_feats (c : cexpr) : list feature :=
  let ops := ops_of (ce c) in
     clause f_EQUALITIES (memN op_EQUALS ops)
  ++ clause f_NEGATIVE_CONDITIONS (memN op_NOT ops)
  ++ clause f_DISJUNCTIVE_CONDITIONS (memN op_OR ops || memN op_IMPLIES ops)
  ++ clause f_EXISTENTIAL_CONDITIONS (memN op_EXISTS ops)
  ++ clause f_UNIVERSAL_CONDITIONS (memN op_FORALL ops).
(* _update_problem_kind_effect *)
Definition ma_effect_feats (e : eff) : list feature :=
  (if is_conditional e then ma_cond_feats (ef_cond e) ++ [f_CONDITIONAL_EFFECTS] else [])
  ++ clause f_FORALL_EFFECTS (nonempty (ef_forall e))
  ++ match ef_kind e with KInc => [f_INCREASE_EFFECTS] | KDec => [f_DECREASE_EFFECTS] | _ => [] end.
(* _update_problem_kind_fluent (no unused-fluent analysis: every numeric fluent counts) *)
Definition ma_fluent_feats (fd : fdecl) : list feature :=
  M.type_feats (fd_ty fd)
  ++ match fd_ty fd with
     | TInt lo hi => clause f_BOUNDED_TYPES (lo || hi) ++ [f_INT_FLUENTS]
     | TReal lo hi => clause f_BOUNDED_TYPES (lo || hi) ++ [f_REAL_FLUENTS]
     | TUser _ _ => [f_OBJECT_FLUENTS]
     | TBool => []
     end
  ++ flat_map M.type_feats (fd_sig fd).
(* _update_problem_kind_action: parameters' types; preconditions / effects; for a DurativeAction CONTINUOUS_TIME,
   conditions.values(), effects.values() (continuous effects, the duration, simulated effects are not read) *)
Definition ma_action_feats (a : action) : list feature :=
  match a with
  | AInst i => flat_map M.type_feats (ia_params i) ++ flat_map ma_cond_feats (ia_pre i) ++ flat_map ma_effect_feats (ia_effs i)
  | ADur d => flat_map M.type_feats (da_params d) ++ [f_CONTINUOUS_TIME]
              ++ flat_map (fun x => ma_cond_feats (snd x)) (da_conds d)
              ++ flat_map (fun x => ma_effect_feats (snd x)) (da_effs d)
  end.
(* _update_agent_goal_kind *)
Definition ma_agent_goal_feats (ag : agent_desc) : list feature :=
  clause f_AGENT_SPECIFIC_PUBLIC_GOAL (nonempty (ag_public ag))
  ++ clause f_AGENT_SPECIFIC_PRIVATE_GOAL (nonempty (ag_private ag))
  ++ flat_map ma_cond_feats (ag_private ag ++ ag_public ag).
(* MultiAgentProblem.kind (no finalize step) *)
Definition kind_ma (M : ma_desc) : list feature :=
  [f_ACTION_BASED_MULTI_AGENT]
  ++ flat_map (fun ag => flat_map ma_fluent_feats (ag_fluents ag)) (ma_agents M)
  ++ flat_map ma_fluent_feats (ma_env_fluents M)
  ++ flat_map M.type_feats (ma_objtys M)
  ++ flat_map (fun ag => ma_agent_goal_feats ag ++ flat_map ma_action_feats (ag_actions ag)) (ma_agents M)
  ++ flat_map ma_cond_feats (ma_goals M).

(* class-specific clauses *)
Definition spec_ma_class (M : ma_desc) : list feature :=
  [f_ACTION_BASED_MULTI_AGENT]
  ++ clause f_AGENT_SPECIFIC_PUBLIC_GOAL (existsb (fun ag => nonempty (ag_public ag)) (ma_agents M))
  ++ clause f_AGENT_SPECIFIC_PRIVATE_GOAL (existsb (fun ag => nonempty (ag_private ag)) (ma_agents M)).
(* the common features MultiAgentProblem.kind computes at all *)
Definition ma_mask : list feature :=
  [ f_NEGATIVE_CONDITIONS; f_DISJUNCTIVE_CONDITIONS; f_EQUALITIES; f_EXISTENTIAL_CONDITIONS; f_UNIVERSAL_CONDITIONS
  ; f_CONDITIONAL_EFFECTS; f_FORALL_EFFECTS; f_INCREASE_EFFECTS; f_DECREASE_EFFECTS; f_FLAT_TYPING; f_HIERARCHICAL_TYPING
  ; f_INT_FLUENTS; f_REAL_FLUENTS; f_OBJECT_FLUENTS; f_BOUNDED_TYPES ].
(* the common features it never computes although agents' fluents / actions can use them *)
Definition ma_missed : list feature :=
  [ f_BOOL_FLUENT_PARAMETERS; f_BOUNDED_INT_FLUENT_PARAMETERS; f_BOOL_ACTION_PARAMETERS; f_BOUNDED_INT_ACTION_PARAMETERS
  ; f_UNBOUNDED_INT_ACTION_PARAMETERS; f_REAL_ACTION_PARAMETERS; f_INTERPRETED_FUNCTIONS_IN_CONDITIONS
  ; f_INCREASE_CONTINUOUS_EFFECTS; f_DECREASE_CONTINUOUS_EFFECTS
  ; f_STATIC_FLUENTS_IN_BOOLEAN_ASSIGNMENTS; f_STATIC_FLUENTS_IN_NUMERIC_ASSIGNMENTS; f_STATIC_FLUENTS_IN_OBJECT_ASSIGNMENTS
  ; f_FLUENTS_IN_BOOLEAN_ASSIGNMENTS; f_FLUENTS_IN_NUMERIC_ASSIGNMENTS; f_FLUENTS_IN_OBJECT_ASSIGNMENTS
  ; f_STATIC_FLUENTS_IN_DURATIONS; f_FLUENTS_IN_DURATIONS; f_INTERPRETED_FUNCTIONS_IN_DURATIONS; f_INT_TYPE_DURATIONS
  ; f_REAL_TYPE_DURATIONS; f_DURATION_INEQUALITIES; f_UNDEFINED_INITIAL_NUMERIC; f_UNDEFINED_INITIAL_SYMBOLIC ].
(* proved part / full statement *)
Definition spec_ma (M : ma_desc) : list feature :=
  filter (fun f => memN f ma_mask) (spec_features (flat_ma M)) ++ spec_ma_class M.
Definition spec_ma_full (M : ma_desc) : list feature := spec_features (flat_ma M) ++ spec_ma_class M.

(* well-formedness: the flattened view is well-formed; continuous effects of durative actions are plain (unconditional,
   unquantified: DurativeAction.add_continuous_increase/decrease_effect takes no condition / forall); every user type of
   a forall-effect variable is also the type of an object, a fluent (value or parameter) or an action parameter (the
   class's kind never looks at the variables of a forall effect: without this FLAT/HIERARCHICAL_TYPING can be missed) *)
Definition ma_decl_types (M : ma_desc) : list ty :=
  ma_objtys M ++ flat_map (fun fd => fd_ty fd :: fd_sig fd) (ma_all_fluents M)
  ++ flat_map Spec.action_params (ma_all_actions M).
Definition ma_var_types (M : ma_desc) : list ty :=
  flat_map (fun e => map snd (ef_forall e)) (Spec.all_effects (flat_ma M)).
Definition ma_ceffs (M : ma_desc) : list eff :=
  flat_map (fun a => match a with ADur d => map snd (da_ceffs d) | AInst _ => [] end) (ma_all_actions M).
Definition ma_var_types_okb (M : ma_desc) : bool :=
  forallb (fun t => forallb (fun f => memN f (flat_map M.type_feats (ma_decl_types M))) (M.type_feats t)) (ma_var_types M).
Definition wf_mab (M : ma_desc) : bool :=
  wfb (flat_ma M) && forallb wf_process_eff (ma_ceffs M) && ma_var_types_okb M.
Definition wf_ma (M : ma_desc) : Prop := wf_mab M = true.
(* the full statement, without mask: FALSE of the code (Props/C10_classes.v : ..._multi_agent_refuted) *)
Definition kind_covers_features_multi_agent_goal : Prop :=
  forall M, wfb (flat_ma M) = true -> incl (spec_ma_full M) (kind_ma M).

(* ============================================================================================== HIERARCHICAL *)
(* unified_planning/model/htn/hierarchical_problem.py.  A HierarchicalProblem IS a Problem plus tasks, methods and the
   initial task network.  Observed input: the ordering level of a task network (0 = total_order() is not None,
   1 = partial_order() is not None, 2 = otherwise; computed by unified_planning/model/htn/ordering.py). *)
Record method_desc := {
  me_params : list ty;
  me_pre : list cexpr;                (* preconditions *)
  me_constraints : list cexpr;        (* non_temporal_constraints() (constraints never contain fluents: add_constraint asserts it) *)
  me_lvl : N;                         (* lvl(method) *)
  me_subtask_args : list expr         (* arguments of its subtasks (never read by kind) *)
}.
Record hier_desc := {
  hp_base : problem_desc;
  hp_task_params : list ty;           (* parameters of the abstract tasks *)
  hp_methods : list method_desc;
  hp_tn_vars : list ty;               (* task_network.variables *)
  hp_tn_constraints : list cexpr;     (* task_network.non_temporal_constraints() *)
  hp_tn_lvl : N                       (* lvl(task_network) *)
}.
(* the expressions HierarchicalProblem.kind passes to update_problem_kind_expression, in the order of the code; the
   same expressions (plus the temporal constraints, which cannot contain fluents) are what the overridden
   _get_static_and_unused_fluents removes from the unused fluents *)
Definition hier_conditions (H : hier_desc) : list cexpr :=
  hp_tn_constraints H ++ flat_map (fun m => me_pre m ++ me_constraints m) (hp_methods H).
(* flattened view: the base problem with those expressions as further conditions *)
Definition flat_hier (H : hier_desc) : problem_desc := with_goals (hp_base H) (hier_conditions H).

Definition hier_max_lvl (H : hier_desc) : N := fold_left N.max (map me_lvl (hp_methods H)) (hp_tn_lvl H).
(* the update_problem_kind_type calls of HierarchicalProblem.kind (since fix c453608 of /repo: parameters of the tasks,
   task-network variables, and - inside the method loop - parameters of each method) *)
Definition hier_type_feats (H : hier_desc) : list feature :=
  flat_map M.type_feats (hp_task_params H) ++ flat_map M.type_feats (hp_tn_vars H)
  ++ flat_map (fun m => flat_map M.type_feats (me_params m)) (hp_methods H).
(* the set_hierarchical / set_time calls of HierarchicalProblem.kind *)
Definition hier_class_feats0 (H : hier_desc) : list feature :=
  clause f_INITIAL_TASK_NETWORK_VARIABLES (nonempty (hp_tn_vars H))
  ++ clause f_TASK_NETWORK_CONSTRAINTS (nonempty (hp_tn_constraints H))
  ++ flat_map (fun m => clause f_METHOD_PRECONDITIONS (nonempty (me_pre m))
                        ++ clause f_TASK_NETWORK_CONSTRAINTS (nonempty (me_constraints m))) (hp_methods H)
  ++ match hier_max_lvl H with
     | 0%N => [f_TASK_ORDER_TOTAL]
     | 1%N => [f_TASK_ORDER_PARTIAL]
     | _ => [f_TASK_ORDER_TEMPORAL; f_CONTINUOUS_TIME]
     end.
Definition hier_class_feats (H : hier_desc) : list feature := hier_type_feats H ++ hier_class_feats0 H.
(* HierarchicalProblem.kind:  factory = self._kind_factory()   -- Problem._kind_factory with the OVERRIDDEN
   _get_static_and_unused_fluents: as a set of set_* calls this is M.raw of the flattened view without the
   update_problem_kind_expression calls on the extra conditions, which the code makes itself right after;
   set_problem_class("HIERARCHICAL"); unset_problem_class("ACTION_BASED"); the class features; factory.finalize().
   The unset triggers of SIMPLE_NUMERIC_PLANNING are those of the flattened view for the same reason. *)
Definition hier_raw (H : hier_desc) : list feature :=
  f_HIERARCHICAL :: filter (fun f => negb (f =? f_ACTION_BASED)%N) (M.raw (flat_hier H)) ++ hier_class_feats H.
Definition kind_hier (H : hier_desc) : list feature :=
  M.finalize (flat_hier H) (hier_raw H) (M.snp_unset (flat_hier H)).

(* class-specific clauses (independent of the fold in hier_max_lvl) *)
Definition hier_lvls (H : hier_desc) : list N := hp_tn_lvl H :: map me_lvl (hp_methods H).
Definition spec_hier_class (H : hier_desc) : list feature :=
  [f_HIERARCHICAL]
  ++ clause f_METHOD_PRECONDITIONS (existsb (fun m => nonempty (me_pre m)) (hp_methods H))
  ++ clause f_TASK_NETWORK_CONSTRAINTS
       (nonempty (hp_tn_constraints H) || existsb (fun m => nonempty (me_constraints m)) (hp_methods H))
  ++ clause f_INITIAL_TASK_NETWORK_VARIABLES (nonempty (hp_tn_vars H))
  ++ clause f_TASK_ORDER_TEMPORAL (existsb (fun l => (2 <=? l)%N) (hier_lvls H))
  ++ clause f_TASK_ORDER_PARTIAL (negb (existsb (fun l => (2 <=? l)%N) (hier_lvls H)) && existsb (fun l => (l =? 1)%N) (hier_lvls H))
  ++ clause f_TASK_ORDER_TOTAL (forallb (fun l => (l =? 0)%N) (hier_lvls H)).
(* [spec_hier]: common + class features; [spec_hier_full] adds the typing of method / task parameters and variables *)
Definition spec_hier (H : hier_desc) : list feature := spec_features (flat_hier H) ++ spec_hier_class H.
(* typing of the parameters of methods and tasks and of the task-network variables (visited since fix c453608) *)
Definition hier_param_types (H : hier_desc) : list ty :=
  hp_task_params H ++ flat_map me_params (hp_methods H) ++ hp_tn_vars H.
Definition spec_hier_params (H : hier_desc) : list feature := flat_map spec_type_features (hier_param_types H).
Definition wf_hier (H : hier_desc) : Prop := wf (flat_hier H).
Definition spec_hier_full (H : hier_desc) : list feature := spec_hier H ++ spec_hier_params H.
(* the full statement: PROVED since fix c453608 (Props/C10_classes.v : C10_kind_covers_features_hierarchical) *)
Definition kind_covers_features_hierarchical_goal : Prop :=
  forall H, wf_hier H -> incl (spec_hier_full H) (kind_hier H).

(* ================================================================================================ SCHEDULING *)
(* unified_planning/model/scheduling/scheduling_problem.py.  A SchedulingProblem is NOT a Problem: _KindFactory is built
   with the four sets static_fluents / unused_fluents / fluents_in_durations / fluents_in_action_costs EMPTY. *)
Record activity_desc := {
  ac_optional : bool;
  ac_params : list ty;
  ac_lo : dexpr; ac_hi : dexpr;                    (* duration *)
  ac_conds : list (interval * cexpr);              (* conditions.items(), flattened *)
  ac_effs : list (tm * eff);                       (* effects.items(), flattened *)
  ac_constraints : list (cexpr * bool)             (* scoped_constraints: (constraint, len(scope) > 0) *)
}.
Record sched_desc := {
  sp_fluents : list fdecl;
  sp_objtys : list ty;
  sp_metrics : list metric;
  sp_vars : list ty;                               (* base_variables: decision variables of the base chronicle (update_action_parameter since fix c7cadef) *)
  sp_conds : list (interval * cexpr);              (* base_conditions *)
  sp_effs : list (tm * eff);                       (* base_effects *)
  sp_constraints : list (cexpr * bool);            (* base_scoped_constraints *)
  sp_activities : list activity_desc;
  sp_discrete : bool; sp_selfoverlap : bool
}.
Definition activity_as_action (a : activity_desc) : action :=
  ADur {| da_params := ac_params a; da_lo := ac_lo a; da_hi := ac_hi a; da_conds := ac_conds a; da_effs := ac_effs a;
          da_ceffs := []; da_sims := []; da_motion := false |}.
Definition sched_constraints (S : sched_desc) : list (cexpr * bool) :=
  sp_constraints S ++ flat_map ac_constraints (sp_activities S).
(* flattened view: activities as durative actions, base conditions / effects as timed goals / effects, constraints as
   goals *)
Definition flat_sched (S : sched_desc) : problem_desc :=
  {| p_fluents := sp_fluents S; p_objtys := sp_objtys S; p_actions := map activity_as_action (sp_activities S);
     p_events := []; p_processes := [];
     p_teffs := map (fun te => (fst te, [snd te])) (sp_effs S);
     p_tgoals := map (fun tc => (fst tc, [snd tc])) (sp_conds S);
     p_goals := map fst (sched_constraints S);
     p_traj := []; p_metrics := sp_metrics S; p_discrete := sp_discrete S; p_selfoverlap := sp_selfoverlap S |}.

(* the state of a _KindFactory built for a non-Problem: no declared static / unused fluent at all.  Passing this
   description to the M.*_feats functions makes `f in static_fluents` and `f in unused_fluents` false for every f. *)
Definition no_sets : problem_desc :=
  {| p_fluents := []; p_objtys := []; p_actions := []; p_events := []; p_processes := []; p_teffs := []; p_tgoals := [];
     p_goals := []; p_traj := []; p_metrics := []; p_discrete := false; p_selfoverlap := false |}.

Definition constraint_feats (c : cexpr * bool) : list feature := M.expr_feats (fst c) ++ clause f_SCOPED_CONSTRAINTS (snd c).
Definition activity_feats (a : activity_desc) : list feature :=
  clause f_OPTIONAL_ACTIVITIES (ac_optional a)
  ++ M.duration_feats no_sets (ac_lo a) (ac_hi a)
  ++ flat_map M.param_feats (ac_params a)
  ++ flat_map (M.timed_effect_feats no_sets) (ac_effs a)
  ++ flat_map M.timed_condition_feats (ac_conds a)
  ++ flat_map constraint_feats (ac_constraints a).
(* _KindFactory.__init__ (metrics, fluents, objects) + SchedulingProblem.kind, every set_* call *)
Definition sched_raw (S : sched_desc) : list feature :=
  [f_SCHEDULING]
  ++ flat_map (M.metric_feats no_sets) (sp_metrics S)
  ++ flat_map (M.fluent_feats no_sets) (sp_fluents S)
  ++ flat_map M.type_feats (sp_objtys S)
  ++ [f_CONTINUOUS_TIME]
  ++ clause f_TIMED_GOALS (nonempty (sp_conds S))
  ++ clause f_TIMED_EFFECTS (nonempty (sp_effs S))
  ++ flat_map (fun x => M.expr_feats (snd x)) (sp_conds S ++ flat_map ac_conds (sp_activities S))     (* all_conditions() *)
  ++ flat_map constraint_feats (sp_constraints S)
  ++ flat_map (fun x => M.effect_feats no_sets (snd x)) (sp_effs S)
  ++ flat_map M.param_feats (sp_vars S)                                                                 (* base_variables (fix c7cadef) *)
  ++ flat_map activity_feats (sp_activities S)
  ++ flat_map M.initial_feats (sp_fluents S).
Definition sched_unset (S : sched_desc) : bool :=
  existsb M.metric_unsets (sp_metrics S)
  || existsb (fun x => M.expr_unsets (snd x)) (sp_conds S ++ flat_map ac_conds (sp_activities S))
  || existsb (fun c => M.expr_unsets (fst c)) (sched_constraints S)
  || existsb (fun x => M.effect_unsets (snd x)) (sp_effs S)
  || existsb (fun a => existsb (fun x => M.effect_unsets (snd x)) (ac_effs a)) (sp_activities S).
Definition kind_sched (S : sched_desc) : list feature := M.finalize (flat_sched S) (sched_raw S) (sched_unset S).

(* the class has no notion of static fluent: a STATIC_FLUENTS_IN_x use is reported as FLUENTS_IN_x *)
Definition unstatic (f : feature) : feature :=
  if (f =? f_STATIC_FLUENTS_IN_BOOLEAN_ASSIGNMENTS)%N then f_FLUENTS_IN_BOOLEAN_ASSIGNMENTS
  else if (f =? f_STATIC_FLUENTS_IN_NUMERIC_ASSIGNMENTS)%N then f_FLUENTS_IN_NUMERIC_ASSIGNMENTS
  else if (f =? f_STATIC_FLUENTS_IN_OBJECT_ASSIGNMENTS)%N then f_FLUENTS_IN_OBJECT_ASSIGNMENTS
  else if (f =? f_STATIC_FLUENTS_IN_DURATIONS)%N then f_FLUENTS_IN_DURATIONS
  else if (f =? f_STATIC_FLUENTS_IN_ACTIONS_COST)%N then f_FLUENTS_IN_ACTIONS_COST
  else f.
Definition spec_sched_class (S : sched_desc) : list feature :=
  [f_SCHEDULING]
  ++ clause f_OPTIONAL_ACTIVITIES (existsb ac_optional (sp_activities S))
  ++ clause f_SCOPED_CONSTRAINTS (existsb snd (sched_constraints S)).
Definition spec_sched (S : sched_desc) : list feature :=
  map unstatic (spec_features (flat_sched S)) ++ spec_sched_class S.
(* the decision variables of the base chronicle: the same clauses as activity parameters (visited since fix c7cadef) *)
Definition spec_sched_vars (S : sched_desc) : list feature := flat_map spec_param_features (sp_vars S).
Definition wf_sched (S : sched_desc) : Prop := wf (flat_sched S).
Definition spec_sched_full (S : sched_desc) : list feature := spec_sched S ++ spec_sched_vars S.
(* the full statement: PROVED since fix c7cadef (Props/C10_classes.v : C10_kind_covers_features_scheduling) *)
Definition kind_covers_features_scheduling_goal : Prop :=
  forall S, wf_sched S -> incl (spec_sched_full S) (kind_sched S).
(* literal reading (STATIC_ features kept): also false of the code *)
Definition kind_covers_features_scheduling_static_goal : Prop :=
  forall S, wf_sched S -> incl (spec_features (flat_sched S)) (kind_sched S).
