(* Executable model of the plan conversions of
   unified_planning/engines/compilers/durative_actions_to_processes.py :
     _forward_plan_to_plan, _back_plan_to_plan, _action_variable_duration,
   and of the part of _compile/_compile_durative_action that decides WHICH compiled transitions are plan actions:
     * an InstantaneousAction a            -> one compiled action (a clone, "a")                     [CStart a]
     * a DurativeAction with a fixed duration (closed interval, lower == upper)
                                           -> "a_start" action [CStart a]; its end is the EVENT "a_end"
                                              (never part of a plan; first_end_action is None)
     * a DurativeAction with a variable duration
                                           -> "a_start" [CStart a] and the action "a_first_end" [CFirstEnd a] placed at
                                              the earliest from-end timing (delay <= 0; 0 when it is the end itself).
   Time is exact: Python Fractions are always reduced, so every computed value goes through Qred.
   Actual parameters are objects or integer constants (hash-consed FNodes: == is syntactic identity). *)
From Coq Require Import List ZArith NArith QArith Bool.
Import ListNotations.
Open Scope Q_scope.

Inductive pval := PObj (o : N) | PInt (z : Z).

Definition pval_eqb (a b : pval) : bool :=
  match a, b with
  | PObj x, PObj y => (x =? y)%N
  | PInt x, PInt y => (x =? y)%Z
  | _, _ => false
  end.

Fixpoint pvals_eqb (a b : list pval) : bool :=
  match a, b with
  | [], [] => true
  | x :: a', y :: b' => pval_eqb x y && pvals_eqb a' b'
  | _, _ => false
  end.

(* duration expressions: what `simplifier.simplify(duration.lower.substitute(params))` evaluates
   (constants, integer parameters, static fluents applied to parameters, + - * ) *)
Inductive dexp :=
| DConst (q : Q)
| DParam (i : nat)
| DStatic (f : N) (args : list nat)
| DPlus (a b : dexp)
| DMinus (a b : dexp)
| DTimes (a b : dexp).

Definition statics := list ((N * list pval) * Q).   (* initial values of the static fluents *)

Fixpoint lookup_static (f : N) (vs : list pval) (S : statics) : option Q :=
  match S with
  | [] => None
  | ((g, ws), q) :: S' => if (f =? g)%N && pvals_eqb vs ws then Some q else lookup_static f vs S'
  end.

Fixpoint pick (ps : list pval) (idx : list nat) : option (list pval) :=
  match idx with
  | [] => Some []
  | i :: idx' =>
      match nth_error ps i, pick ps idx' with
      | Some v, Some r => Some (v :: r)
      | _, _ => None
      end
  end.

Definition obind {A B} (x : option A) (f : A -> option B) : option B :=
  match x with Some a => f a | None => None end.

Fixpoint eval_raw (S : statics) (ps : list pval) (e : dexp) : option Q :=
  match e with
  | DConst q => Some q
  | DParam i => match nth_error ps i with Some (PInt z) => Some (inject_Z z) | _ => None end
  | DStatic f args => obind (pick ps args) (fun vs => lookup_static f vs S)
  | DPlus a b => obind (eval_raw S ps a) (fun x => obind (eval_raw S ps b) (fun y => Some (x + y)))
  | DMinus a b => obind (eval_raw S ps a) (fun x => obind (eval_raw S ps b) (fun y => Some (x - y)))
  | DTimes a b => obind (eval_raw S ps a) (fun x => obind (eval_raw S ps b) (fun y => Some (x * y)))
  end.

(* Fraction(simplify(lower.substitute(subs)).constant_value()); None = `assert duration_lower.is_constant()` fails *)
Definition eval_dur (S : statics) (ps : list pval) (e : dexp) : option Q :=
  option_map Qred (eval_raw S ps e).

Inductive akind :=
| KInst
| KFixed (d : dexp)            (* not _action_variable_duration(a) *)
| KVar (delay : Q).            (* _action_variable_duration(a); delay of first_end_timing (<= 0) *)

Record problem := { p_acts : list (N * akind); p_statics : statics }.

Fixpoint kind_in (a : N) (l : list (N * akind)) : option akind :=
  match l with
  | [] => None
  | (b, k) :: l' => if (a =? b)%N then Some k else kind_in a l'
  end.
Definition kind_of (P : problem) (a : N) : option akind := kind_in a (p_acts P).

(* compiled plan actions *)
Inductive cact := CStart (a : N) | CFirstEnd (a : N).

Definition key := (N * list pval)%type.
Definition key_eqb (x y : key) : bool := (fst x =? fst y)%N && pvals_eqb (snd x) (snd y).

(* (start, action instance, duration) *)
Definition oentry := (Q * key * option Q)%type.
Definition centry := (Q * (cact * list pval) * option Q)%type.

Definition Qlt_bool (a b : Q) : bool := negb (Qle_bool b a).

(* ---------------------------------------------------------------- _forward_plan_to_plan *)
(* None = an exception (KeyError for an unknown action, AssertionError of `assert 0 < end_trigger_time_delay <= duration`
   or of `duration is not None`) *)
Fixpoint forward (P : problem) (pi : list oentry) : option (list centry) :=
  match pi with
  | [] => Some []
  | (t, (a, ps), d) :: rest =>
      match kind_of P a with
      | None => None
      | Some (KVar delta) =>
          match d with
          | None => None
          | Some dur =>
              let e := Qred (dur + delta) in
              if Qlt_bool 0 e && Qle_bool e dur
              then option_map (fun r => (t, (CStart a, ps), None) :: (Qred (t + e), (CFirstEnd a, ps), None) :: r)
                              (forward P rest)
              else None
          end
      | Some _ => option_map (fun r => (t, (CStart a, ps), None) :: r) (forward P rest)
      end
  end.

(* ---------------------------------------------------------------- _back_plan_to_plan *)
(* sorted(plan.timed_actions, key=lambda x: x[0]) : a STABLE sort on the trigger time *)
Definition time_of {A} (e : Q * A * option Q) : Q := fst (fst e).

Fixpoint insert_t {A} (x : Q * A * option Q) (l : list (Q * A * option Q)) : list (Q * A * option Q) :=
  match l with
  | [] => [x]
  | y :: l' => if Qle_bool (time_of x) (time_of y) then x :: y :: l' else y :: insert_t x l'
  end.

Definition sort_t {A} (l : list (Q * A * option Q)) : list (Q * A * option Q) :=
  fold_right insert_t [] l.

(* new_actions : defaultdict(list) keyed by (original action, parameters); a Python dict keeps insertion order *)
Definition dict := list (key * list oentry).

Fixpoint dict_append (k : key) (e : oentry) (d : dict) : dict :=
  match d with
  | [] => [(k, [e])]
  | (k', l) :: d' => if key_eqb k k' then (k', l ++ [e]) :: d' else (k', l) :: dict_append k e d'
  end.

Fixpoint pop_last {A} (l : list A) : option (list A * A) :=
  match l with
  | [] => None
  | [x] => Some ([], x)
  | x :: l' => match pop_last l' with Some (r, y) => Some (x :: r, y) | None => None end
  end.

(* `new_actions_list = new_actions[k]; x = new_actions_list.pop()` : None = IndexError (pop from empty list) *)
Fixpoint dict_pop (k : key) (d : dict) : option (oentry * dict) :=
  match d with
  | [] => None
  | (k', l) :: d' =>
      if key_eqb k k'
      then match pop_last l with Some (r, x) => Some (x, (k', r) :: d') | None => None end
      else match dict_pop k d' with Some (x, d'') => Some (x, (k', l) :: d'') | None => None end
  end.

Fixpoint back_loop (P : problem) (sorted : list centry) (d : dict) : option dict :=
  match sorted with
  | [] => Some d
  | (t, (CStart a, ps), _) :: rest =>
      match kind_of P a with
      | None => None                                         (* UPValueError: not a compiled action *)
      | Some (KFixed ex) =>
          match eval_dur (p_statics P) ps ex with
          | None => None                                     (* assert duration_lower.is_constant() *)
          | Some q => back_loop P rest (dict_append (a, ps) (t, (a, ps), Some q) d)
          end
      | Some _ => back_loop P rest (dict_append (a, ps) (t, (a, ps), None) d)
      end
  | (t, (CFirstEnd a, ps), _) :: rest =>
      match kind_of P a with
      | Some (KVar delta) =>
          match dict_pop (a, ps) d with
          | None => None                                     (* IndexError *)
          | Some ((t0, ai, Some _), _) => None               (* assert duration is None *)
          | Some ((t0, ai, None), d') =>
              if Qle_bool t0 t                               (* assert trigger_time >= start_trigger_time *)
              then back_loop P rest (dict_append (a, ps) (t0, ai, Some (Qred (t - t0 - delta))) d')
              else None
          end
      | _ => None                                            (* UPValueError *)
      end
  end.

Definition flatten (d : dict) : list oentry := flat_map snd d.

(* the final loop: `assert duration is None` for instantaneous, `assert duration is not None` for durative actions *)
Definition final_ok (P : problem) (e : oentry) : bool :=
  match kind_of P (fst (snd (fst e))), snd e with
  | Some KInst, None => true
  | Some (KFixed _), Some _ => true
  | Some (KVar _), Some _ => true
  | _, _ => false
  end.

Definition back (P : problem) (pi : list centry) : option (list oentry) :=
  match back_loop P (sort_t pi) [] with
  | None => None
  | Some d => if forallb (final_ok P) (flatten d) then Some (flatten d) else None
  end.

(* ---------------------------------------------------------------- specification side *)
(* the order in which back (forward pi) lists the plan: sorted by start time (stable), then grouped by
   (action, parameters) in order of first occurrence *)
Definition key_of (e : oentry) : key := snd (fst e).
Definition regroup (l : list oentry) : list oentry :=
  flatten (fold_left (fun d e => dict_append (key_of e) e d) l []).

(* a timed instance of the plan agrees with its action: no duration for an instantaneous action, the value of the
   fixed duration expression under the actual parameters for a fixed-duration action *)
Definition wf_fixed_entry (P : problem) (e : oentry) : Prop :=
  match kind_of P (fst (key_of e)) with
  | Some KInst => snd e = None
  | Some (KFixed ex) => exists q, eval_dur (p_statics P) (snd (key_of e)) ex = Some q /\ snd e = Some q
  | _ => False
  end.
