(* C30 — belief-space (conformant) semantics over the shared sequential semantics [spec_step false], the verified
   checkers used to validate the KS0 conformant-to-classical compilation, and a model of the dominated-state
   reduction of unified_planning/engines/compilers/ks0_compiler.py.  Definitions only (proofs: Proofs/Belief_proofs.v).

   Part 0  generic breadth-first exploration with a seen set (used by every checker below)
   Part 1  finite states: tabulation of a [state] over a key list, steps on tabulated states
   Part 2  belief semantics: a plan is conformant iff from EVERY possible initial state it is executable and ends in
           a goal state; [conformant_check]; bounded exhaustive search [exists_conformant_plan]
   Part 3  translation validation: product exploration "compiled state x belief state of the mapped-back plan"
           ([sound_check]); exact unsolvability of a classical problem by closure ([unsolvable_closed]);
           plan-carrying searches that return witnesses (re-validated by [valid_plan] / [conformant_check])
   Part 4  literal-level model of Ks0Compiler._get_relevance_relation / _reduce_possible_initial_states_to_basis *)
From Coq Require Import List ZArith NArith Bool.
Import ListNotations.
Require Import UPV.Core.Expr UPV.Core.Eval UPV.Core.Interp UPV.Planning.Problem UPV.Planning.Sem.

Definition step_id := (N * list value)%type.          (* ground action instance = (action id, actual parameters) *)
Definition plan := list step_id.

(* ================================================================== Part 0: breadth-first exploration *)
Section BFS.
  Context {node : Type}.
  Variable eqb : node -> node -> bool.
  Variable succs : node -> list node.

  Definition nmem (x : node) (l : list node) : bool := existsb (eqb x) l.

  (* add the candidates that were not seen before; returns (seen', newly added) *)
  Fixpoint add_new (seen new : list node) (cands : list node) : list node * list node :=
    match cands with
    | [] => (seen, new)
    | c :: cs => if nmem c seen then add_new seen new cs else add_new (c :: seen) (c :: new) cs
    end.

  (* n rounds; after round i [seen] contains every node reachable in at most i steps *)
  Fixpoint bfs (n : nat) (seen frontier : list node) : list node :=
    match n with
    | O => seen
    | S n' => let '(seen', new) := add_new seen [] (flat_map succs frontier) in bfs n' seen' new
    end.

  (* V is closed under successors (then it contains everything reachable from its members, at any depth) *)
  Definition closedb (V : list node) : bool :=
    forallb (fun x => forallb (fun y => nmem y V) (succs x)) V.
End BFS.

(* ================================================================== Part 1: finite states *)
Definition fstate := list (N * list value * value).

Definition fst_of (l : fstate) : state := fun f a => lookup_app f a l.

Definition tab (K : list gfl) (s : state) : fstate :=
  flat_map (fun k => match s (fst k) (snd k) with Some v => [(fst k, snd k, v)] | None => [] end) K.

Definition keys_in (K : list gfl) (l : fstate) : bool :=
  forallb (fun e => amem (fst (fst e), snd (fst e)) K) l.

Definition entry_eqb (a b : N * list value * value) : bool :=
  gfl_eqb (fst a) (fst b) && value_eqb (snd a) (snd b).

Fixpoint fstate_eqb (a b : fstate) : bool :=
  match a, b with
  | [], [] => true
  | x :: a', y :: b' => entry_eqb x y && fstate_eqb a' b'
  | _, _ => false
  end.

(* one step on a tabulated state.  FErr = an effect of the instance writes a key outside K (the tabulation would lose
   it): the checkers report "outside the model" instead of an answer. *)
Inductive fres := FErr | FNone | FSome (l : fstate).

Definition fstep (K : list gfl) (P : problem) (l : fstate) (a : action) (args : list value) : fres :=
  let s := fst_of l in
  match fired false (mk_interp P s (zip_params (a_params a) args)) (a_effs a) with
  | Some acts =>
      if forallb (fun x => amem (ae_key x) K) acts
      then match spec_step false P s a args with Some s' => FSome (tab K s') | None => FNone end
      else FErr
  | None => FNone
  end.

(* ================================================================== Part 2: belief semantics *)
Fixpoint map_opt {A B} (f : A -> option B) (l : list A) : option (list B) :=
  match l with
  | [] => Some []
  | x :: l' => match f x, map_opt f l' with Some y, Some r => Some (y :: r) | _, _ => None end
  end.

(* progression of a belief state (= list of the states that are possible now): the instance must be applicable in
   every one of them *)
Definition sstep (P : problem) (s : state) (st : step_id) : option state :=
  match lookup_action P (fst st) with
  | None => None
  | Some a => spec_step false P s a (snd st)
  end.

Definition bstep (P : problem) (b : list state) (st : step_id) : option (list state) :=
  map_opt (fun s => sstep P s st) b.

Fixpoint brun (P : problem) (b : list state) (pi : plan) : option (list state) :=
  match pi with
  | [] => Some b
  | st :: pi' => match bstep P b st with Some b' => brun P b' pi' | None => None end
  end.

Definition bgoal (P : problem) (b : list state) : bool := forallb (goals_hold false P) b.

Definition conformant_check (P : problem) (inits : list state) (pi : plan) : bool :=
  match brun P inits pi with Some b => bgoal P b | None => false end.

(* ---- search over tabulated belief states; a node is [Some belief] or [None] = outside the model *)
Inductive bres := BErr | BNone | BSome (b : list fstate).

Fixpoint fmap_step (K : list gfl) (P : problem) (a : action) (args : list value) (b : list fstate) : bres :=
  match b with
  | [] => BSome []
  | l :: b' =>
      match fstep K P l a args, fmap_step K P a args b' with
      | FErr, _ => BErr
      | _, BErr => BErr
      | FNone, _ => BNone
      | _, BNone => BNone
      | FSome l', BSome r => BSome (l' :: r)
      end
  end.

Definition bnode := option (list fstate).

Fixpoint belief_eqb (a b : list fstate) : bool :=
  match a, b with
  | [], [] => true
  | x :: a', y :: b' => fstate_eqb x y && belief_eqb a' b'
  | _, _ => false
  end.

Definition bnode_eqb (a b : bnode) : bool :=
  match a, b with
  | None, None => true
  | Some x, Some y => belief_eqb x y
  | _, _ => false
  end.

Definition bsucc1 (K : list gfl) (P : problem) (b : list fstate) (st : step_id) : list bnode :=
  match lookup_action P (fst st) with
  | None => []
  | Some a => match fmap_step K P a (snd st) b with BErr => [None] | BNone => [] | BSome b' => [Some b'] end
  end.

Definition bsuccs (K : list gfl) (P : problem) (insts : list step_id) (x : bnode) : list bnode :=
  match x with
  | None => []
  | Some b => flat_map (bsucc1 K P b) insts
  end.

Definition fgoal (P : problem) (l : fstate) : bool := goals_hold false P (fst_of l).
Definition bgoalF (P : problem) (b : list fstate) : bool := forallb (fgoal P) b.

Definition is_none {A} (x : option A) : bool := match x with None => true | Some _ => false end.

Definition belief_nodes (K : list gfl) (P : problem) (insts : list step_id) (inits : list fstate) (n : nat) : list bnode :=
  let x0 : bnode := Some (map (fun l => tab K (fst_of l)) inits) in
  bfs bnode_eqb (bsuccs K P insts) n [x0] [x0].

(* Some true  : a conformant plan of length <= n over [insts] exists
   Some false : none exists
   None       : outside the model (an initial state or an effect mentions a key outside K) *)
Definition exists_conformant_plan (K : list gfl) (P : problem) (insts : list step_id) (inits : list fstate) (n : nat)
  : option bool :=
  if negb (forallb (keys_in K) inits) then None
  else let V := belief_nodes K P insts inits n in
       if existsb is_none V then None
       else Some (existsb (fun x => match x with Some b => bgoalF P b | None => false end) V).

(* ================================================================== Part 3: translation validation *)
(* back table: compiled ground instance -> original instance, or None for merge / auxiliary actions *)
Definition back_table := list (step_id * option step_id).

Fixpoint blookup (st : step_id) (t : back_table) : option (option step_id) :=
  match t with
  | [] => None
  | (k, v) :: t' => if gfl_eqb st k then Some v else blookup st t'
  end.

Definition map_back (t : back_table) (pi : plan) : plan :=
  flat_map (fun st => match blookup st t with Some (Some o) => [o] | _ => [] end) pi.

(* product node: compiled state x (belief reached by the mapped-back prefix, None once it stopped being executable
   from some possible initial state);  [None] = outside the model *)
Definition pnode := option (fstate * option (list fstate)).

Definition obelief_eqb (a b : option (list fstate)) : bool :=
  match a, b with
  | None, None => true
  | Some x, Some y => belief_eqb x y
  | _, _ => false
  end.

Definition pnode_eqb (a b : pnode) : bool :=
  match a, b with
  | None, None => true
  | Some (c1, o1), Some (c2, o2) => fstate_eqb c1 c2 && obelief_eqb o1 o2
  | _, _ => false
  end.

Section Product.
  Variable KC : list gfl.       (* ground fluents of the compiled problem *)
  Variable CP : problem.        (* compiled classical problem *)
  Variable KO : list gfl.       (* ground fluents of the original problem *)
  Variable P : problem.         (* original conformant problem *)
  Variable back : back_table.

  (* the original side of one compiled step *)
  Definition oadvance (ob : option (list fstate)) (st : step_id) : option (option (list fstate)) (* None = error *) :=
    match blookup st back with
    | Some (Some ost) =>
        match ob with
        | None => Some None
        | Some b =>
            match lookup_action P (fst ost) with
            | None => Some None
            | Some oa => match fmap_step KO P oa (snd ost) b with
                         | BErr => None
                         | BNone => Some None
                         | BSome b' => Some (Some b')
                         end
            end
        end
    | _ => Some ob
    end.

  Definition psucc1 (cl : fstate) (ob : option (list fstate)) (st : step_id) : list pnode :=
    match lookup_action CP (fst st) with
    | None => []
    | Some a =>
        match fstep KC CP cl a (snd st) with
        | FErr => [None]
        | FNone => []
        | FSome cl' => match oadvance ob st with
                       | None => [None]
                       | Some ob' => [Some (cl', ob')]
                       end
        end
    end.

  Definition psuccs (cacts : list step_id) (x : pnode) : list pnode :=
    match x with
    | None => []
    | Some (cl, ob) => flat_map (psucc1 cl ob) cacts
    end.

  (* a node is good when: the compiled state is a goal state  ==>  the mapped-back prefix is executable from every
     possible initial state and every resulting state is a goal state *)
  Definition pgood (x : pnode) : bool :=
    match x with
    | None => false
    | Some (cl, ob) =>
        if fgoal CP cl then match ob with Some b => bgoalF P b | None => false end else true
    end.

  Definition product_nodes (cacts : list step_id) (c0 : fstate) (inits : list fstate) (n : nat) : list pnode :=
    let x0 : pnode := Some (tab KC (fst_of c0), Some (map (fun l => tab KO (fst_of l)) inits)) in
    bfs pnode_eqb (psuccs cacts) n [x0] [x0].

  (* true: every valid plan of the compiled problem of length <= n maps back to a conformant plan *)
  Definition sound_check (cacts : list step_id) (c0 : fstate) (inits : list fstate) (n : nat) : bool :=
    keys_in KC c0 && forallb (keys_in KO) inits && forallb pgood (product_nodes cacts c0 inits n).

  (* additionally: the explored part is closed, so the statement holds for plans of ANY length *)
  Definition sound_check_closed (cacts : list step_id) (c0 : fstate) (inits : list fstate) (n : nat) : bool :=
    sound_check cacts c0 inits n && closedb pnode_eqb (psuccs cacts) (product_nodes cacts c0 inits n).
End Product.

(* ---- the classical (compiled) problem alone: node = Some state | None (outside the model) *)
Definition cnode := option fstate.
Definition cnode_eqb (a b : cnode) : bool :=
  match a, b with
  | None, None => true
  | Some x, Some y => fstate_eqb x y
  | _, _ => false
  end.

Definition csucc1 (K : list gfl) (P : problem) (l : fstate) (st : step_id) : list cnode :=
  match lookup_action P (fst st) with
  | None => []
  | Some a => match fstep K P l a (snd st) with FErr => [None] | FNone => [] | FSome l' => [Some l'] end
  end.

Definition csuccs (K : list gfl) (P : problem) (acts : list step_id) (x : cnode) : list cnode :=
  match x with None => [] | Some l => flat_map (csucc1 K P l) acts end.

Definition classical_nodes (K : list gfl) (P : problem) (acts : list step_id) (c0 : fstate) (n : nat) : list cnode :=
  let x0 : cnode := Some (tab K (fst_of c0)) in bfs cnode_eqb (csuccs K P acts) n [x0] [x0].

(* true: NO plan over [acts], of any length, is valid (the explored set is closed and contains no goal state) *)
Definition unsolvable_closed (K : list gfl) (P : problem) (acts : list step_id) (c0 : fstate) (n : nat) : bool :=
  let V := classical_nodes K P acts c0 n in
  keys_in K c0 && closedb cnode_eqb (csuccs K P acts) V
  && forallb (fun x => match x with Some l => negb (fgoal P l) | None => false end) V.

(* ---- plan-carrying searches (NOT verified: their results are re-validated by valid_plan / conformant_check) *)
Section PlanSearch.
  Context {key : Type}.
  Variable keqb : key -> key -> bool.
  Variable ksuccs : key -> list (step_id * key).
  Variable kgoal : key -> bool.

  Definition kmem (k : key) (l : list key) : bool := existsb (keqb k) l.

  Fixpoint expand (seen : list key) (new : list (key * plan)) (cands : list (key * plan))
    : list key * list (key * plan) :=
    match cands with
    | [] => (seen, new)
    | (k, p) :: cs => if kmem k seen then expand seen new cs else expand (k :: seen) ((k, p) :: new) cs
    end.

  (* plans are kept reversed while searching *)
  Fixpoint search (n : nat) (seen : list key) (frontier : list (key * plan)) : option plan :=
    match find (fun kp => kgoal (fst kp)) frontier with
    | Some (_, p) => Some (rev p)
    | None =>
        match n with
        | O => None
        | S n' =>
            let cands := flat_map (fun kp => map (fun sk => (snd sk, fst sk :: snd kp)) (ksuccs (fst kp))) frontier in
            let '(seen', new) := expand seen [] cands in
            match new with [] => None | _ => search n' seen' (rev new) end
        end
    end.
End PlanSearch.

Definition find_plan (K : list gfl) (P : problem) (acts : list step_id) (c0 : fstate) (n : nat) : option plan :=
  let k0 := tab K (fst_of c0) in
  search fstate_eqb
    (fun l => flat_map (fun st => match csucc1 K P l st with [Some l'] => [(st, l')] | _ => [] end) acts)
    (fgoal P) n [k0] [(k0, [])].

Definition find_conformant (K : list gfl) (P : problem) (insts : list step_id) (inits : list fstate) (n : nat)
  : option plan :=
  let k0 := map (fun l => tab K (fst_of l)) inits in
  search belief_eqb
    (fun b => flat_map (fun st => match bsucc1 K P b st with [Some b'] => [(st, b')] | _ => [] end) insts)
    (bgoalF P) n [k0] [(k0, [])].

(* a shortest valid compiled plan (length <= n) whose image is not conformant, with the product exploration *)
Definition find_unsound (KC : list gfl) (CP : problem) (KO : list gfl) (P : problem) (back : back_table)
  (cacts : list step_id) (c0 : fstate) (inits : list fstate) (n : nat) : option plan :=
  let k0 := (tab KC (fst_of c0), Some (map (fun l => tab KO (fst_of l)) inits)) in
  search (fun a b => pnode_eqb (Some a) (Some b))
    (fun k => flat_map (fun st => match psucc1 KC CP KO P back (fst k) (snd k) st with
                                  | [Some k'] => [(st, k')] | _ => [] end) cacts)
    (fun k => negb (pgood CP P (Some k))) n [k0] [(k0, [])].

(* ================================================================== Part 4: literal-level model of the reduction *)
(* The reduction works on the "prepared" normalized problem: ground atoms, actions whose preconditions are lists of
   literals and whose effects are rules  C -> L  (C a list of literals).  Atoms are numbered by their position in
   prepared_problem.ground_fluent_expressions. *)
Definition lit := (N * bool)%type.                    (* (atom, true) = atom, (atom, false) = Not(atom) *)
Definition lneg (l : lit) : lit := (fst l, negb (snd l)).
Definition lit_eqb (a b : lit) : bool := (fst a =? fst b)%N && Bool.eqb (snd a) (snd b).
Definition lmem (l : lit) (s : list lit) : bool := existsb (lit_eqb l) s.
Definition lsubset (a b : list lit) : bool := forallb (fun x => lmem x b) a.
Definition ladd (l : lit) (s : list lit) : list lit := if lmem l s then s else s ++ [l].
Definition lunion (a b : list lit) : list lit := fold_left (fun acc x => ladd x acc) b a.

Record nrule := { r_cond : list lit; r_tgt : lit }.                (* _PreparedEffectRule *)
Record nact := { na_pre : list lit; na_rules : list nrule }.       (* _PreparedAction *)
Record nprob := { np_atoms : list N; np_acts : list nact; np_goal : list lit }.

(* semantics of the prepared problem (what UP's sequential semantics gives on such actions: a true assignment wins
   over a false one on the same fluent) *)
Definition nstate := N -> bool.
Definition holds_lit (s : nstate) (l : lit) : bool := Bool.eqb (s (fst l)) (snd l).
Definition fires (s : nstate) (r : nrule) : bool := forallb (holds_lit s) (r_cond r).
Definition sets (s : nstate) (a : nact) (l : lit) : bool :=
  existsb (fun r => fires s r && lit_eqb (r_tgt r) l) (na_rules a).
Definition nsucc (s : nstate) (a : nact) : nstate :=
  fun p => if sets s a (p, true) then true else if sets s a (p, false) then false else s p.
Definition nstep (s : nstate) (a : nact) : option nstate :=
  if forallb (holds_lit s) (na_pre a) then Some (nsucc s a) else None.

Fixpoint nvalid (NP : nprob) (s : nstate) (pi : list nat) : bool :=
  match pi with
  | [] => forallb (holds_lit s) (np_goal NP)
  | i :: pi' =>
      match nth_error (np_acts NP) i with
      | None => false
      | Some a => match nstep s a with Some s' => nvalid NP s' pi' | None => false end
      end
  end.

Definition nconformant (NP : nprob) (S0 : list nstate) (pi : list nat) : bool :=
  forallb (fun s => nvalid NP s pi) S0.

(* ---- _get_relevance_relation *)
Definition all_lits (NP : nprob) : list lit := flat_map (fun p => [(p, true); (p, false)]) (np_atoms NP).

Definition reltab := list (lit * list lit).
Fixpoint rget (R : reltab) (l : lit) : list lit :=
  match R with
  | [] => []
  | (k, v) :: R' => if lit_eqb l k then v else rget R' l
  end.
Definition rset (R : reltab) (l : lit) (v : list lit) : reltab :=
  map (fun kv => if lit_eqb (fst kv) l then (fst kv, v) else kv) R.

(* relevance[literal] = {literal}; then, for every action, effect rule and condition literal of the rule (in this
   order): relevance[condition_literal].add(target_literal) *)
Definition cond_pairs (NP : nprob) : list (lit * lit) :=
  flat_map (fun a => flat_map (fun r => map (fun c => (c, r_tgt r)) (r_cond r)) (na_rules a)) (np_acts NP).

Definition rel_init (NP : nprob) : reltab :=
  fold_left (fun R ct => rset R (fst ct) (ladd (snd ct) (rget R (fst ct)))) (cond_pairs NP)
            (map (fun l => (l, [l])) (all_lits NP)).

(* one visit of the first inner loop: transitivity (in place) *)
Definition trans_visit (st : reltab * bool) (l : lit) : reltab * bool :=
  let '(R, ch) := st in
  let cur := rget R l in
  let expanded := fold_left (fun acc m => lunion acc (rget R m)) cur cur in
  if negb (lsubset expanded cur) then (rset R l expanded, true) else (R, ch).

(* one visit of the second inner loop: complement rule (in place) *)
Definition compl_visit (st : reltab * bool) (l : lit) : reltab * bool :=
  let '(R, ch) := st in
  let cur := rget R l in
  let expanded := fold_left (fun acc t => ladd (lneg t) acc) (rget R (lneg l)) cur in
  if negb (lsubset expanded cur) then (rset R l expanded, true) else (R, ch).

Definition rel_pass (NP : nprob) (R : reltab) : reltab * bool :=
  fold_left compl_visit (all_lits NP) (fold_left trans_visit (all_lits NP) (R, false)).

(* `while changed`; None = out of fuel *)
Fixpoint rel_loop (NP : nprob) (fuel : nat) (R : reltab) : option reltab :=
  match fuel with
  | O => None
  | S f => let '(R', ch) := rel_pass NP R in if ch then rel_loop NP f R' else Some R'
  end.

Definition relevance (NP : nprob) (fuel : nat) : option reltab := rel_loop NP fuel (rel_init NP).

(* ---- merge targets (_prepare_normalized_problem): precondition literals in action order, then goal literals *)
Definition merge_targets (NP : nprob) : list lit :=
  fold_left (fun acc l => ladd l acc) (flat_map na_pre (np_acts NP) ++ np_goal NP) [].

(* ---- _reduce_possible_initial_states_to_basis *)
Definition rel_sources (NP : nprob) (R : reltab) (t : lit) : list lit :=
  filter (fun l => lmem t (rget R l)) (all_lits NP).

Definition rel_set (NP : nprob) (R : reltab) (t : lit) (s : nstate) : list lit :=
  filter (holds_lit s) (rel_sources NP R t).

(* the inner loop over `minimal_rel_sets` for one state *)
Fixpoint scan_minimals (rs : list lit) (mins : list (nat * list lit)) : bool * list (nat * list lit) :=
  match mins with
  | [] => (false, [])
  | (ei, es) :: mins' =>
      let '(dom, upd) := scan_minimals rs mins' in
      if lsubset es rs then (true, (ei, es) :: upd)
      else if lsubset rs es && negb (lsubset es rs) then (dom, upd)
      else (dom, (ei, es) :: upd)
  end.

Fixpoint minimals_from (NP : nprob) (R : reltab) (t : lit) (i : nat) (states : list nstate)
  (mins : list (nat * list lit)) : list (nat * list lit) :=
  match states with
  | [] => mins
  | s :: states' =>
      let rs := rel_set NP R t s in
      let '(dom, upd) := scan_minimals rs mins in
      minimals_from NP R t (S i) states' (if dom then mins else upd ++ [(i, rs)])
  end.

Definition nat_mem (i : nat) (l : list nat) : bool := existsb (Nat.eqb i) l.

Definition selected_indices (NP : nprob) (R : reltab) (states : list nstate) : list nat :=
  flat_map (fun t => map fst (minimals_from NP R t 0 states [])) (merge_targets NP).

Fixpoint pick_indices {A} (sel : list nat) (i : nat) (l : list A) : list A :=
  match l with
  | [] => []
  | x :: l' => if nat_mem i sel then x :: pick_indices sel (S i) l' else pick_indices sel (S i) l'
  end.

(* indices (into the de-duplicated state list) of the states that are kept *)
Definition basis_indices (NP : nprob) (R : reltab) (states : list nstate) : list nat :=
  match states with
  | [] | [_] => seq 0 (length states)
  | _ =>
      match merge_targets NP with
      | [] => [0]
      | _ => let sel := selected_indices NP R states in
             filter (fun i => nat_mem i sel) (seq 0 (length states))
      end
  end.

Definition reduce_to_basis (NP : nprob) (R : reltab) (states : list nstate) : list nstate :=
  pick_indices (basis_indices NP R states) 0 states.

(* well-formedness: every literal of the problem is over a declared atom *)
Definition lit_ok (NP : nprob) (l : lit) : bool := existsb (N.eqb (fst l)) (np_atoms NP).
Definition nwf (NP : nprob) : bool :=
  forallb (fun a => forallb (lit_ok NP) (na_pre a)
                    && forallb (fun r => forallb (lit_ok NP) (r_cond r) && lit_ok NP (r_tgt r)) (na_rules a))
          (np_acts NP)
  && forallb (lit_ok NP) (np_goal NP).

Definition ns_of (trues : list N) : nstate := fun p => existsb (N.eqb p) trues.

(* ---- the prepared problem as a problem of the shared planning semantics (ground, parameterless actions whose
   preconditions are literals and whose effects are  "fluent := constant  if  conjunction of literals") *)
Definition lit_expr (l : lit) : expr := if snd l then EFluent (fst l) [] else ENot (EFluent (fst l) []).

Definition rule_effect (r : nrule) : effect :=
  {| e_fl := fst (r_tgt r); e_args := []; e_val := EBool (snd (r_tgt r)); e_cond := EAnd (map lit_expr (r_cond r));
     e_kind := KAssign; e_vars := []; e_isbool := true |}.

Definition embed_act (a : nact) : action :=
  {| a_params := []; a_pre := map lit_expr (na_pre a); a_effs := map rule_effect (na_rules a) |}.

Fixpoint number_from {A} (i : nat) (l : list A) : list (N * A) :=
  match l with [] => [] | x :: l' => (N.of_nat i, x) :: number_from (S i) l' end.

Definition embed (NP : nprob) : problem :=
  {| p_objs := []; p_ifun := [];
     p_fluents := map (fun p => {| fd_id := p; fd_sig := []; fd_ty := FBool |}) (np_atoms NP);
     p_actions := number_from 0 (map embed_act (np_acts NP));
     p_goals := map lit_expr (np_goal NP); p_invs := [] |}.

Definition embed_state (s : nstate) : state :=
  fun f args => match args with [] => Some (VBool (s f)) | _ => None end.

Definition embed_plan (pi : list nat) : plan := map (fun i => (N.of_nat i, [])) pi.
