(* C35 — model of unified_planning/model/contingent/{contingent_problem,execution_environment}.py (definitions only).

   A contingent problem = an ordinary problem (Planning/Problem.v: objects, fluents, ALL actions — the sensing ones with
   their preconditions and effects —, goals, state invariants) + the observed fluents of the sensing actions + the
   declared initial values at their three levels (set_initial_value, add_fluent(default_initial_value=...),
   ContingentProblem(initial_defaults={type: value})) + the hidden literals and the oneof / or constraints.

   The model mirrors the REPAIRED code (fix commits in /repo, see notes/C35.md): the deterministic clone honours the
   per-fluent default, hidden fluents that occur only negated get a symbol, the stand-in of a sensing action keeps its
   effects, the clone keeps the trajectory constraints (state invariants).

   pysmt's model enumeration + random.choice is an ORACLE: the Section variable [pick]. *)
From Coq Require Import List ZArith NArith QArith Qcanon Bool.
Import ListNotations.
Require Import UPV.Core.Expr UPV.Core.Eval UPV.Core.Interp UPV.Planning.Problem UPV.Planning.Sem.

(* ------------------------------------------------------------------ contingent problems *)
(* a hidden literal: a ground fluent expression (l_pos = true) or its negation; ContingentProblem._hidden_fluents and
   the constraint lists contain such FNodes *)
Record lit := { l_pos : bool; l_key : gfl }.

Definition lit_eqb (a b : lit) : bool := Bool.eqb (l_pos a) (l_pos b) && gfl_eqb (l_key a) (l_key b).

Record cproblem := {
  cp_base : problem;
  cp_observed : list (N * list (N * list expr));   (* sensing action id -> observed fluent expressions (symbol, arguments) *)
  cp_explicit : list (N * list value * value);     (* explicit_initial_values (a dict: keys are unique) *)
  cp_fdefault : list (N * value);                  (* add_fluent(f, default_initial_value=v) *)
  cp_ftype : list (N * N);                         (* fluent id -> id of its type object *)
  cp_tdefault : list (N * value);                  (* initial_defaults = {type id: v} *)
  cp_hidden : list lit;                            (* _hidden_fluents (a set of literals) *)
  cp_oneof : list (list lit);                      (* _oneof_initial_constraints *)
  cp_or : list (list lit)                          (* _or_initial_constraints *)
}.

(* ContingentProblem.add_oneof_initial_constraint / add_or_initial_constraint / add_unknown_initial_constraint *)
Definition set_hidden (P : cproblem) (h : list lit) (oneof or : list (list lit)) : cproblem :=
  {| cp_base := cp_base P; cp_observed := cp_observed P; cp_explicit := cp_explicit P; cp_fdefault := cp_fdefault P;
     cp_ftype := cp_ftype P; cp_tdefault := cp_tdefault P; cp_hidden := h; cp_oneof := oneof; cp_or := or |}.

Definition add_oneof (P : cproblem) (c : list lit) : cproblem :=
  set_hidden P (c ++ cp_hidden P) (cp_oneof P ++ [c]) (cp_or P).
Definition add_or (P : cproblem) (c : list lit) : cproblem :=
  set_hidden P (c ++ cp_hidden P) (cp_oneof P) (cp_or P ++ [c]).
Definition add_unknown (P : cproblem) (k : gfl) : cproblem :=
  let c := [ {| l_pos := false; l_key := k |}; {| l_pos := true; l_key := k |} ] in
  set_hidden P (c ++ cp_hidden P) (cp_oneof P) (cp_or P ++ [c]).

(* ------------------------------------------------------------------ declared initial values *)
(* Python type objects are interned by the TypeManager: the harness numbers them (IntType() and RealType() are
   different keys although both are unbounded numeric types); initial_defaults.get(fluent.type) *)
Definition type_default (tdefault : list (N * value)) (ftypes : list (N * N)) (f : N) : option value :=
  match lookupN f ftypes with
  | Some t => lookupN t tdefault
  | None => None
  end.

Definition find_fd (P : problem) (f : N) : option fdecl :=
  find (fun fd => (fd_id fd =? f)%N) (p_fluents P).

(* FluentsSetMixin.add_fluent: fluents_defaults[f] = the given default, else the default of the fluent's type, if any *)
Definition fluents_defaults (P : cproblem) (f : N) : option value :=
  match find_fd (cp_base P) f with
  | None => None
  | Some fd =>
      match lookupN f (cp_fdefault P) with
      | Some v => Some v
      | None => type_default (cp_tdefault P) (cp_ftype P) f
      end
  end.

(* InitialStateMixin.initial_value: explicit > per-fluent default > per-type default; None = nothing declared *)
Definition declared_init (P : cproblem) (k : gfl) : option value :=
  match lookup_app (fst k) (snd k) (cp_explicit P) with
  | Some v => Some v
  | None => fluents_defaults P (fst k)
  end.

(* ------------------------------------------------------------------ _get_stateless_deterministic_problem_clone *)
Definition det_action (a : action) : action :=
  {| a_params := a_params a; a_pre := a_pre a; a_effs := a_effs a |}.

(* same fluents, objects, goals, trajectory constraints; every action cloned (a sensing action becomes a plain action
   with the same parameters, preconditions and effects) *)
Definition det_clone (P : cproblem) : problem :=
  let B := cp_base P in
  {| p_objs := p_objs B; p_ifun := p_ifun B; p_fluents := p_fluents B;
     p_actions := map (fun ia => (fst ia, det_action (snd ia))) (p_actions B);
     p_goals := p_goals B; p_invs := p_invs B |}.

(* default_value = problem.fluents_defaults.get(fluent, problem.initial_defaults.get(fluent.type, False)) *)
Definition clone_default (P : cproblem) (fd : fdecl) : value :=
  match fluents_defaults P (fd_id fd) with
  | Some v => v
  | None => match type_default (cp_tdefault P) (cp_ftype P) (fd_id fd) with Some v => v | None => VBool false end
  end.

Definition mem_lit (l : lit) (ls : list lit) : bool := existsb (lit_eqb l) ls.

(* for f, v in problem.explicit_initial_values.items(): if f not in problem.hidden_fluents: set_initial_value(f, v) *)
Definition known_explicit (P : cproblem) : list (N * list value * value) :=
  filter (fun r => negb (mem_lit {| l_pos := true; l_key := (fst (fst r), snd (fst r)) |} (cp_hidden P))) (cp_explicit P).

(* the fluent expressions that get an SMT symbol: the atom of every hidden literal *)
Definition hidden_atoms (P : cproblem) : list gfl := map l_key (cp_hidden P).
Definition is_hidden (P : cproblem) (k : gfl) : bool := existsb (gfl_eqb k) (hidden_atoms P).

(* _randomly_set_full_initial_state, last loop: set_initial_value(f, chosen value) for every symbol; these calls come
   after the copies of the known explicit values and overwrite them (first match wins in the list below) *)
Definition clone_explicit (P : cproblem) (chi : gfl -> bool) : list (N * list value * value) :=
  map (fun k => (fst k, snd k, VBool (chi k))) (hidden_atoms P) ++ known_explicit P.

(* simulator.get_initial_state() = UPState(explicit_initial_values, problem): UPState.get_value answers the explicit
   value, else the fluent's default in the (deterministic) problem *)
Definition init_state (P : cproblem) (chi : gfl -> bool) : state :=
  fun f args =>
    match lookup_app f args (clone_explicit P chi) with
    | Some v => Some v
    | None => match find_fd (cp_base P) f with Some fd => Some (clone_default P fd) | None => None end
    end.

(* ------------------------------------------------------------------ constraints *)
Definition lit_holds_chi (chi : gfl -> bool) (l : lit) : bool := Bool.eqb (chi (l_key l)) (l_pos l).

Definition count_true {A} (p : A -> bool) (l : list A) : nat := length (filter p l).

(* pysmt ExactlyOne / Or over the literals *)
Definition sat_assign (chi : gfl -> bool) (oneof or : list (list lit)) : bool :=
  forallb (fun c => Nat.eqb (count_true (lit_holds_chi chi) c) 1) oneof &&
  forallb (fun c => existsb (lit_holds_chi chi) c) or.

(* the same constraints read in a STATE, through the expression evaluator *)
Definition lit_expr (l : lit) : expr :=
  let fe := EFluent (fst (l_key l)) (map value_expr (snd (l_key l))) in
  if l_pos l then fe else ENot fe.

Definition lit_holds (P : problem) (s : state) (l : lit) : bool := holds true (mk_interp P s []) (lit_expr l).

Definition constraints_hold (P : cproblem) (s : state) : bool :=
  forallb (fun c => Nat.eqb (count_true (lit_holds (cp_base P) s) c) 1) (cp_oneof P) &&
  forallb (fun c => existsb (lit_holds (cp_base P) s) c) (cp_or P).

(* all assignments over a list of atoms (used only by the correspondence to confirm "no model" when the environment
   raises on an unsatisfiable constraint set) *)
Fixpoint assignments (atoms : list gfl) : list (list (gfl * bool)) :=
  match atoms with
  | [] => [[]]
  | a :: r => flat_map (fun t => [(a, true) :: t; (a, false) :: t]) (assignments r)
  end.

Definition chi_of (t : list (gfl * bool)) : gfl -> bool :=
  fun k => match find (fun r => gfl_eqb k (fst r)) t with Some r => snd r | None => false end.

(* ------------------------------------------------------------------ the environment *)
(* FNode.substitute(parameter -> actual parameter) on an argument of an observed fluent: parameters and constants *)
Definition inst_arg (pars : list (N * value)) (e : expr) : option value :=
  match e with
  | EParam p => lookupN p pars
  | EObj o => Some (VObj o)
  | EBool b => Some (VBool b)
  | EInt z => Some (VNum (zq z))
  | EReal q => Some (VNum q)
  | _ => None                      (* anything else stays a non-ground key for UPState.get_value: not modelled *)
  end.

Fixpoint inst_args (pars : list (N * value)) (l : list expr) : option (list value) :=
  match l with
  | [] => Some []
  | e :: l' => match inst_arg pars e, inst_args pars l' with Some v, Some vs => Some (v :: vs) | _, _ => None end
  end.

Definition obs_row := (gfl * option value)%type.

(* res[f_exp] = self._state.get_value(f_exp): a dict, so a key observed twice keeps its first position *)
Fixpoint obs_insert (k : gfl) (v : option value) (res : list obs_row) : list obs_row :=
  match res with
  | [] => [(k, v)]
  | (k', v') :: res' => if gfl_eqb k k' then (k', v) :: res' else (k', v') :: obs_insert k v res'
  end.

Fixpoint observe_all (s : state) (pars : list (N * value)) (obs : list (N * list expr)) (res : list obs_row)
  : option (list obs_row) :=
  match obs with
  | [] => Some res
  | (f, args) :: obs' =>
      match inst_args pars args with
      | Some vs => observe_all s pars obs' (obs_insert (f, vs) (s f vs) res)
      | None => None
      end
  end.

Section Env.
  (* ORACLE: random.choice(list(all_smt(And(constraints), symbols))) — the chosen truth value of every hidden atom,
     None when the constraint set has no model (random.choice raises IndexError) *)
  Variable pick : list gfl -> list (list lit) -> list (list lit) -> option (gfl -> bool).

  (* SimulatedExecutionEnvironment.__init__: None = the constructor raises (no model, or the chosen initial state
     violates a state invariant / a bounded type: UPProblemDefinitionError from get_initial_state) *)
  Definition env_init (P : cproblem) : option state :=
    match pick (hidden_atoms P) (cp_oneof P) (cp_or P) with
    | None => None
    | Some chi =>
        let s0 := init_state P chi in
        if invariants_ok true (det_clone P) s0 then Some s0 else None
    end.
End Env.

(* apply, state part: self._simulator.apply(self._state, action, actual_parameters); None = UPUsageError
   ("The given action is not applicable!"; the state is unchanged) *)
Definition env_step (P : cproblem) (s : state) (aid : N) (args : list value) : option state :=
  match lookup_action (det_clone P) aid with
  | None => None
  | Some a => sim_apply true (det_clone P) s a args
  end.

(* apply, observation part, computed on the NEW state (self._state has been reassigned before the loop);
   {} for an ordinary action; None = an observed fluent has a non-constant argument after substitution *)
Definition env_obs (P : cproblem) (s' : state) (aid : N) (args : list value) : option (list obs_row) :=
  match lookupN aid (cp_observed P) with
  | None => Some []
  | Some obs =>
      match lookup_action (cp_base P) aid with
      | None => Some []
      | Some a => observe_all s' (zip_params (a_params a) args) obs []
      end
  end.

Definition env_apply (P : cproblem) (s : state) (aid : N) (args : list value)
  : option (state * option (list obs_row)) :=
  match env_step P s aid args with
  | None => None
  | Some s' => Some (s', env_obs P s' aid args)
  end.

(* is_goal_reached = simulator.is_goal(self._state) *)
Definition env_is_goal (P : cproblem) (s : state) : bool := sim_is_goal true (det_clone P) s.

(* a whole interaction: every action of the sequence is applied in turn; the run stops at the first action that is
   not applicable (the exception reaches the caller) *)
Fixpoint env_run (P : cproblem) (s : state) (plan : list (N * list value)) : option state :=
  match plan with
  | [] => Some s
  | (aid, args) :: rest =>
      match env_apply P s aid args with
      | Some (s', _) => env_run P s' rest
      | None => None
      end
  end.
