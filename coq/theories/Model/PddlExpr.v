(* C18, expression layer of the PDDL codec.
   printer:  unified_planning/io/pddl_writer.py   class ConverterToPDDLString (the walk_* methods; [convert] first
             calls the Simplifier, which is C11's subject: the model starts at [walk])
   parser :  unified_planning/io/up_pddl_reader.py  UPPDDLReader._parse_exp (explicit stack over the nested token lists
             produced by the pyparsing grammar [nested_expr]; pddl_reader.PDDLReader delegates to it)
   Both sides meet on S-expressions: [Atom] = one token (CharsNotIn "() \n\t\r"), [SList] = one parenthesised group.
   Names are strings on the PDDL side and numbers in the IR; the renaming is abstract:
     [naming] = PDDLWriter._get_mangled_name seen from the converter (one function per class of item),
     [env]    = what _parse_exp looks names up in (problem.has_fluent/fluent, has_object/object, act.parameter,
                types_map, and the identity of the Variable objects it creates: Variable(name, type)).
   Not modelled (they can only raise): the type checker run by ExpressionManager.create_node and the arity check of
   FluentExp; lexical well-formedness of names (pyparsing Word(alphas, alphanums+"_-") inside quantifier lists). *)
From Coq Require Import List ZArith NArith QArith Qcanon Bool String Ascii.
Import ListNotations.
Require Import UPV.Core.Expr.
Local Open Scope string_scope.

Inductive sexp : Type := Atom (s : string) | SList (l : list sexp).

Record naming := {
  nm_fl : N -> string;        (* fluent name *)
  nm_obj : N -> string;       (* object name *)
  nm_par : N -> string;       (* parameter name WITHOUT the leading "?" (_get_pddl_name adds it) *)
  nm_var : N -> string;       (* variable name WITHOUT the leading "?" *)
  nm_ty : N -> string         (* user type name *)
}.

Record env := {
  e_fl : string -> option N;      (* problem.has_fluent(s) / problem.fluent(s) *)
  e_obj : string -> option N;     (* problem.has_object(s) / problem.object(s) *)
  e_par : string -> option N;     (* act.parameter(s)  (s without "?"); None = ValueError -> SyntaxError *)
  e_var : string -> option N;     (* number of the Variable named s (s without "?") *)
  e_ty : string -> option N       (* types_map[s]; None = KeyError -> SyntaxError *)
}.

Fixpoint sequence {A} (l : list (option A)) : option (list A) :=
  match l with
  | [] => Some []
  | x :: r => match x, sequence r with Some a, Some b => Some (a :: b) | _, _ => None end
  end.

(* ------------------------------------------------------------------ numbers *)
Definition digit_char (d : N) : ascii := ascii_of_N (48 + d).
Definition digit_of (c : ascii) : option N :=
  let n := N_of_ascii c in if ((48 <=? n) && (n <=? 57))%N then Some (n - 48)%N else None.

(* str(int) for a natural number: least significant digit first into the accumulator; [fuel] = an upper bound of
   the number of digits *)
Fixpoint show_N_fuel (fuel : nat) (n : N) (acc : string) : string :=
  match fuel with
  | O => acc
  | S f => let acc' := String (digit_char (n mod 10)) acc in
           if (n <? 10)%N then acc' else show_N_fuel f (n / 10) acc'
  end.
Definition show_N (n : N) : string := show_N_fuel (S (N.to_nat (N.log2 n))) n "".

(* walk_int_constant: str(expression.constant_value()) *)
Definition show_Z (z : Z) : string :=
  if (z <? 0)%Z then String "-" (show_N (Z.abs_N z)) else show_N (Z.abs_N z).

(* exactly k digits of r (r mod 10^k), most significant first *)
Fixpoint frac_digits (k : nat) (r : N) (acc : string) : string :=
  match k with
  | O => acc
  | S k' => frac_digits k' (r / 10) (String (digit_char (r mod 10)) acc)
  end.

Fixpoint pow10 (k : nat) : N := match k with O => 1 | S k' => 10 * pow10 k' end.

(* smallest k <= fuel (counting up from [k]) with d | 10^k *)
Fixpoint find_scale (fuel k : nat) (d : N) : option nat :=
  if (pow10 k mod d =? 0)%N then Some k
  else match fuel with O => None | S f => find_scale f (S k) d end.

Fixpoint strip10 (fuel : nat) (m : N) : N :=
  match fuel with
  | O => m
  | S f => if ((m mod 10 =? 0) && negb (m =? 0))%N then strip10 f (m / 10) else m
  end.

Definition MAX_SCALE : nat := 40.

(* walk_real_constant = convert_fraction_to_str: the fraction is divided in Decimal arithmetic with 10 significant
   digits, goes through float and repr, and is formatted with format(.., "f").  On a rational m / 10^k with at most 10
   significant digits this is the plain decimal expansion ("2.0" for an integral value below 10^16, digits only
   from 10^16 on, "0.00001" for 1/100000); there the writer does not warn.  [None] = outside this exact range (the
   writer then still prints an approximation and warns, or k > MAX_SCALE which the model does not cover). *)
Definition show_real (q : Qc) : option string :=
  let n := Qnum (this q) in
  let d := Npos (Qden (this q)) in
  match find_scale MAX_SCALE 0 d with
  | None => None
  | Some k =>
      let m := (Z.abs_N n * (pow10 k / d))%N in
      if (strip10 400 m <? pow10 10)%N then
        let ip := (m / pow10 k)%N in
        let body :=
          match k with
          | O => if (m <? pow10 16)%N then show_N ip ++ ".0" else show_N ip
          | _ => show_N ip ++ String "." (frac_digits k m "")
          end in
        Some (if (n <? 0)%Z then String "-" body else body)
      else None
  end.

(* integer part: digits up to the end or up to the first "." *)
Fixpoint num_ip (acc : N) (s : string) : option (N * option string) :=
  match s with
  | EmptyString => Some (acc, None)
  | String c r =>
      if Ascii.eqb c "." then Some (acc, Some r)
      else match digit_of c with Some d => num_ip (10 * acc + d) r | None => None end
  end.

Fixpoint digits_val (acc : N) (s : string) : option N :=
  match s with
  | EmptyString => Some acc
  | String c r => match digit_of c with Some d => digits_val (10 * acc + d) r | None => None end
  end.

Definition mkq (neg : bool) (m : N) (k : nat) : Qc :=
  Q2Qc (Qmake (if neg then - Z.of_N m else Z.of_N m) (Z.to_pos (Z.of_N (pow10 k)))).

Fixpoint has_digit (s : string) : bool :=
  match s with
  | EmptyString => false
  | String c r => match digit_of c with Some _ => true | None => has_digit r end
  end.

(* fractions.Fraction(token) restricted to [sign] digits [ "." digits ] with at least one digit (Python also accepts
   exponents, "n/d", underscores and surrounding blanks: there the model answers None) *)
Definition parse_number (s : string) : option Qc :=
  match s with
  | EmptyString => None
  | String c r =>
      let neg := Ascii.eqb c "-" in
      let body := if neg || Ascii.eqb c "+" then r else s in
      if has_digit body then
        match num_ip 0 body with
        | Some (ip, None) => Some (mkq neg ip 0)
        | Some (ip, Some fr) =>
            match digits_val 0 fr with
            | Some f => Some (mkq neg (ip * pow10 (String.length fr) + f) (String.length fr))
            | None => None
            end
        | None => None
        end
      else None
  end.

(* ------------------------------------------------------------------ printer *)
Definition qvar (nm : naming) (v : N) : string := String "?" (nm_var nm v).
Definition qpar (nm : naming) (p : N) : string := String "?" (nm_par nm p).

(* walk_exists / walk_forall: "?v - type" for every variable *)
Definition print_vars (nm : naming) (vs : list (N * N)) : list sexp :=
  flat_map (fun vt => [Atom (qvar nm (fst vt)); Atom "-"; Atom (nm_ty nm (snd vt))]) vs.

(* walk_plus / walk_times:  reduce(lambda x, y: f"(+ {y} {x})", args)  with  assert len(args) > 1 *)
Definition chain (op : string) (ss : list sexp) : option sexp :=
  match ss with
  | a :: ((_ :: _) as r) => Some (fold_left (fun x y => SList [Atom op; y; x]) r a)
  | _ => None
  end.

Definition nary (op : string) (ss : list sexp) : option sexp :=
  match ss with
  | _ :: _ :: _ => Some (SList (Atom op :: ss))      (* assert len(args) > 1 *)
  | _ => None
  end.

Fixpoint print (nm : naming) (e : expr) {struct e} : option sexp :=
  let un op a := match print nm a with Some x => Some (SList [Atom op; x]) | None => None end in
  let bin op a b := match print nm a, print nm b with
                    | Some x, Some y => Some (SList [Atom op; x; y]) | _, _ => None end in
  match e with
  | EBool _ => None                                           (* walk_bool_constant raises UPUnreachableCodeError *)
  | EInt z => Some (Atom (show_Z z))                          (* walk_int_constant *)
  | EReal q => option_map Atom (show_real q)                  (* walk_real_constant *)
  | EObj o => Some (Atom (nm_obj nm o))                       (* walk_object_exp *)
  | EParam p => Some (Atom (qpar nm p))                       (* walk_param_exp *)
  | EVar v _ => Some (Atom (qvar nm v))                       (* walk_variable_exp *)
  | EFluent f args =>                                         (* walk_fluent_exp *)
      match sequence (map (print nm) args) with
      | Some ss => Some (SList (Atom (nm_fl nm f) :: ss)) | None => None end
  | EIFun _ _ => None                                         (* no walk_ method: UnsupportedOperator *)
  | EAnd l => match sequence (map (print nm) l) with Some ss => nary "and" ss | None => None end
  | EOr l => match sequence (map (print nm) l) with Some ss => nary "or" ss | None => None end
  | ENot a => un "not" a
  | EImplies a b => bin "imply" a b
  | EIff a b =>                                               (* walk_iff: two implications *)
      match print nm a, print nm b with
      | Some x, Some y => Some (SList [Atom "and"; SList [Atom "imply"; x; y]; SList [Atom "imply"; y; x]])
      | _, _ => None
      end
  | EExists vs a =>
      match print nm a with Some x => Some (SList [Atom "exists"; SList (print_vars nm vs); x]) | None => None end
  | EForall vs a =>
      match print nm a with Some x => Some (SList [Atom "forall"; SList (print_vars nm vs); x]) | None => None end
  | EPlus l => match sequence (map (print nm) l) with Some ss => chain "+" ss | None => None end
  | EMinus a b => bin "-" a b
  | ETimes l => match sequence (map (print nm) l) with Some ss => chain "*" ss | None => None end
  | EDiv a b => bin "/" a b
  | ELe a b => bin "<=" a b
  | ELt a b => bin "<" a b
  | EEquals a b => bin "=" a b
  | EAlways a => un "always" a
  | ESometime a => un "sometime" a
  | ESometimeBefore a b => bin "sometime-before" a b
  | ESometimeAfter a b => bin "sometime-after" a b
  | EAtMostOnce a => un "at-most-once" a
  end.

(* ------------------------------------------------------------------ parser *)
Inductive opk := OAnd | OOr | ONot | OImply | OGe | OLe | OGt | OLt | OEq | OPlus | OMinus | ODiv | OTimes.
Inductive trk := TAlways | TSometime | TSometimeBefore | TSometimeAfter | TAtMostOnce.
Inductive hk := KOp (o : opk) | KQuant (ex : bool) | KTraj (t : trk) | KOther.

(* self._operators, ["exists", "forall"], self._trajectory_constraints *)
Definition classify (h : string) : hk :=
  if h =? "and" then KOp OAnd else if h =? "or" then KOp OOr else if h =? "not" then KOp ONot
  else if h =? "imply" then KOp OImply else if h =? ">=" then KOp OGe else if h =? "<=" then KOp OLe
  else if h =? ">" then KOp OGt else if h =? "<" then KOp OLt else if h =? "=" then KOp OEq
  else if h =? "+" then KOp OPlus else if h =? "-" then KOp OMinus else if h =? "/" then KOp ODiv
  else if h =? "*" then KOp OTimes
  else if h =? "exists" then KQuant true else if h =? "forall" then KQuant false
  else if h =? "always" then KTraj TAlways else if h =? "sometime" then KTraj TSometime
  else if h =? "sometime-before" then KTraj TSometimeBefore
  else if h =? "sometime-after" then KTraj TSometimeAfter
  else if h =? "at-most-once" then KTraj TAtMostOnce
  else KOther.

Definition is_kw (h : string) : bool := match classify h with KOther => false | _ => true end.

(* op applied to the argument list with the ExpressionManager constructors (a wrong number of arguments is a TypeError) *)
Definition apply_op (o : opk) (args : list expr) : option expr :=
  match o, args with
  | OAnd, _ => Some (mkAnd args)
  | OOr, _ => Some (mkOr args)
  | ONot, [a] => Some (mkNot a)
  | OImply, [a; b] => Some (EImplies a b)
  | OGe, [a; b] => Some (ELe b a)
  | OLe, [a; b] => Some (ELe a b)
  | OGt, [a; b] => Some (ELt b a)
  | OLt, [a; b] => Some (ELt a b)
  | OEq, [a; b] => Some (EEquals a b)
  | OPlus, _ => Some (mkPlus args)
  | OMinus, [a; b] => Some (EMinus a b)
  | ODiv, [a; b] => Some (EDiv a b)
  | OTimes, _ => Some (mkTimes args)
  | _, _ => None
  end.

Definition apply_traj (t : trk) (args : list expr) : option expr :=
  match t, args with
  | TAlways, [a] => Some (EAlways a)
  | TSometime, [a] => Some (ESometime a)
  | TSometimeBefore, [a; b] => Some (ESometimeBefore a b)
  | TSometimeAfter, [a; b] => Some (ESometimeAfter a b)
  | TAtMostOnce, [a] => Some (EAtMostOnce a)
  | _, _ => None
  end.

Fixpoint assoc_s {A} (k : string) (l : list (string * A)) : option A :=
  match l with
  | [] => None
  | (k', v) :: r => if k =? k' then Some v else assoc_s k r
  end.

Definition mem_s (k : string) (l : list string) : bool := existsb (String.eqb k) l.

Fixpoint nodup_s (l : list string) : bool :=
  match l with [] => true | x :: r => negb (mem_s x r) && nodup_s r end.

Definition starts_q (s : string) : bool := match s with String c _ => Ascii.eqb c "?" | EmptyString => false end.
Definition tail_s (s : string) : string := match s with String _ r => r | EmptyString => "" end.

Definition is_atom (s : sexp) : bool := match s with Atom _ => true | SList _ => false end.

Definition typed (E : env) (pend : list string) (t : string) : option (list (string * N)) :=
  match pend with
  | [] => Some []
  | _ => match e_ty E t with Some ty => Some (map (fun n => (n, ty)) pend) | None => None end
  end.

(* the quantifier's variable list: the tokens are joined with blanks and parsed with the grammar
   [parameters] = ZeroOrMore(Group(OneOrMore("?" name) + Optional("-" name))), parse_all=False (parsing stops
   silently at the first token that cannot continue); a group without a type gets the type "object".
   [pend] = variables of the group being read. *)
Fixpoint parse_vars (E : env) (pend : list string) (toks : list sexp) {struct toks} : option (list (string * N)) :=
  match toks with
  | [] => typed E pend "object"
  | Atom a :: rest =>
      if starts_q a then parse_vars E (pend ++ [tail_s a])%list rest
      else if a =? "-" then
        match pend, rest with
        | _ :: _, Atom t :: rest' =>
            if starts_q t then typed E pend "object"
            else match typed E pend t, parse_vars E [] rest' with
                 | Some a, Some b => Some (a ++ b)%list | _, _ => None end
        | _, _ => typed E pend "object"
        end
      else typed E pend "object"
  | _ => typed E pend "object"
  end.

(* the atom branch of _parse_exp *)
Definition parse_atom (E : env) (vars : list (string * N)) (a : string) : option expr :=
  if starts_q a then                                                  (* exp.value[0] == "?" *)
    let n := tail_s a in                                              (* exp.value[1:] *)
    match assoc_s n vars with
    | Some ty => option_map (fun v => EVar v ty) (e_var E n)          (* variable of an enclosing quantifier *)
    | None => option_map EParam (e_par E n)                           (* action parameter *)
    end
  else
    match e_fl E a with
    | Some f => Some (EFluent f [])
    | None =>
        match e_obj E a with
        | Some o => Some (EObj o)
        | None => option_map num_node (parse_number a)                (* Fraction: Int when the denominator is 1 *)
        end
    end.

(* new_vars[o] = Variable(o, t): a repeated name would overwrite; the model answers None there *)
Definition mk_quant (E : env) (ex : bool) (nv : list (string * N)) (b : expr) : option expr :=
  match nv with
  | [] => None                                                       (* Exists/Forall without variables raise *)
  | _ =>
      if nodup_s (map fst nv) then
        match sequence (map (fun p => option_map (fun v => (v, snd p)) (e_var E (fst p))) nv) with
        | Some vs => Some (if ex then EExists vs b else EForall vs b)
        | None => None
        end
      else None
  end.

(* [vars]: the variables of the enclosing quantifiers, innermost first (all_vars = var.copy(); update(new_vars)) *)
Fixpoint parse (E : env) (vars : list (string * N)) (s : sexp) {struct s} : option expr :=
  match s with
  | Atom a => parse_atom E vars a
  | SList [] => Some (EBool true)                                     (* empty precondition *)
  | SList (Atom h :: rest) =>
      if (h =? "-") && (Nat.eqb (List.length rest) 1) then                 (* unary minus: Times(-1, x) *)
        match sequence (map (parse E vars) rest) with
        | Some [x] => Some (ETimes [EInt (-1); x])
        | _ => None
        end
      else
      match classify h with
      | KOp o => match sequence (map (parse E vars) rest) with Some args => apply_op o args | None => None end
      | KQuant ex =>
          match rest with
          | SList vl :: body :: _ =>
              if forallb is_atom vl then
                match parse_vars E [] vl with
                | Some nv => match parse E (nv ++ vars)%list body with Some b => mk_quant E ex nv b | None => None end
                | None => None
                end
              else None
          | _ => None
          end
      | KTraj t => match sequence (map (parse E vars) rest) with Some args => apply_traj t args | None => None end
      | KOther =>
          match e_fl E h with
          | Some f => match sequence (map (parse E vars) rest) with
                      | Some args => Some (EFluent f args) | None => None end
          | None => match rest with [] => parse_atom E vars h | _ => None end     (* "(x)": expand brackets *)
          end
      end
  | SList ((SList _ as x) :: rest) => match rest with [] => parse E vars x | _ => None end
  end.

(* ------------------------------------------------------------------ the fragment and the normal form *)
Definition is_not (e : expr) : bool := match e with ENot _ => true | _ => false end.

Fixpoint lookupNN (k : N) (l : list (N * N)) : option N :=
  match l with [] => None | (k', v) :: r => if (k =? k')%N then Some v else lookupNN k r end.

Fixpoint nodupN (l : list N) : bool :=
  match l with [] => true | x :: r => negb (memN x r) && nodupN r end.

Definition ge2 {A} (l : list A) : bool := match l with _ :: _ :: _ => true | _ => false end.

(* [sc]: variables bound by the enclosing quantifiers, innermost first, with their types.
   Boolean constants are rejected by the writer itself (see [print]); interpreted functions have no PDDL form.
   Trajectory constraints are printed and parsed but are outside Core/Eval's semantics, so they are left out. *)
Fixpoint pddl_ok (sc : list (N * N)) (e : expr) {struct e} : bool :=
  match e with
  | EBool _ | EIFun _ _ => false
  | EInt _ | EObj _ | EParam _ => true
  | EReal q => match show_real q with Some _ => true | None => false end
  | EVar v ty => match lookupNN v sc with Some ty' => (ty =? ty')%N | None => false end
  | EFluent _ l => forallb (pddl_ok sc) l
  | EAnd l | EOr l | EPlus l | ETimes l => ge2 l && forallb (pddl_ok sc) l
  | ENot a => negb (is_not a) && pddl_ok sc a
  | EImplies a b | EIff a b | EMinus a b | EDiv a b | ELe a b | ELt a b | EEquals a b => pddl_ok sc a && pddl_ok sc b
  | EExists vs a | EForall vs a =>
      match vs with [] => false | _ => nodupN (map fst vs) && pddl_ok (vs ++ sc)%list a end
  | EAlways _ | ESometime _ | ESometimeBefore _ _ | ESometimeAfter _ _ | EAtMostOnce _ => false
  end.

(* what the reader rebuilds from the writer's text: the identity except
     Iff a b          ->  And [Implies a b; Implies b a]          (walk_iff)
     Plus [a; b; c]   ->  Plus [c; Plus [b; a]]                   (walk_plus's reduce; same for Times)
     Real q, q integral -> Int q                                  ("2.0" is read as Fraction 2 -> Int)
     Not (Not a)      ->  a   (ExpressionManager.Not; excluded from [pddl_ok], the ExpressionManager never builds it) *)
Definition rchain (mk : list expr -> expr) (l : list expr) : expr :=
  match l with
  | a :: r => fold_left (fun x y => mk [y; x]) r a
  | [] => mk []
  end.

Fixpoint norm (e : expr) : expr :=
  match e with
  | EReal q => num_node q
  | EFluent f l => EFluent f (map norm l)
  | EIFun f l => EIFun f (map norm l)
  | EAnd l => mkAnd (map norm l)
  | EOr l => mkOr (map norm l)
  | ENot a => mkNot (norm a)
  | EImplies a b => EImplies (norm a) (norm b)
  | EIff a b => EAnd [EImplies (norm a) (norm b); EImplies (norm b) (norm a)]
  | EExists vs a => EExists vs (norm a)
  | EForall vs a => EForall vs (norm a)
  | EPlus l => rchain EPlus (map norm l)
  | EMinus a b => EMinus (norm a) (norm b)
  | ETimes l => rchain ETimes (map norm l)
  | EDiv a b => EDiv (norm a) (norm b)
  | ELe a b => ELe (norm a) (norm b)
  | ELt a b => ELt (norm a) (norm b)
  | EEquals a b => EEquals (norm a) (norm b)
  | EAlways a => EAlways (norm a)
  | ESometime a => ESometime (norm a)
  | ESometimeBefore a b => ESometimeBefore (norm a) (norm b)
  | ESometimeAfter a b => ESometimeAfter (norm a) (norm b)
  | EAtMostOnce a => EAtMostOnce (norm a)
  | _ => e
  end.

(* the parser's variable dictionary that corresponds to a scope of the IR *)
Definition scope_names (nm : naming) (sc : list (N * N)) : list (string * N) :=
  map (fun p => (nm_var nm (fst p), snd p)) sc.
