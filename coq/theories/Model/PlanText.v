(* C18 (plans): the PLAN TEXT codec of the PDDL io layer.

   printer  = unified_planning/io/pddl_writer.py : PDDLWriter._write_plan (get_plan / print_plan / write_plan),
              _format_action_instance, _time_to_str
   parser   = unified_planning/io/up_pddl_reader.py : UPPDDLReader.parse_plan_string (PDDLReader.parse_plan_string and
              parse_plan delegate to it)

   Text is a list of characters `str := list ascii`; a character is a code point 0..255 (Python `str` restricted to
   Latin-1; the character-class tables below are compared with Python's `re`/`str` for all 256 code points by the
   correspondence harness/ext/c18_plan.py).  `string` wrappers are at the end of the file.
   Names in this model are the PDDL names, i.e. the strings the writer obtains from `_get_mangled_name` (always in
   [a-z][a-z0-9_-]*, see `_get_pddl_name`); the association name <-> item is the Section `Resolve` at the end. *)
From Coq Require Import List NArith ZArith QArith Ascii Bool.
From Coq Require String.
Import ListNotations.
Open Scope N_scope.

Definition str := list ascii.
Definition code (c : ascii) : N := N_of_ascii c.
Definition between (a b n : N) : bool := (a <=? n) && (n <=? b).

(* ---------- character classes: Python 3 `re` on `str` patterns (Unicode semantics), code points 0..255 ---------- *)

(* line boundaries of str.splitlines(): \n \v \f \r \x1c \x1d \x1e \x85  (\r\n only yields one more empty line in this
   model; empty lines are skipped by the reader) *)
Definition is_break (c : ascii) : bool :=
  let n := code c in between 10 13 n || between 28 30 n || (n =? 133).

(* \s and str.split(): str.isspace() = \t \n \v \f \r \x1c-\x1f ' ' \x85 \xa0 *)
Definition is_space (c : ascii) : bool :=
  let n := code c in between 9 13 n || between 28 32 n || (n =? 133) || (n =? 160).

(* \d : Unicode category Nd; below 256 only 0-9 *)
Definition is_digit (c : ascii) : bool := between 48 57 (code c).

(* \w : alphanumeric (str.isalnum) or '_' *)
Definition is_word (c : ascii) : bool :=
  let n := code c in
  between 48 57 n || between 65 90 n || between 97 122 n || (n =? 95)
  || (n =? 170) || (n =? 178) || (n =? 179) || (n =? 181) || (n =? 185) || (n =? 186) || between 188 190 n
  || between 192 214 n || between 216 246 n || between 248 255 n.

(* the class [\w?-] of action and parameter names in both regular expressions *)
Definition is_name (c : ascii) : bool := is_word c || (code c =? 63) || (code c =? 45).

(* str.lower() per character *)
Definition lower (c : ascii) : ascii :=
  let n := code c in
  if between 65 90 n || (between 192 222 n && negb (n =? 215)) then ascii_of_N (n + 32) else c.

Definition low_ok (c : ascii) : bool := Ascii.eqb (lower c) c.

(* ---------- generic list functions ---------- *)

Fixpoint span (p : ascii -> bool) (l : str) : str * str :=
  match l with
  | c :: r => if p c then let (a, b) := span p r in (c :: a, b) else ([], l)
  | [] => ([], [])
  end.

Fixpoint skip_ws (l : str) : str :=
  match l with
  | c :: r => if is_space c then skip_ws r else l
  | [] => []
  end.

(* separator-based split: every character satisfying p ends a piece *)
Fixpoint split_on (p : ascii -> bool) (l : str) : list str :=
  match l with
  | [] => [[]]
  | c :: r => if p c then [] :: split_on p r
              else match split_on p r with
                   | x :: xs => (c :: x) :: xs
                   | [] => [[c]]
                   end
  end.

Definition is_nil {A} (l : list A) : bool := match l with [] => true | _ => false end.

(* str.split() without argument: maximal runs of non-whitespace *)
Definition words (l : str) : list str := filter (fun w => negb (is_nil w)) (split_on is_space l).

(* ---------- decimal numbers ---------- *)

Fixpoint pow10 (k : nat) : positive := match k with O => 1%positive | S k' => (10 * pow10 k')%positive end.

(* str(int) for a natural number, most significant digit first; fuel = number of bits *)
Fixpoint digits_fuel (fuel : nat) (n : N) (acc : list N) : list N :=
  match fuel with
  | O => n :: acc
  | S f => if n <? 10 then n :: acc else digits_fuel f (n / 10) (n mod 10 :: acc)
  end.
Definition digits (n : N) : list N := digits_fuel (N.to_nat (N.size n)) n [].

Definition dchar (d : N) : ascii := ascii_of_N (48 + d).
Definition digit_chars (n : N) : str := map dchar (digits n).

(* int(<digit string>) *)
Definition val_chars (l : str) : N := fold_left (fun a c => 10 * a + (code c - 48)) l 0.

(* smallest k <= fuel with d | 10^k *)
Fixpoint find_k (fuel : nat) (d : N) (k : nat) : option nat :=
  if Npos (pow10 k) mod d =? 0 then Some k
  else match fuel with O => None | S f => find_k f d (S k) end.

(* format(Decimal(m) * 10^-k, "f") for k >= 1: the digits of m, padded with zeros to k+1 digits, a point before the
   last k digits *)
Definition format_f (ds : list N) (k : nat) : str :=
  let pad := repeat 0 (S k - List.length ds) ++ ds in
  let j := (List.length pad - k)%nat in
  map dchar (firstn j pad) ++ "."%char :: map dchar (skipn j pad).

(* _time_to_str(Fraction) (the Fraction is q = Qnum q / Qden q, reduced, as Python keeps it).
   Some s: the writer prints exactly s and s denotes q exactly.
   None  : the writer prints something that does NOT denote q, or that no reader accepts:
     - q < 0: "-" followed by the text for -q (parse_plan_string rejects the line);
     - the denominator has a prime factor other than 2 and 5, or the exact expansion has more than 50 significant
       digits: Decimal(num)/Decimal(den) under prec = 50 (ROUND_HALF_EVEN), i.e. q rounded to 50 significant digits,
       in plain notation (1/3 -> 0.33333333333333333333333333333333333333333333333333, fifty 3s). *)
Definition print_dec (q : Q) : option str :=
  let n := Z.to_N (Qnum q) in
  let d := Npos (Qden q) in
  if (Qnum q <? 0)%Z then None
  else if d =? 1 then Some (digit_chars n)
  else match find_k (N.to_nat (N.size d)) d 0 with
       | None => None
       | Some k =>
           let ds := digits (n * (Npos (pow10 k) / d)) in
           if (List.length ds <=? 50)%nat then Some (format_f ds k) else None
       end.

(* Fraction(ip[.fp]) : the reduced fraction int(ip ++ fp) / 10^len(fp) *)
Definition mkdec (ip fp : str) : Q := Qred (Z.of_N (val_chars (ip ++ fp)) # pow10 (List.length fp)).

(* NUM = the regex group  \d+\.?\d*  (digits, optional point, digits) at the head of l, converted with Fraction(...);
   returns the rest of the text.  Maximal munch is exact: what follows NUM in the line grammar is never a digit or a point *)
Definition parse_num (l : str) : option (Q * str) :=
  let (ip, r1) := span is_digit l in
  if is_nil ip then None
  else match r1 with
       | c :: r2 => if code c =? 46
                    then let (fp, r3) := span is_digit r2 in Some (mkdec ip fp, r3)
                    else Some (mkdec ip [], r1)
       | [] => Some (mkdec ip [], [])
       end.

(* a whole string matching NUM *)
Definition parse_dec (l : str) : option Q :=
  match parse_num l with Some (q, []) => Some q | _ => None end.

(* ---------- plans ---------- *)

Record step := mkStep { s_name : str; s_args : list str }.
Record tstep := mkTStep { t_start : Q; t_step : step; t_dur : option Q }.
Inductive plan := PSeq (l : list step) | PTT (l : list tstep).

(* ---------- printer: PDDLWriter._write_plan ---------- *)

Definition nl : ascii := ascii_of_N 10.

Fixpoint flat_args (args : list str) : str :=
  match args with [] => [] | a :: r => " "%char :: a ++ flat_args r end.

(* _format_action_instance: "(" name [" " + " ".join(params)] ")" *)
Definition print_step (s : step) : str := "("%char :: s_name s ++ flat_args (s_args s) ++ [")"%char].

Definition print_seq (l : list step) : str := concat (map (fun s => print_step s ++ [nl]) l).

Definition print_dur (d : option Q) : option str :=
  match d with
  | None => Some []
  | Some q => match print_dec q with Some s => Some ("["%char :: s ++ ["]"%char]) | None => None end
  end.

(* f"{_time_to_str(s)}: {ai}" + f"[{_time_to_str(dur)}]" + "\n" *)
Definition print_tstep (t : tstep) : option str :=
  match print_dec (t_start t), print_dur (t_dur t) with
  | Some a, Some b => Some (a ++ ":"%char :: " "%char :: print_step (t_step t) ++ b ++ [nl])
  | _, _ => None
  end.

Fixpoint print_tt (l : list tstep) : option str :=
  match l with
  | [] => Some []
  | t :: r => match print_tstep t, print_tt r with
              | Some a, Some b => Some (a ++ b)
              | _, _ => None
              end
  end.

Definition print_plan (p : plan) : option str :=
  match p with PSeq l => Some (print_seq l) | PTT l => print_tt l end.

(* ---------- parser: UPPDDLReader.parse_plan_string, one line ---------- *)

(* the skip test: re.match of  ^ \s* ( ; .* )? $  (blank or comment line) *)
Definition is_blank_line (l : str) : bool :=
  match skip_ws l with [] => true | c :: _ => code c =? 59 end.

(* CALL = the regex  \( \s* ([\w?-]+) ((\s+[\w?-]+)* ) \s* \)  at the head of l;
   the text up to the first closing parenthesis must consist of names and white space and contain at least one name; name = first word, params_name = group(2).split() = the other words *)
Definition parse_call (l : str) : option (step * str) :=
  match l with
  | c :: r =>
      if code c =? 40 then
        let (inner, rest) := span (fun c => negb (code c =? 41)) r in
        match rest with
        | _ :: rest' =>
            if forallb (fun c => is_space c || is_name c) inner then
              match words inner with
              | name :: args => Some (mkStep name args, rest')
              | [] => None
              end
            else None
        | [] => None
        end
      else None
  | [] => None
  end.

(* s_ai: ^\s* CALL \s*$ *)
Definition parse_seq_line (l : str) : option step :=
  match parse_call (skip_ws l) with
  | Some (s, rest) => if is_nil (skip_ws rest) then Some s else None
  | None => None
  end.

(* ( \[ \s* NUM \s* \] )? \s* $   after CALL and white space *)
Definition parse_dur_tail (l : str) : option (option Q) :=
  match l with
  | [] => Some None
  | c :: r =>
      if code c =? 91 then
        match parse_num (skip_ws r) with
        | Some (q, r1) =>
            match skip_ws r1 with
            | c2 :: r2 => if (code c2 =? 93) && is_nil (skip_ws r2) then Some (Some q) else None
            | [] => None
            end
        | None => None
        end
      else None
  end.

(* t_ai: ^ \s* NUM \s* : \s* CALL \s* ( \[ \s* NUM \s* \] )? \s* $ *)
Definition parse_tt_line (l : str) : option tstep :=
  match parse_num (skip_ws l) with
  | Some (start, r1) =>
      match skip_ws r1 with
      | c :: r2 =>
          if code c =? 58 then
            match parse_call (skip_ws r2) with
            | Some (s, r3) =>
                match parse_dur_tail (skip_ws r3) with
                | Some d => Some (mkTStep start s d)
                | None => None
                end
            | None => None
            end
          else None
      | [] => None
      end
  | None => None
  end.

Inductive line := LBlank | LSeq (s : step) | LTT (t : tstep) | LBad.

(* the body of the loop up to the look-ups: skip test, line.lower(), s_ai before t_ai *)
Definition parse_line (l : str) : line :=
  if is_blank_line l then LBlank
  else let l' := map lower l in
       match parse_seq_line l' with
       | Some s => LSeq s
       | None => match parse_tt_line l' with Some t => LTT t | None => LBad end
       end.

(* ---------- the loop: is_tt flag, `assert is_tt == False`, final constructor ---------- *)

Fixpoint all_seq (ls : list line) : option (list step) :=
  match ls with
  | [] => Some []
  | LBlank :: r => all_seq r
  | LSeq s :: r => match all_seq r with Some l => Some (s :: l) | None => None end
  | _ => None
  end.

Fixpoint all_tt (ls : list line) : option (list tstep) :=
  match ls with
  | [] => Some []
  | LBlank :: r => all_tt r
  | LTT t :: r => match all_tt r with Some l => Some (t :: l) | None => None end
  | _ => None
  end.

(* None = any exception: an uninterpretable line (UPException), a sequential line after a timed one (AssertionError),
   a timed line after a sequential one (TimeTriggeredPlan over a mixed list: TypeError).  No line at all gives the
   empty SEQUENTIAL plan (is_tt stays False). *)
Fixpoint assemble (ls : list line) : option plan :=
  match ls with
  | [] => Some (PSeq [])
  | LBlank :: r => assemble r
  | LSeq _ :: _ => match all_seq ls with Some l => Some (PSeq l) | None => None end
  | LTT _ :: _ => match all_tt ls with Some l => Some (PTT l) | None => None end
  | LBad :: _ => None
  end.

Definition parse_plan (t : str) : option plan :=
  assemble (map parse_line (split_on is_break t)).

(* ---------- well-formedness: exactly what the line grammar needs of a written plan ---------- *)

(* a name survives iff it is non-empty, made of [\w?-] and unchanged by lower() *)
Definition wf_name (s : str) : bool := negb (is_nil s) && forallb (fun c => is_name c && low_ok c) s.
Definition wf_step (s : step) : bool := wf_name (s_name s) && forallb wf_name (s_args s).

Definition q_eqb (a b : Q) : bool := (Qnum a =? Qnum b)%Z && (Qden a =? Qden b)%positive.
(* a Python Fraction: lowest terms *)
Definition q_reduced (q : Q) : bool := q_eqb (Qred q) q.
(* the writer prints q exactly (non-negative, denominator 2^a*5^b, at most 50 significant digits) *)
Definition dec_ok (q : Q) : bool := q_reduced q && match print_dec q with Some _ => true | None => false end.
Definition wf_tstep (t : tstep) : bool :=
  dec_ok (t_start t) && wf_step (t_step t) && match t_dur t with Some d => dec_ok d | None => true end.

Definition wf_plan (p : plan) : bool :=
  match p with PSeq l => forallb wf_step l | PTT l => forallb wf_tstep l end.

(* ---------- names <-> items: get_item_named / problem.action / problem.object, ActionInstance(...) ---------- *)
Section Resolve.
  Variables A O : Type.
  (* act n = the action returned by get_item_named(n) (None: exception or not an Action), obj n likewise for objects *)
  Variable act : str -> option A.
  Variable obj : str -> option O.
  (* the checks of the ActionInstance constructor: arity and parameter types *)
  Variable inst_ok : A -> list O -> bool.

  Fixpoint resolve_objs (l : list str) : option (list O) :=
    match l with
    | [] => Some []
    | n :: r => match obj n, resolve_objs r with Some o, Some os => Some (o :: os) | _, _ => None end
    end.

  Definition resolve_step (s : step) : option (A * list O) :=
    match act (s_name s), resolve_objs (s_args s) with
    | Some a, Some os => if inst_ok a os then Some (a, os) else None
    | _, _ => None
    end.

  Fixpoint resolve_seq (l : list step) : option (list (A * list O)) :=
    match l with
    | [] => Some []
    | s :: r => match resolve_step s, resolve_seq r with Some x, Some xs => Some (x :: xs) | _, _ => None end
    end.

  Fixpoint resolve_tt (l : list tstep) : option (list (Q * (A * list O) * option Q)) :=
    match l with
    | [] => Some []
    | t :: r => match resolve_step (t_step t), resolve_tt r with
                | Some x, Some xs => Some ((t_start t, x, t_dur t) :: xs)
                | _, _ => None
                end
    end.
End Resolve.

(* ---------- string interface ---------- *)
Definition print_plan_string (p : plan) : option String.string :=
  match print_plan p with Some t => Some (String.string_of_list_ascii t) | None => None end.
Definition parse_plan_string (s : String.string) : option plan := parse_plan (String.list_ascii_of_string s).
Definition print_dec_string (q : Q) : option String.string :=
  match print_dec q with Some t => Some (String.string_of_list_ascii t) | None => None end.
Definition parse_dec_string (s : String.string) : option Q := parse_dec (String.list_ascii_of_string s).

(* ---------- the writer's decimal printer on EVERY Fraction (also outside the exact fragment) ----------
   _time_to_str: denominator 1 -> str(numerator); otherwise Decimal(num) / Decimal(den) under prec = 50 (rounding
   ROUND_HALF_EVEN, the default) formatted with "f".  The division mirrors _pydecimal.Decimal.__truediv__ + _fix (the C
   implementation gives the same correctly rounded results): a 51/52-digit quotient with a sticky last digit, exact
   quotients stripped of trailing zeros down to exponent 0, then rounding to 50 significant digits. *)
Definition pow10N (k : nat) : N := Npos (pow10 k).
Definition ndigits (n : N) : Z := Z.of_nat (List.length (digits n)).

Fixpoint strip_zeros (fuel : nat) (c : N) (e : Z) : N * Z :=
  match fuel with
  | O => (c, e)
  | S f => if (e <? 0)%Z && (c mod 10 =? 0) then strip_zeros f (c / 10) (e + 1)%Z else (c, e)
  end.

(* Decimal._fix for a positive finite number: at most 50 digits of coefficient, half-even *)
Definition fix50 (c : N) (e : Z) : N * Z :=
  let len := ndigits c in
  if (len <=? 50)%Z then (c, e)
  else let drop := Z.to_nat (len - 50) in
       let q := c / pow10N drop in
       let r := c mod pow10N drop in
       let half := 5 * pow10N (pred drop) in
       let q' := if (half <? r) || ((half =? r) && N.odd q) then q + 1 else q in
       let e' := (e + Z.of_nat drop)%Z in
       if (ndigits q' <=? 50)%Z then (q', e') else (q' / 10, (e' + 1)%Z).

Definition dec_div50 (n d : N) : N * Z :=
  let shift := (ndigits d - ndigits n + 51)%Z in
  let (c, r) := if (0 <=? shift)%Z then N.div_eucl (n * pow10N (Z.to_nat shift)) d
                else N.div_eucl n (d * pow10N (Z.to_nat (- shift))) in
  let e := (- shift)%Z in
  let (c1, e1) := if r =? 0 then strip_zeros (Z.to_nat shift) c e
                  else (if c mod 5 =? 0 then c + 1 else c, e) in
  fix50 c1 e1.

(* format(Decimal((0, c, e)), "f") *)
Definition format_dec (c : N) (e : Z) : str :=
  if (0 <=? e)%Z then (if c =? 0 then digit_chars 0 else digit_chars c ++ repeat "0"%char (Z.to_nat e))
  else format_f (digits c) (Z.to_nat (- e)).

Definition print_dec_real (q : Q) : str :=
  let n := Z.to_N (Z.abs (Qnum q)) in
  let d := Npos (Qden q) in
  let body := if d =? 1 then digit_chars n else let (c, e) := dec_div50 n d in format_dec c e in
  if (Qnum q <? 0)%Z then "-"%char :: body else body.

(* PDDLWriter._write_plan on every plan *)
Definition print_tstep_real (t : tstep) : str :=
  print_dec_real (t_start t) ++ ":"%char :: " "%char :: print_step (t_step t)
  ++ (match t_dur t with Some d => "["%char :: print_dec_real d ++ ["]"%char] | None => [] end) ++ [nl].
Definition print_plan_real (p : plan) : str :=
  match p with PSeq l => print_seq l | PTT l => concat (map print_tstep_real l) end.

(* the rational denoted by the decimal (c, e), and the rational the reader gets back from print_dec_real q (q >= 0):
   q rounded by the writer's division (exact on the fragment of print_dec) *)
Definition dec_val (c : N) (e : Z) : Q :=
  if (0 <=? e)%Z then Qred (Z.of_N (c * pow10N (Z.to_nat e)) # 1) else Qred (Z.of_N c # pow10 (Z.to_nat (- e))).
Definition dec_rounded (q : Q) : Q :=
  let n := Z.to_N (Z.abs (Qnum q)) in
  let d := Npos (Qden q) in
  if d =? 1 then Qred (Z.of_N n # 1) else let (c, e) := dec_div50 n d in dec_val c e.
