(* Executable model of the WHOLE-MESSAGE codecs of unified_planning/grpc/proto_writer.py (encoders) and
   unified_planning/grpc/proto_reader.py (decoders): proto.Action, the core of proto.Problem, proto.Plan
   (sequential and time-triggered).  Built on the component codecs of Model/ProtoCodec.v.

   What is modelled besides the field-by-field conversion is the way the reader REBUILDS the Python objects through
   the public `add_*` methods of the model classes, because that is where a round trip can lose or reorder data:
     - OrderedDict assignment `parameters[name] = type`                        ([assoc_set]),
     - `dict.setdefault(key, []).append(v)` with or without `if v not in list` ([dict_upd], [regroup]),
     - `add_precondition` / `add_goal` dropping the constant TRUE              ([add_pre], [add_goal]),
     - the name clash checks of `_add_user_type` / `add_object` / `add_fluent` / `add_action`  ([add_named]),
     - the father lookup `problem.user_type(parent)` among the types declared SO FAR  ([add_type_decl]),
     - plan kind inferred from the presence of start/end times                 ([dec_plan]).
   NOT modelled (validations that are deterministic functions of the object being rebuilt and that the original
   object already passed when it was built through the same methods): type checks of conditions / effects / goals,
   `check_conflicting_effects`, the free-variable check of `add_precondition`, the empty-duration check of
   `set_duration_constraint`, type compatibility of action-instance parameters, positivity of epsilon.
   A decoder answers [None] where the Python code raises.

   The structural equalities (Python `==` on FNode / Timing / TimeInterval, which is structural because these
   objects are hash-consed or compare field by field) are the boolean functions of Corr/Corr_C20.v. *)
From Coq Require Import List ZArith NArith QArith Qreduction Bool.
Import ListNotations.
Require Import UPV.Model.ProtoCodec.
Require Import UPV.Corr.Corr_C20.
Open Scope list_scope.

(* ------------------------------------------------------------------ Python containers *)
(* a loop whose body may raise *)
Definition fold_opt {S A} (f : S -> A -> option S) : list A -> S -> option S :=
  fix go (l : list A) (s : S) : option S :=
    match l with
    | [] => Some s
    | x :: r => match f s x with Some s' => go r s' | None => None end
    end.

(* d[k] = v on an insertion-ordered dict *)
Fixpoint assoc_set {K V} (keq : K -> K -> bool) (d : list (K * V)) (k : K) (v : V) : list (K * V) :=
  match d with
  | [] => [(k, v)]
  | (k', v') :: r => if keq k' k then (k', v) :: r else (k', v') :: assoc_set keq r k v
  end.

(* d[k] = f(d.get(k, []))   i.e.  d.setdefault(k, []) followed by an update of that list *)
Fixpoint dict_upd {K V} (keq : K -> K -> bool) (f : list V -> list V) (d : list (K * list V)) (k : K)
  : list (K * list V) :=
  match d with
  | [] => [(k, f [])]
  | (k', vs) :: r => if keq k' k then (k', f vs) :: r else (k', vs) :: dict_upd keq f r k
  end.

(* for k, vs in d.items(): for v in vs: yield (k, v) *)
Definition flatten {K V} (d : list (K * list V)) : list (K * V) :=
  flat_map (fun kvs => map (fun v => (fst kvs, v)) (snd kvs)) d.

(* for (k, v) in l: d[k] = add(d.setdefault(k, []), v) *)
Definition regroup_from {K V} (keq : K -> K -> bool) (add : list V -> V -> list V)
  (l : list (K * V)) (d : list (K * list V)) : list (K * list V) :=
  fold_left (fun d kv => dict_upd keq (fun vs => add vs (snd kv)) d (fst kv)) l d.
Definition regroup {K V} keq add (l : list (K * V)) : list (K * list V) := regroup_from keq add l [].

(* list.append(v) *)
Definition add_app {V} (l : list V) (v : V) : list V := l ++ [v].
(* if v not in l: l.append(v) *)
Definition add_new {V} (veq : V -> V -> bool) (l : list V) (v : V) : list V :=
  if existsb (fun x => veq x v) l then l else l ++ [v].

(* [add_ok pre v]: adding v to pre appends it.  [adds_ok pre vs]: adding vs one after the other appends them all *)
Fixpoint adds_ok {V} (add_ok : list V -> V -> bool) (pre vs : list V) : bool :=
  match vs with
  | [] => true
  | v :: r => add_ok pre v && adds_ok add_ok (pre ++ [v]) r
  end.

Definition app_ok {V} (_ : list V) (_ : V) : bool := true.
Definition new_ok {V} (veq : V -> V -> bool) (pre : list V) (v : V) : bool := negb (existsb (fun x => veq x v) pre).

(* the keys of [l] are pairwise different and different from [seen] *)
Fixpoint keys_ok {K} (keq : K -> K -> bool) (seen l : list K) : bool :=
  match l with
  | [] => true
  | k :: r => negb (existsb (fun k' => keq k' k) seen) && keys_ok keq (seen ++ [k]) r
  end.

(* a Python dict of non-empty lists that is rebuilt exactly by re-adding its flattened content:
   distinct keys, no empty list (a key only exists because something was added under it), each list is what
   successive adds produce *)
Definition dict_ok {K V} (keq : K -> K -> bool) (add_ok : list V -> V -> bool) (d : list (K * list V)) : bool :=
  keys_ok keq [] (map fst d)
  && forallb (fun kvs => match snd kvs with [] => false | _ => adds_ok add_ok [] (snd kvs) end) d.

(* ------------------------------------------------------------------ actions *)
(* proto.Parameter *)
Record param_msg := { pm_name : name; pm_type : tystr }.
(* proto.Action {name, parameters, duration, conditions, effects}; duration = proto.Duration{controllable_in_bounds} *)
Record action_msg := {
  am_name : name;
  am_params : list param_msg;
  am_duration : option interval_msg;
  am_conds : list condition_msg;
  am_effects : list timed_effect_msg
}.

(* model.InstantaneousAction (name, parameters, preconditions, effects) and model.DurativeAction (name, parameters,
   duration, conditions : Dict[TimeInterval, List[FNode]], effects : Dict[Timing, List[Effect]]) *)
Inductive action :=
| AInst (n : name) (params : list (name * ty)) (pre : list expr) (effs : list effect)
| ADur (n : name) (params : list (name * ty)) (dur : dinterval)
       (conds : list (tinterval * list expr)) (effs : list (timing * list effect)).

Definition action_name (a : action) : name := match a with AInst n _ _ _ | ADur n _ _ _ _ => n end.
Definition action_params (a : action) : list (name * ty) := match a with AInst _ p _ _ | ADur _ p _ _ _ => p end.
Definition is_durative (a : action) : bool := match a with ADur _ _ _ _ _ => true | _ => false end.

(* ProtobufWriter._convert_action_parameter *)
Definition enc_param (p : name * ty) : param_msg := {| pm_name := fst p; pm_type := proto_type (snd p) |}.

(* ProtobufWriter._convert_instantaneous_action (span = None, occurrence_time = None, duration = None) and
   _convert_durative_action with _convert_timed_conditions / _convert_timed_effects (nested loops over the dicts) *)
Definition enc_action (a : action) : action_msg :=
  match a with
  | AInst n ps pre effs =>
      {| am_name := n; am_params := map enc_param ps; am_duration := None;
         am_conds := map (enc_condition None) pre; am_effects := map (enc_timed_effect None) effs |}
  | ADur n ps dur conds effs =>
      {| am_name := n; am_params := map enc_param ps; am_duration := Some (enc_dinterval dur);
         am_conds := map (fun sc => enc_condition (Some (fst sc)) (snd sc)) (flatten conds);
         am_effects := map (fun te => enc_timed_effect (Some (fst te)) (snd te)) (flatten effs) |}
  end.

Definition is_true_const (e : expr) : bool := match e with EBool true => true | _ => false end.

(* PreconditionMixin.add_precondition: TRUE is dropped, an expression already present is not added again *)
Definition add_pre (l : list expr) (c : expr) : list expr :=
  if is_true_const c then l else add_new expr_eqb l c.
Definition pre_ok (pre : list expr) (c : expr) : bool := negb (is_true_const c) && new_ok expr_eqb pre c.

(* `x if x is not None else <the call raises>` for the span / occurrence time of a durative action *)
Definition need_key {K V} (kv : option K * V) : option (K * V) :=
  match fst kv with Some k => Some (k, snd kv) | None => None end.

Section Action.
  Variable user_type : name -> bool.
  Variable obj_ty : name -> option ty.
  Variable fluent_ty : name -> option ty.

  (* the loop `parameters[param.name] = convert_type_str(param.type, problem)` of ProtobufReader._convert_action *)
  Definition dec_param (m : param_msg) : option (name * ty) :=
    match convert_type_str user_type (pm_type m) with Some t => Some (pm_name m, t) | None => None end.

  Definition build_params (ps : list (name * ty)) : list (name * ty) :=
    fold_left (fun d p => assoc_set N.eqb d (fst p) (snd p)) ps [].

  (* ProtobufReader._convert_action.  Durative iff msg.HasField("duration"); the conditions / effects are first
     all converted, then added one by one: DurativeAction.add_condition (setdefault + `not in`),
     TimedCondsEffs._add_effect_instance (setdefault + append), InstantaneousAction.add_precondition,
     UntimedEffectMixin._add_effect_instance (append).  For an instantaneous action span / occurrence_time are
     ignored; for a durative one a missing span / occurrence_time makes Timing.from_time(None) raise. *)
  Definition dec_action (m : action_msg) : option action :=
    match seq_opt dec_param (am_params m),
          dec_optional (dec_dinterval user_type obj_ty fluent_ty) (am_duration m),
          seq_opt (dec_condition user_type obj_ty fluent_ty) (am_conds m),
          seq_opt (dec_timed_effect user_type obj_ty fluent_ty) (am_effects m) with
    | Some ps, Some odur, Some conds, Some effs =>
        match odur with
        | Some dur =>
            match seq_opt need_key conds, seq_opt need_key effs with
            | Some cs, Some es =>
                Some (ADur (am_name m) (build_params ps) dur
                        (regroup tinterval_eqb (add_new expr_eqb) cs) (regroup timing_eqb add_app es))
            | _, _ => None
            end
        | None =>
            Some (AInst (am_name m) (build_params ps) (fold_left add_pre (map snd conds) []) (map snd effs))
        end
    | _, _, _, _ => None
    end.

  Let wfe := wf_exprb user_type obj_ty fluent_ty.

  (* parameters: an OrderedDict has distinct keys; the types belong to the problem *)
  Definition wf_paramsb (ps : list (name * ty)) : bool :=
    keys_ok N.eqb [] (map fst ps) && forallb (fun p => wf_tyb user_type (snd p)) ps.

  (* what every action object satisfies inside its problem (plus: no empty condition / effect list under a key,
     which only the private `_set_conditions` can create, and Timepoint containers are not "" = finding F1) *)
  Definition wf_actionb (a : action) : bool :=
    match a with
    | AInst _ ps pre effs =>
        wf_paramsb ps && forallb wfe pre && adds_ok pre_ok [] pre
        && forallb (wf_effectb user_type obj_ty fluent_ty) effs
    | ADur _ ps dur conds effs =>
        wf_paramsb ps && wf_dintervalb user_type obj_ty fluent_ty dur
        && dict_ok tinterval_eqb (new_ok expr_eqb) conds
        && forallb (fun sc => wf_tintervalb (fst sc) && forallb wfe (snd sc)) conds
        && dict_ok timing_eqb app_ok effs
        && forallb (fun te => wf_timingb (fst te) && forallb (wf_effectb user_type obj_ty fluent_ty) (snd te)) effs
    end.
End Action.

(* ------------------------------------------------------------------ problems *)
(* proto.Fluent, proto.ObjectDeclaration, proto.Goal, proto.Assignment (a pair) *)
Record fluent_msg := { fm_name : name; fm_type : tystr; fm_params : list param_msg; fm_default : option pexpr }.
Record object_msg := { om_name : name; om_type : tystr }.
Record goal_msg := { gm_goal : pexpr; gm_timing : option tinterval_msg }.

(* proto.Problem without hierarchy / scheduling_extension.  Not represented: domain_name (problem_name + "_domain",
   never read) and features (recomputed by the reader's problem.kind). *)
Record problem_msg := {
  prm_name : name;
  prm_types : list type_decl;
  prm_fluents : list fluent_msg;
  prm_objects : list object_msg;
  prm_actions : list action_msg;
  prm_init : list (pexpr * pexpr);
  prm_timed_effects : list timed_effect_msg;
  prm_goals : list goal_msg;
  prm_metrics : list metric_msg;
  prm_traj : list pexpr;
  prm_discrete : bool;
  prm_self_overlapping : bool;
  prm_epsilon : option real_msg
}.

(* model.Fluent + its entry in problem.fluents_defaults *)
Record fluent_decl := { fd_name : name; fd_type : ty; fd_sig : list (name * ty); fd_default : option expr }.

(* model.Problem: the content that the writer reads (user_types with fathers, fluents + defaults, all_objects,
   actions, explicit_initial_values, timed_effects, goals, timed_goals, quality_metrics, trajectory_constraints,
   discrete_time, self_overlapping, epsilon) *)
Record problem := {
  p_name : option name;
  p_types : list (name * option name);
  p_fluents : list fluent_decl;
  p_objects : list (name * ty);
  p_actions : list action;
  p_init : list (expr * expr);
  p_timed_effects : list (timing * list effect);
  p_goals : list expr;
  p_timed_goals : list (tinterval * list expr);
  p_metrics : list metric;
  p_traj : list expr;
  p_discrete : bool;
  p_self_overlapping : bool;
  p_epsilon : option Q
}.

(* the symbol tables of a problem *)
Definition ut_of (tys : list (name * option name)) : name -> bool := mem (map fst tys).
Definition ot_of (objs : list (name * ty)) : name -> option ty := lookup objs.
Definition ft_of (fls : list fluent_decl) : name -> option ty := lookup (map (fun d => (fd_name d, fd_type d)) fls).
Definition act_of (acts : list action) : name -> bool := mem (map action_name acts).

Definition enc_user_type (t : name * option name) : type_decl := enc_type_decl (TyUser (fst t)) (snd t).

(* ProtobufWriter._convert_fluent / _convert_object *)
Definition enc_fluent (d : fluent_decl) : fluent_msg :=
  {| fm_name := fd_name d; fm_type := proto_type (fd_type d); fm_params := map enc_param (fd_sig d);
     fm_default := option_map enc_expr (fd_default d) |}.
Definition enc_object (o : name * ty) : object_msg := {| om_name := fst o; om_type := proto_type (snd o) |}.

(* ProtobufWriter._convert_problem *)
Definition enc_problem (p : problem) : problem_msg :=
  {| prm_name := match p_name p with Some n => n | None => 0%N end;
     prm_types := map enc_user_type (p_types p);
     prm_fluents := map enc_fluent (p_fluents p);
     prm_objects := map enc_object (p_objects p);
     prm_actions := map enc_action (p_actions p);
     prm_init := map (fun xv => (enc_expr (fst xv), enc_expr (snd xv))) (p_init p);
     prm_timed_effects := map (fun te => enc_timed_effect (Some (fst te)) (snd te)) (flatten (p_timed_effects p));
     prm_goals := map (fun g => {| gm_goal := enc_expr g; gm_timing := None |}) (p_goals p)
                  ++ map (fun ig => {| gm_goal := enc_expr (snd ig); gm_timing := Some (enc_tinterval (fst ig)) |})
                         (flatten (p_timed_goals p));
     prm_metrics := map enc_metric (p_metrics p);
     prm_traj := map enc_expr (p_traj p);
     prm_discrete := p_discrete p;
     prm_self_overlapping := p_self_overlapping p;
     prm_epsilon := option_map enc_real (p_epsilon p) |}.

(* UserTypesSetMixin._add_user_type(self.convert(t, problem)) for one declaration, [acc] = the types added so far:
   the father is looked up by name among them (problem.user_type raises when it is declared later);
   a type already in the list is skipped; a name already used raises; the father needs no recursive add since it
   was found in the list *)
Definition add_type_decl (acc : list (name * option name)) (d : type_decl) : option (list (name * option name)) :=
  match dec_type_decl (ut_of acc) d with
  | Some (TyUser n, father) =>
      if existsb (fun e => (fst e =? n)%N && opt_eqb N.eqb (snd e) father) acc then Some acc
      else if ut_of acc n then None
      else Some (acc ++ [(n, father)])
  | _ => None
  end.

(* add_object / add_fluent / add_action: `if self._has_name_method(x.name): raise` (error_used_name is True by
   default), then append.  [used] = the names of the elements of the other kinds present at that moment. *)
Definition add_named {A M} (dec : M -> option A) (nm : A -> name) (used : list name) (acc : list A) (m : M)
  : option (list A) :=
  match dec m with
  | Some x => if mem (used ++ map nm acc) (nm x) then None else Some (acc ++ [x])
  | None => None
  end.

Definition is_const (e : expr) : bool :=
  match e with EBool _ | EInt _ | EReal _ | EObj _ _ => true | _ => false end.

(* the TimedEffect of a problem is read WITHOUT HasField: an absent occurrence_time is the default message *)
Definition default_timing_msg : timing_msg :=
  {| tmm_tp := {| tpm_kind := 0%N; tpm_container := 0%N |}; tmm_delay := None |}.

(* Problem.add_goal: TRUE is dropped, no duplicate check *)
Definition add_goal (l : list expr) (g : expr) : list expr := if is_true_const g then l else l ++ [g].
Definition goal_ok (_ : list expr) (g : expr) : bool := negb (is_true_const g).

Section Problem.
  (* FNode.simplify() applied by Problem.add_trajectory_constraint: external (property C11) *)
  Variable simp : expr -> expr.

  (* ProtobufReader._convert_fluent + the default value.  FluentsSetMixin._default_value_exp raises unless the
     value is a constant; the decoding of a constant does not look at the fluents, hence the empty fluent table
     (the fluent itself is not yet in the problem when its default is converted). *)
  Definition dec_fluent (ut : name -> bool) (ot : name -> option ty) (m : fluent_msg) : option fluent_decl :=
    match convert_type_str ut (fm_type m), seq_opt (dec_param ut) (fm_params m),
          dec_optional (fun x => match dec_expr ut ot (fun _ => None) x with
                                 | Some e => if is_const e then Some e else None
                                 | None => None
                                 end) (fm_default m) with
    | Some t, Some sg, Some d => Some {| fd_name := fm_name m; fd_type := t; fd_sig := sg; fd_default := d |}
    | _, _, _ => None
    end.

  Definition dec_object (ut : name -> bool) (m : object_msg) : option (name * ty) :=
    match convert_type_str ut (om_type m) with Some t => Some (om_name m, t) | None => None end.

  (* ProtobufReader._convert_problem (no hierarchy, no scheduling extension), in the reader's order:
     types, objects, fluents, actions, timed effects, initial state, goals, trajectory constraints, metrics, flags *)
  Definition dec_problem (m : problem_msg) : option problem :=
    match fold_opt add_type_decl (prm_types m) [] with None => None | Some tys =>
    let ut := ut_of tys in
    match fold_opt (add_named (dec_object ut) fst (map fst tys)) (prm_objects m) [] with None => None | Some objs =>
    let ot := ot_of objs in
    match fold_opt (add_named (dec_fluent ut ot) fd_name (map fst tys ++ map fst objs)) (prm_fluents m) []
    with None => None | Some fls =>
    let ft := ft_of fls in
    match fold_opt (add_named (dec_action ut ot ft) action_name (map fst tys ++ map fst objs ++ map fd_name fls))
                   (prm_actions m) []
    with None => None | Some acts =>
    match seq_opt (fun te => match dec_effect ut ot ft (te_effect te),
                                   dec_timing (match te_time te with Some t => t | None => default_timing_msg end) with
                             | Some e, Some t => Some (t, e)
                             | _, _ => None
                             end) (prm_timed_effects m),
          seq_opt (fun xv => match dec_expr ut ot ft (fst xv), dec_expr ut ot ft (snd xv) with
                             | Some x, Some v => Some (x, v)
                             | _, _ => None
                             end) (prm_init m),
          seq_opt (fun g => match dec_expr ut ot ft (gm_goal g), dec_optional dec_tinterval (gm_timing g) with
                            | Some e, Some i => Some (i, e)
                            | _, _ => None
                            end) (prm_goals m),
          seq_opt (dec_expr ut ot ft) (prm_traj m),
          seq_opt (dec_metric ut ot ft (act_of acts)) (prm_metrics m),
          dec_optional dec_real (prm_epsilon m) with
    | Some tes, Some init, Some goals, Some traj, Some mets, Some eps =>
        let gt := fold_left (fun (s : list expr * list (tinterval * list expr)) ig =>
                               match fst ig with
                               | None => (add_goal (fst s) (snd ig), snd s)
                               | Some i => (fst s, dict_upd tinterval_eqb (fun vs => add_new expr_eqb vs (snd ig)) (snd s) i)
                               end) goals ([], []) in
        Some {| p_name := if (prm_name m =? 0)%N then None else Some (prm_name m);
                p_types := tys; p_fluents := fls; p_objects := objs; p_actions := acts;
                p_init := fold_left (fun d xv => assoc_set expr_eqb d (fst xv) (snd xv)) init [];
                p_timed_effects := regroup timing_eqb add_app tes;
                p_goals := fst gt; p_timed_goals := snd gt;
                p_metrics := mets;
                p_traj := map simp traj;
                p_discrete := prm_discrete m; p_self_overlapping := prm_self_overlapping m;
                p_epsilon := eps |}
    | _, _, _, _, _, _ => None
    end end end end end.

  (* the user types list of a problem: distinct names, every father declared EARLIER (invariant of
     _add_user_type, which adds the father first) and not named "" (finding F1: parent_type "" means no father) *)
  Fixpoint types_ok (seen : list name) (l : list (name * option name)) : bool :=
    match l with
    | [] => true
    | (n, f) :: r =>
        negb (mem seen n)
        && match f with None => true | Some p => negb (p =? 0)%N && mem seen p end
        && types_ok (seen ++ [n]) r
    end.

  Definition wf_fluentb (ut : name -> bool) (ot : name -> option ty) (d : fluent_decl) : bool :=
    wf_tyb ut (fd_type d) && forallb (fun p => wf_tyb ut (snd p)) (fd_sig d)
    && wf_opt (fun e => is_const e && wf_exprb ut ot (fun _ => None) e) (fd_default d).

  (* what every Problem object satisfies (with the default error_used_name = True), plus the exclusion of the
     recorded finding C20-F1 (a name "" collapses to None) *)
  Definition wf_problemb (p : problem) : bool :=
    let ut := ut_of (p_types p) in
    let ot := ot_of (p_objects p) in
    let ft := ft_of (p_fluents p) in
    let wfe := wf_exprb ut ot ft in
    match p_name p with Some n => negb (n =? 0)%N | None => true end
    && types_ok [] (p_types p)
    (* all names of types, objects, fluents, actions are pairwise different *)
    && keys_ok N.eqb [] (map fst (p_types p) ++ map fst (p_objects p) ++ map fd_name (p_fluents p)
                         ++ map action_name (p_actions p))
    && forallb (fun o => wf_tyb ut (snd o)) (p_objects p)
    && forallb (wf_fluentb ut ot) (p_fluents p)
    && forallb (wf_actionb ut ot ft) (p_actions p)
    && keys_ok expr_eqb [] (map fst (p_init p))
    && forallb (fun xv => wfe (fst xv) && wfe (snd xv)) (p_init p)
    && dict_ok timing_eqb app_ok (p_timed_effects p)
    && forallb (fun te => wf_timingb (fst te) && forallb (wf_effectb ut ot ft) (snd te)) (p_timed_effects p)
    && forallb wfe (p_goals p) && adds_ok goal_ok [] (p_goals p)
    && dict_ok tinterval_eqb (new_ok expr_eqb) (p_timed_goals p)
    && forallb (fun ig => wf_tintervalb (fst ig) && forallb wfe (snd ig)) (p_timed_goals p)
    && forallb (wf_metricb ut ot ft (act_of (p_actions p))) (p_metrics p)
    && forallb wfe (p_traj p)
    && wf_opt canonQb (p_epsilon p).
End Problem.

(* ------------------------------------------------------------------ plans *)
(* proto.ActionInstance {id, action_name, parameters : Atom*, start_time, end_time}; id "" when ids is None *)
Record ainst_msg := {
  aim_id : name;
  aim_action : name;
  aim_params : list (option atom);
  aim_start : option real_msg;
  aim_end : option real_msg
}.
(* proto.Plan without hierarchy / schedule *)
Definition plan_msg := list ainst_msg.

(* plans.ActionInstance: action (by name) + actual parameters (constants) *)
Definition ainst := (name * list expr)%type.
Inductive plan :=
| PSeq (l : list ainst)                         (* SequentialPlan *)
| PTT (l : list (Q * ainst * option Q)).        (* TimeTriggeredPlan: (start, instance, duration) *)

(* `self.convert(param).atom` *)
Definition enc_param_atom (e : expr) : option atom := match enc_expr e with PE a _ _ _ => a end.

(* ProtobufWriter._convert_action_instance *)
Definition enc_ainst (st en : option real_msg) (a : ainst) : ainst_msg :=
  {| aim_id := 0%N; aim_action := fst a; aim_params := map enc_param_atom (snd a); aim_start := st; aim_end := en |}.

(* ProtobufWriter._convert_sequential_plan / _convert_time_triggered_plan (end = start + (duration or 0)) *)
Definition enc_plan (p : plan) : plan_msg :=
  match p with
  | PSeq l => map (enc_ainst None None) l
  | PTT l => map (fun sad =>
                    let s := fst (fst sad) in
                    let d := match snd sad with Some d => d | None => Qmake 0 1 end in
                    enc_ainst (Some (enc_real s)) (Some (enc_real (Qred (Qplus s d)))) (snd (fst sad))) l
  end.

Section Plan.
  Variable obj_ty : name -> option ty.
  (* problem.action(name): None when it raises; otherwise (number of parameters, isinstance(_, DurativeAction)) *)
  Variable action_sig : name -> option (nat * bool).

  (* ProtobufReader._convert_atom on an ActionInstance parameter; a symbol that is not an object is looked up as a
     fluent, which ActionInstance.__init__ rejects (not a constant) *)
  Definition dec_param_atom (a : option atom) : option expr :=
    match a with
    | Some (AInt z) => Some (EInt z)
    | Some (AReal n d) => match py_fraction n d with Some q => Some (EReal q) | None => None end
    | Some (ABool b) => Some (EBool b)
    | Some (ASym (SName n)) => match obj_ty n with Some t => Some (EObj n t) | None => None end
    | _ => None
    end.

  (* ProtobufReader._convert_action_instance: (instance, None) or (instance, (start, duration)) *)
  Definition dec_ainst (m : ainst_msg) : option (ainst * option (Q * option Q)) :=
    match seq_opt dec_param_atom (aim_params m), action_sig (aim_action m) with
    | Some ps, Some (arity, durative) =>
        if negb (Nat.eqb (length ps) arity) then None
        else
          match aim_start m, aim_end m with
          | Some s, Some e =>
              match dec_real s, dec_real e with
              | Some st, Some en =>
                  let d := Qred (Qminus en st) in
                  Some ((aim_action m, ps), Some (st, if (Qnum d =? 0)%Z && negb durative then None else Some d))
              | _, _ => None
              end
          | _, _ => Some ((aim_action m, ps), None)
          end
    | _, _ => None
    end.

  (* ProtobufReader._convert_plan: time-triggered iff ALL instances carry times (vacuously true of the empty plan) *)
  Definition dec_plan (m : plan_msg) : option plan :=
    match seq_opt dec_ainst m with
    | Some acts =>
        if forallb (fun a => match snd a with Some _ => true | None => false end) acts
        then Some (PTT (flat_map (fun a => match snd a with Some sd => [(fst sd, fst a, snd sd)] | None => [] end) acts))
        else Some (PSeq (map fst acts))
    | None => None
    end.

  Definition wf_ainstb (a : ainst) : bool :=
    match action_sig (fst a) with
    | Some (arity, _) =>
        Nat.eqb (length (snd a)) arity
        && forallb (fun e => is_const e && wf_exprb (fun _ => false) obj_ty (fun _ => None) e) (snd a)
    | None => false
    end.

  (* a sequential plan round-trips unless it is empty (finding C20-F2) *)
  Definition wf_seq_planb (l : list ainst) : bool :=
    match l with [] => false | _ => forallb wf_ainstb l end.

  (* time-triggered: Fractions reduced; duration None exactly for non-durative actions, and a non-durative action
     has no explicit duration 0 *)
  Definition wf_tt_entryb (sad : Q * ainst * option Q) : bool :=
    canonQb (fst (fst sad)) && wf_ainstb (snd (fst sad))
    && match action_sig (fst (snd (fst sad))), snd sad with
       | Some (_, durative), None => negb durative
       | Some (_, durative), Some d => canonQb d && (durative || negb (Qnum d =? 0)%Z)
       | None, _ => false
       end.
  Definition wf_tt_planb (l : list (Q * ainst * option Q)) : bool := forallb wf_tt_entryb l.
End Plan.
