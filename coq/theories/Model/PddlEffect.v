(* C18, effect layer of the PDDL codec, on top of the expression codec (Model/PddlExpr.v, Model/PddlLex.v).
   printer: unified_planning/io/pddl_writer.py   PDDLWriter._write_untimed_effects ("(and" + effects + ")") and
            _write_effect with timing = None (instantaneous actions): optional "(forall (vars)", optional "(when cond",
            the leaf  f / (not f) / (assign f v) / (increase f v) / (decrease f v), and the rewriting of a non-constant
            Boolean assignment  f := v when c  into  (when simp(c and v) f) (when simp(c and not v) (not f)).
   parser : unified_planning/io/up_pddl_reader.py  UPPDDLReader._add_effect: a FIFO work list (to_add.pop(0) / append),
            so the effects come out in BREADTH-FIRST order: first the plain effects, then the bodies of the when / forall
            wrappers, then the bodies of forall+when; an inner "when" REPLACES the condition of an outer one (it is not
            conjoined: PDDL has no nested when and the writer never emits one); nested forall is rejected; the condition
            read after "when" is simplified and the whole branch is dropped when it is false.
   Effect record = Planning/Problem.v [effect] (e_fl/e_args = the target FluentExp, e_val, e_cond (EBool true when
   unconditional), e_kind, e_vars = Effect.forall, e_isbool = the target fluent is Boolean).
   [simp] = the environment's Simplifier (C11's subject), external: every function below takes it as a parameter; the
   correspondence passes the real simplifier's answers as a table.
   Not modelled (they only raise): type checks of add_effect, check_conflicting_effects, "fluent inside the target's
   arguments"; the (increase (total-cost) c) that _write_untimed_effects appends for action costs; timed/continuous
   effects ("#t": rejected for instantaneous actions, modelled as None). *)
From Coq Require Import List ZArith NArith QArith Qcanon Bool String Ascii.
Import ListNotations.
Require Import UPV.Core.Expr UPV.Planning.Problem UPV.Model.PddlExpr UPV.Model.PddlLex.
Local Open Scope string_scope.

Definition target (e : effect) : expr := EFluent (Problem.e_fl e) (e_args e).

(* converter.convert(x) = walk(simplify(x)) *)
Definition convert (simp : expr -> expr) (nm : naming) (x : expr) : option sexp := print nm (simp x).

Definition wrap_forall (nm : naming) (vs : list (N * N)) (x : sexp) : sexp :=
  match vs with [] => x | _ => SList [Atom "forall"; SList (print_vars nm vs); x] end.

Definition kind_kw (k : ekind) : string :=
  match k with KAssign => "assign" | KInc => "increase" | KDec => "decrease" end.

(* _write_effect(effect, None, ...): the S-expressions written for one effect (0, 1 or 2); None = raises *)
Definition print_effect (simp : expr -> expr) (nm : naming) (rewrite : bool) (e : effect) : option (list sexp) :=
  let sc := simp (e_cond e) in
  let fl := convert simp nm (target e) in
  let nonconst := e_isbool e && negb (is_true (e_val e)) && negb (is_false (e_val e)) in
  if nonconst then
    if negb rewrite then None                                    (* UPProblemDefinitionError *)
    else match e_kind e with
    | KAssign =>
        let part (c : expr) (mk : sexp -> sexp) : option (list sexp) :=
          if is_false c then Some []
          else match fl with
               | None => None
               | Some f =>
                   if is_true c then Some [wrap_forall nm (e_vars e) (mk f)]
                   else match convert simp nm c with
                        | Some cs => Some [wrap_forall nm (e_vars e) (SList [Atom "when"; cs; mk f])]
                        | None => None
                        end
               end in
        match part (simp (EAnd [sc; e_val e])) (fun f => f),
              part (simp (EAnd [sc; mkNot (e_val e)])) (fun f => SList [Atom "not"; f]) with
        | Some a, Some b => Some (a ++ b)%list
        | _, _ => None
        end
    | _ => None                                                  (* assert effect.is_assignment() *)
    end
  else if is_false sc then Some []
  else
    let sv := simp (e_val e) in
    match (if is_true sc then Some None else option_map Some (convert simp nm (e_cond e))), fl with
    | Some ocs, Some f =>
        let leaf :=
          if is_true sv then Some f
          else if is_false sv then Some (SList [Atom "not"; f])
          else option_map (fun v => SList [Atom (kind_kw (e_kind e)); f; v]) (convert simp nm sv) in
        match leaf with
        | Some lf =>
            Some [wrap_forall nm (e_vars e) (match ocs with Some cs => SList [Atom "when"; cs; lf] | None => lf end)]
        | None => None
        end
    | _, _ => None
    end.

(* _write_untimed_effects: "(and" effect* ")" *)
Definition print_effects (simp : expr -> expr) (nm : naming) (rewrite : bool) (effs : list effect) : option sexp :=
  match sequence (map (print_effect simp nm rewrite) effs) with
  | Some ls => Some (SList (Atom "and" :: List.concat ls))
  | None => None
  end.

(* ------------------------------------------------------------------ parser *)
(* CustomParseResults.__contains__: the token occurs anywhere below *)
Fixpoint contains_tok (t : string) (s : sexp) {struct s} : bool :=
  match s with
  | Atom a => a =? t
  | SList l => existsb (contains_tok t) l
  end.

Fixpoint ssize (s : sexp) : nat :=
  match s with Atom _ => 1%nat | SList l => S (fold_right (fun x n => (ssize x + n)%nat) 0%nat l) end.

(* act.add_effect / add_increase_effect / add_decrease_effect + the Effect constructor: the target must be a fluent
   expression; Effect.forall keeps the given variables that occur free in the effect, an unbound variable raises *)
Definition mk_effect (E : env) (isb : N -> bool) (tgt val cond : expr) (k : ekind) (vars : list (string * N))
  : option effect :=
  match tgt with
  | EFluent f args =>
      match sequence (map (fun p => option_map (fun v => (v, snd p)) (e_var E (fst p))) vars) with
      | Some vs =>
          let fv := (free_vars tgt ++ free_vars val ++ free_vars cond)%list in
          if forallb (fun v => memN v (map fst vs)) fv then
            Some {| Problem.e_fl := f; e_args := args; e_val := val; e_cond := cond; e_kind := k;
                    e_vars := filter (fun p => memN (fst p) fv) vs; e_isbool := isb f |}
          else None
      | None => None
      end
  | _ => None
  end.

Definition qitem := (sexp * expr * list (string * N))%type.

Definition qsize (q : list qitem) : nat := fold_right (fun it n => (ssize (fst (fst it)) + n)%nat) 0%nat q.

(* the loop of _add_effect; [fuel] bounds the number of iterations, None also when it runs out (never for
   fuel >= the total size of the queue) *)
Fixpoint parse_q (simp : expr -> expr) (E : env) (isb : N -> bool) (fuel : nat) (q : list qitem) (acc : list effect)
  {struct fuel} : option (list effect) :=
  match q with
  | [] => Some (rev acc)
  | (x, cond, vars) :: q' =>
      match fuel with
      | O => None
      | S f =>
          let continue := parse_q simp E isb f in
          let add (tgt val : option expr) (k : ekind) :=
            match tgt, val with
            | Some t, Some v => match mk_effect E isb t v cond k vars with
                                | Some e => continue q' (e :: acc) | None => None end
            | _, _ => None
            end in
          match x with
          | Atom _ => None
          | SList [] => continue q' acc
          | SList (Atom op :: rest) =>
              if op =? "and" then continue (q' ++ map (fun y => (y, cond, vars)) rest)%list acc
              else if op =? "when" then
                match rest with
                | c :: body :: _ =>
                    match parse E vars c with
                    | Some c' => let c'' := simp c' in
                                 if is_false c'' then continue q' acc
                                 else continue (q' ++ [(body, c'', vars)])%list acc
                    | None => None
                    end
                | _ => None
                end
              else if op =? "not" then
                match rest with y :: _ => add (parse E vars y) (Some (EBool false)) KAssign | [] => None end
              else if op =? "assign" then
                match rest with y :: v :: _ => add (parse E vars y) (parse E vars v) KAssign | _ => None end
              else if (op =? "increase") || (op =? "decrease") then
                if contains_tok "#t" x then None
                else match rest with
                     | y :: v :: _ => add (parse E vars y) (parse E vars v) (if op =? "increase" then KInc else KDec)
                     | _ => None end
              else if op =? "forall" then
                match vars, rest with
                | [], SList vl :: body :: _ =>
                    if forallb is_atom vl then
                      match parse_vars E [] vl with
                      | Some nv => if nodup_s (map fst nv) then continue (q' ++ [(body, cond, nv)])%list acc else None
                      | None => None
                      end
                    else None
                | _, _ => None
                end
              else add (parse E vars x) (Some (EBool true)) KAssign
          | SList (SList _ :: _) => add (parse E vars x) (Some (EBool true)) KAssign
          end
      end
  end.

Definition parse_effects (simp : expr -> expr) (E : env) (isb : N -> bool) (x : sexp) : option (list effect) :=
  parse_q simp E isb (S (ssize x)) [(x, EBool true, [])] [].

(* ------------------------------------------------------------------ fragment and normal form *)
Definition sfix (simp : expr -> expr) (x : expr) : bool := expr_eqb (simp x) x.

Definition eff_fv (e : effect) : list N :=
  (free_vars (norm (target e)) ++ free_vars (norm (e_val e)) ++ free_vars (norm (e_cond e)))%list.

(* effects in simplifier normal form ([simp] leaves condition, value, target and the re-read condition alone),
   Boolean effects assign a constant, numeric / object effects a printable value, every expression is in the
   expression fragment under the effect's forall variables, and the forall variables are distinct and all used *)
Definition pddl_eff_ok (simp : expr -> expr) (isb : N -> bool) (e : effect) : bool :=
  sfix simp (e_cond e) && sfix simp (norm (e_cond e)) && sfix simp (e_val e) && sfix simp (target e)
  && Bool.eqb (e_isbool e) (isb (Problem.e_fl e))
  && (if e_isbool e then (is_true (e_val e) || is_false (e_val e)) && match e_kind e with KAssign => true | _ => false end
      else negb (is_true (e_val e)) && negb (is_false (e_val e)) && pddl_ok (e_vars e) (e_val e))
  && (is_true (e_cond e) || is_false (e_cond e) || (pddl_ok (e_vars e) (e_cond e) && negb (is_false (norm (e_cond e)))))
  && pddl_ok (e_vars e) (target e)
  && nodupN (map fst (e_vars e))
  && forallb (fun v => memN v (map fst (e_vars e))) (eff_fv e)
  && forallb (fun p => memN (fst p) (eff_fv e)) (e_vars e).

Definition norm_eff (e : effect) : effect :=
  {| Problem.e_fl := Problem.e_fl e; e_args := map norm (e_args e); e_val := norm (e_val e); e_cond := norm (e_cond e);
     e_kind := e_kind e; e_vars := e_vars e; e_isbool := e_isbool e |}.

(* number of wrappers the writer puts around the leaf = the round of the work list in which the reader adds it *)
Definition depth (e : effect) : nat :=
  ((if is_true (e_cond e) then 0 else 1) + (match e_vars e with [] => 0 | _ => 1 end))%nat.

Definition bylevel (l : list effect) : list effect :=
  (filter (fun e => Nat.eqb (depth e) 0) l ++ filter (fun e => Nat.eqb (depth e) 1) l
   ++ filter (fun e => Nat.eqb (depth e) 2) l)%list.

(* what the reader rebuilds: effects with a constantly false condition are gone, the others come level by level
   (stable inside a level), expressions are normalised like in the expression layer *)
Definition norm_effs (effs : list effect) : list effect :=
  map norm_eff (bylevel (filter (fun e => negb (is_false (e_cond e))) effs)).

(* the keywords _add_effect dispatches on: a fluent with such a name would not be read as a positive literal *)
Definition is_eff_kw (h : string) : bool :=
  (h =? "and") || (h =? "when") || (h =? "not") || (h =? "assign") || (h =? "increase") || (h =? "decrease")
  || (h =? "forall").

(* ------------------------------------------------------------------ the TEXT _write_untimed_effects emits *)
(* "(forall (" + "?v - t ..." + ")" is written WITHOUT a leading blank; every other piece starts with one:
   "(and" + [ " f" | " (when c f)" | "(forall (vs) f)" | "(forall (vs) (when c f))" ]* + ")" *)
Definition convert_text (simp : expr -> expr) (nm : naming) (x : expr) : option string := print_text nm (simp x).

Definition item_text (nm : naming) (vs : list (N * N)) (body : string) : string :=
  match vs with [] => String " " body | _ => tlist ["forall"; tlist (var_toks nm vs); body] end.

Definition print_effect_text (simp : expr -> expr) (nm : naming) (rewrite : bool) (e : effect) : option (list string) :=
  let sc := simp (e_cond e) in
  let fl := convert_text simp nm (target e) in
  let nonconst := e_isbool e && negb (is_true (e_val e)) && negb (is_false (e_val e)) in
  if nonconst then
    if negb rewrite then None
    else match e_kind e with
    | KAssign =>
        let part (c : expr) (mk : string -> string) : option (list string) :=
          if is_false c then Some []
          else match fl with
               | None => None
               | Some f =>
                   if is_true c then Some [item_text nm (e_vars e) (mk f)]
                   else match convert_text simp nm c with
                        | Some cs => Some [item_text nm (e_vars e) (tlist ["when"; cs; mk f])]
                        | None => None
                        end
               end in
        match part (simp (EAnd [sc; e_val e])) (fun f => f),
              part (simp (EAnd [sc; mkNot (e_val e)])) (fun f => tlist ["not"; f]) with
        | Some a, Some b => Some (a ++ b)%list
        | _, _ => None
        end
    | _ => None
    end
  else if is_false sc then Some []
  else
    let sv := simp (e_val e) in
    match (if is_true sc then Some None else option_map Some (convert_text simp nm (e_cond e))), fl with
    | Some ocs, Some f =>
        let leaf :=
          if is_true sv then Some f
          else if is_false sv then Some (tlist ["not"; f])
          else option_map (fun v => tlist [kind_kw (e_kind e); f; v]) (convert_text simp nm sv) in
        match leaf with
        | Some lf =>
            Some [item_text nm (e_vars e) (match ocs with Some cs => tlist ["when"; cs; lf] | None => lf end)]
        | None => None
        end
    | _, _ => None
    end.

Fixpoint concat_s (l : list string) : string := match l with [] => "" | x :: r => x ++ concat_s r end.

Definition print_effects_text (simp : expr -> expr) (nm : naming) (rewrite : bool) (effs : list effect) : option string :=
  match sequence (map (print_effect_text simp nm rewrite) effs) with
  | Some ls => Some ("(and" ++ concat_s (List.concat ls) ++ ")")
  | None => None
  end.

(* lower-casing + tokenisation + _add_effect *)
Definition parse_effects_text (simp : expr -> expr) (E : env) (isb : N -> bool) (t : string) : option (list effect) :=
  match lex (prep t) with Some s => parse_effects simp E isb s | None => None end.

(* ------------------------------------------------------------------ one instantaneous action (structural level) *)
(* PDDLWriter._write_domain, branch InstantaneousAction: "(:action name :parameters (" + " ?p - t"* + ")" +
   _write_untimed_preconditions + _write_untimed_effects + ")".  UPPDDLReader._parse_problem: the grammar's typed list
   [parameters] (the same grammar as the quantifier variable lists: [parse_vars]), one precondition = _parse_exp of the
   whole "(and ...)" group added with add_precondition (TRUE is not added), effects = _add_effect. *)
Record paction := {
  pa_params : list (N * N);        (* (parameter id, user type id) in order *)
  pa_pre : list expr;              (* InstantaneousAction.preconditions *)
  pa_effs : list effect
}.

Definition print_pars (nm : naming) (ps : list (N * N)) : list sexp :=
  flat_map (fun pt => [Atom (qpar nm (fst pt)); Atom "-"; Atom (nm_ty nm (snd pt))]) ps.

(* the conjuncts _write_untimed_preconditions prints: every precondition simplified, TRUE skipped, a top-level And
   replaced by its arguments *)
Definition pre_conjuncts (simp : expr -> expr) (pre : list expr) : list expr :=
  flat_map (fun p => let s := simp p in if is_true s then [] else match s with EAnd l => l | _ => [s] end) pre.

Record action_sx := { ax_params : list sexp; ax_pre : option sexp; ax_eff : option sexp }.

(* None = the writer raises; the action is skipped altogether when a precondition simplifies to FALSE ([Some None]) *)
Definition print_action (simp : expr -> expr) (nm : naming) (rewrite empty_pre : bool) (a : paction)
  : option (option action_sx) :=
  if existsb (fun p => is_false (simp p)) (pa_pre a) then Some None
  else
    let pre :=
      match pa_pre a with
      | [] => if empty_pre then Some (Some (SList [])) else Some None
      | _ => match sequence (map (fun c => print nm (simp c)) (pre_conjuncts simp (pa_pre a))) with
             | Some ss => Some (Some (SList (Atom "and" :: ss)))
             | None => None end
      end in
    let eff :=
      match pa_effs a with
      | [] => Some None
      | _ => option_map Some (print_effects simp nm rewrite (pa_effs a))
      end in
    match pre, eff with
    | Some p, Some e => Some (Some {| ax_params := print_pars nm (pa_params a); ax_pre := p; ax_eff := e |})
    | _, _ => None
    end.

Definition parse_action (simp : expr -> expr) (E : env) (isb : N -> bool) (x : action_sx) : option paction :=
  if forallb is_atom (ax_params x) then
    match parse_vars E [] (ax_params x) with
    | Some nps =>
        match sequence (map (fun p => option_map (fun i => (i, snd p)) (e_par E (fst p))) nps) with
        | Some ps =>
            let pre := match ax_pre x with
                       | None => Some []
                       | Some s => match parse E [] s with
                                   | Some c => Some (if is_true c then [] else [c])
                                   | None => None end
                       end in
            let eff := match ax_eff x with None => Some [] | Some s => parse_effects simp E isb s end in
            match pre, eff with
            | Some p, Some e => Some {| pa_params := ps; pa_pre := p; pa_effs := e |}
            | _, _ => None
            end
        | None => None
        end
    | None => None
    end
  else None.

(* the re-read action: ONE precondition, the conjunction of the normalised written conjuncts (none when it is TRUE:
   add_precondition does not add TRUE; on the fragment this happens only for an empty group) *)
Definition norm_action (simp : expr -> expr) (a : paction) : paction :=
  {| pa_params := pa_params a;
     pa_pre := match pa_pre a with
               | [] => []
               | _ => let c := mkAnd (map norm (pre_conjuncts simp (pa_pre a))) in if is_true c then [] else [c]
               end;
     pa_effs := norm_effs (pa_effs a) |}.

Definition pddl_action_ok (simp : expr -> expr) (isb : N -> bool) (a : paction) : bool :=
  negb (existsb (fun p => is_false (simp p)) (pa_pre a))
  && forallb (fun c => sfix simp c && pddl_ok [] c) (pre_conjuncts simp (pa_pre a))
  && forallb (pddl_eff_ok simp isb) (pa_effs a)
  && nodupN (map fst (pa_params a)).
