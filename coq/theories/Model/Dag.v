(* Executable model of unified_planning/model/walkers/dag.py : DagWalker, as a state machine over an abstract DAG.

   Mirrors:
     DagWalker.memoization / .stack              -> [walker] (stack: head = top, Python pops from the end)
     _push_with_children_to_stack                -> [push_children]  ((True, e), then (False, s) for each child s that
                                                    is not memoized, so the LAST such child is on top)
     _compute_node_result                        -> the (true, n) case of [process]; a child that is not memoized is
                                                    Python's KeyError ([KeyErr])
     _process_stack                              -> [process] (fuel; [OutOfFuel] is excluded by the theorems)
     iter_walk / walk / invalidate_memoization   -> [iter_walk], [walk]  (walk as repaired: when the walk raises, the
                                                    stack is cleared, and the memoization too for one-time caches)
     StateEvaluator.evaluate / QuantifierSimplifier.qsimplify (assert the assignments are None, set them, walk, and
     reset them in a finally)                    -> [evaluate]
   Nodes are numbers (FNode ids), [children n] are expression.args.  The node function [f n args] (walk_* applied to
   the children's results) returns None when it RAISES.  Which walkers use what (unified_planning/environment.py keeps
   one instance of each per Environment):
     invalidate_memoization = False : TypeChecker, Simplifier, FreeVarsExtractor, FreeVarsOracle, NamesExtractor ...
       (one fixed node function for the life of the walker; the memoization is kept between calls)
     invalidate_memoization = True  : Substituter (node function depends on the call's substitution map),
       ExpressionQuantifiersRemover, QuantifierSimplifier, StateEvaluator (depends on the state), Dnf
   Substituter and QuantifierSimplifier treat quantifier nodes as leaves (a fresh walker handles the body); that is
   a [children] function which returns [] there. *)
From Coq Require Import List NArith Bool.
Import ListNotations.
Open Scope N_scope.

Section Dag.
  Variable R : Type.                       (* results of the node function *)
  Variable children : N -> list N.

  Record walker := { memo : list (N * R); stack : list (bool * N) }.
  Definition fresh : walker := {| memo := []; stack := [] |}.

  Inductive failure :=
  | FailAt (n : N)       (* the node function raised while computing node n *)
  | KeyErr (n : N).      (* self.memoization[child] raised KeyError while computing node n *)

  Inductive outcome := Done (w : walker) | Raised (x : failure) (w : walker) | OutOfFuel.
  Inductive result := ROk (r : R) | RFail (x : failure) | RNoFuel.

  Fixpoint lookup (n : N) (m : list (N * R)) : option R :=
    match m with
    | [] => None
    | (k, r) :: m' => if k =? n then Some r else lookup n m'
    end.

  Definition memoized (m : list (N * R)) (n : N) : bool :=
    match lookup n m with Some _ => true | None => false end.

  (* [self.memoization[key(s)] for s in children] *)
  Fixpoint lookups (cs : list N) (m : list (N * R)) : option (list R) :=
    match cs with
    | [] => Some []
    | c :: cs' => match lookup c m, lookups cs' m with Some r, Some rs => Some (r :: rs) | _, _ => None end
    end.

  Definition pending (m : list (N * R)) (cs : list N) : list (bool * N) :=
    map (pair false) (filter (fun c => negb (memoized m c)) cs).

  Definition push_children (m : list (N * R)) (n : N) (rest : list (bool * N)) : list (bool * N) :=
    pending m (rev (children n)) ++ (true, n) :: rest.

  Section Fn.
    Variable f : N -> list R -> option R.     (* None = raises *)

    Fixpoint process (fuel : nat) (w : walker) : outcome :=
      match fuel with
      | O => OutOfFuel
      | S fuel' =>
          match stack w with
          | [] => Done w
          | (true, n) :: rest =>
              if memoized (memo w) n then process fuel' {| memo := memo w; stack := rest |}
              else match lookups (children n) (memo w) with
                   | None => Raised (KeyErr n) {| memo := memo w; stack := rest |}
                   | Some args =>
                       match f n args with
                       | None => Raised (FailAt n) {| memo := memo w; stack := rest |}
                       | Some r => process fuel' {| memo := (n, r) :: memo w; stack := rest |}
                       end
                   end
          | (false, n) :: rest => process fuel' {| memo := memo w; stack := push_children (memo w) n rest |}
          end
      end.

    Definition iter_walk (fuel : nat) (w : walker) (n : N) : outcome :=
      process fuel {| memo := memo w; stack := (false, n) :: stack w |}.

    (* DagWalker.walk; [inval] = self.invalidate_memoization *)
    Definition walk (inval : bool) (fuel : nat) (w : walker) (n : N) : walker * result :=
      match lookup n (memo w) with
      | Some r => (w, ROk r)                                         (* if expression in self.memoization *)
      | None =>
          match iter_walk fuel w n with
          | Done w' =>
              match lookup n (memo w') with
              | Some r => ({| memo := if inval then [] else memo w'; stack := stack w' |}, ROk r)
              | None => ({| memo := if inval then [] else memo w'; stack := [] |}, RFail (KeyErr n))
              end
          | Raised x w' =>                                           (* except: stack.clear(); memo.clear() if inval *)
              ({| memo := if inval then [] else memo w'; stack := [] |}, RFail x)
          | OutOfFuel => (w, RNoFuel)
          end
      end.
  End Fn.

  (* a history of calls to ONE walker; each call carries its own node function (for the Substituter: its
     substitution map; for all: where it raises) *)
  Definition call := ((N -> list R -> option R) * N * nat)%type.

  Definition run_call (inval : bool) (w : walker) (c : call) : walker * result :=
    match c with (f, n, fuel) => walk f inval fuel w n end.

  Definition run_calls (inval : bool) (w : walker) (cs : list call) : walker :=
    fold_left (fun w c => fst (run_call inval w c)) cs w.

  Fixpoint results (inval : bool) (w : walker) (cs : list call) : list result :=
    match cs with
    | [] => []
    | c :: cs' => let (w', r) := run_call inval w c in r :: results inval w' cs'
    end.

  (* ---- StateEvaluator / QuantifierSimplifier: a one-time-cache walker plus the "assignments" fields ---- *)
  Record evaluator := { ev_walker : walker; ev_busy : bool }.     (* busy: _variable_assignments is not None *)
  Definition fresh_evaluator : evaluator := {| ev_walker := fresh; ev_busy := false |}.

  Inductive ev_result := EvAssert | EvRes (r : result).           (* EvAssert: `assert ... is None` failed *)

  Definition evaluate (f : N -> list R -> option R) (fuel : nat) (e : evaluator) (n : N) : evaluator * ev_result :=
    if ev_busy e then (e, EvAssert)
    else
      (* self._variable_assignments = ...; try: r = self.walk(expression)  finally: ... = None *)
      let (w', r) := walk f true fuel (ev_walker e) n in
      ({| ev_walker := w'; ev_busy := false |}, EvRes r).
End Dag.

Arguments fresh {R}.
Arguments Done {R}.
Arguments Raised {R}.
Arguments OutOfFuel {R}.
Arguments ROk {R}.
Arguments RFail {R}.
Arguments RNoFuel {R}.
Arguments fresh_evaluator {R}.
Arguments EvAssert {R}.
Arguments EvRes {R}.
