(* Executable model of the component codecs of unified_planning/grpc/proto_writer.py (encoders) and
   unified_planning/grpc/proto_reader.py (decoders), as they are after the fix commits ecd0113, 355ac19 (types).

   Conventions
   * [name] is an interned identifier string; 0 stands for the EMPTY string "" (the proto3 default of a string field).
   * Type strings are modelled at token level: "up:real[" lo ", " hi "]" is [SRealB lo hi] with tokens
     [TInt z] = str(int), [TFrac q] = "n/d" (d > 1), [TInf] = "inf", [TNegInf] = "-inf".  Python's str(int), int(str),
     Fraction.__str__ and Fraction(str) are trusted atoms: [py_int], [py_fraction_str], [str_fraction].
   * Symbols ("up:plus", "up:start", a fluent name, ...) are the constructors of [sym]; distinct constructors stand
     for distinct strings (user identifiers never start with "up:").
   * A decoder returns [None] where the Python code raises.  On messages that the writer never produces the decoders
     may answer [None] where the Python code would build a meaningless object; the theorems and the correspondence
     only concern writer outputs.
   * Python dicts (action costs, oversubscription goals) are association lists in insertion order. *)
From Coq Require Import List ZArith NArith QArith Qreduction Bool.
Import ListNotations.
Open Scope list_scope.

Definition name := N.

(* ------------------------------------------------------------------ numbers *)
(* proto.Real {numerator, denominator} *)
Definition real_msg := (Z * Z)%type.

(* ProtobufWriter._convert_fraction / real_expression: numerator, denominator of a fractions.Fraction *)
Definition enc_real (q : Q) : real_msg := (Qnum q, Zpos (Qden q)).

(* fractions.Fraction(n, d): ZeroDivisionError when d = 0, sign carried by the numerator, reduced *)
Definition py_fraction (n d : Z) : option Q :=
  match d with
  | Z0 => None
  | Zpos p => Some (Qred (Qmake n p))
  | Zneg p => Some (Qred (Qmake (- n) p))
  end.

(* ProtobufReader._convert_real *)
Definition dec_real (m : real_msg) : option Q := py_fraction (fst m) (snd m).

(* a fractions.Fraction is always stored reduced *)
Definition canonQ (q : Q) : Prop := Qred q = q.
Definition canonQb (q : Q) : bool :=
  (Qnum (Qred q) =? Qnum q)%Z && (Qden (Qred q) =? Qden q)%positive.

(* ------------------------------------------------------------------ types *)
Inductive ty :=
| TyBool
| TyInt (lo hi : option Z)
| TyReal (lo hi : option Q)
| TyUser (n : name).

(* structural equality (Fractions are compared by numerator and denominator: they are stored reduced) *)
Definition Qeqb_strict (a b : Q) : bool := (Qnum a =? Qnum b)%Z && (Qden a =? Qden b)%positive.
Definition opt_eqb {A} (e : A -> A -> bool) (a b : option A) : bool :=
  match a, b with Some x, Some y => e x y | None, None => true | _, _ => false end.
Definition ty_eqb (a b : ty) : bool :=
  match a, b with
  | TyBool, TyBool => true
  | TyInt l h, TyInt l' h' => opt_eqb Z.eqb l l' && opt_eqb Z.eqb h h'
  | TyReal l h, TyReal l' h' => opt_eqb Qeqb_strict l l' && opt_eqb Qeqb_strict h h'
  | TyUser n, TyUser n' => (n =? n')%N
  | _, _ => false
  end.

Inductive tok := TInt (z : Z) | TFrac (q : Q) | TInf | TNegInf.

Inductive tystr :=
| SBool                      (* "up:bool" *)
| SInt                       (* "up:integer" *)
| SIntB (lo hi : tok)        (* "up:integer[lo, hi]" *)
| SReal                      (* "up:real" *)
| SRealB (lo hi : tok)       (* "up:real[lo, hi]" *)
| SUser (n : name).          (* any string not starting with "up:" *)

(* Fraction.__str__ : "n" when the denominator is 1, "n/d" otherwise *)
Definition str_fraction (q : Q) : tok :=
  match Qden q with xH => TInt (Qnum q) | _ => TFrac q end.

Definition lo_tok {A} (f : A -> tok) (b : option A) : tok := match b with None => TNegInf | Some x => f x end.
Definition hi_tok {A} (f : A -> tok) (b : option A) : tok := match b with None => TInf | Some x => f x end.

(* proto_type (with _IntType.__repr__ / _RealType.__repr__) *)
Definition proto_type (t : ty) : tystr :=
  match t with
  | TyBool => SBool
  | TyInt None None => SInt
  | TyInt lo hi => SIntB (lo_tok TInt lo) (hi_tok TInt hi)
  | TyReal None None => SReal
  | TyReal lo hi => SRealB (lo_tok str_fraction lo) (hi_tok str_fraction hi)
  | TyUser n => SUser n
  end.

(* int(str): ValueError on "5/3", "inf", "-inf" *)
Definition py_int (t : tok) : option Z := match t with TInt z => Some z | _ => None end.
(* fractions.Fraction(str): ValueError on "inf", "-inf" *)
Definition py_fraction_str (t : tok) : option Q :=
  match t with TInt z => Some (Qmake z 1) | TFrac q => Some (Qred q) | _ => None end.
(* "-inf" in s *)
Definition has_neginf (t : tok) : bool := match t with TNegInf => true | _ => false end.
(* "inf" in s   (also true of "-inf") *)
Definition has_inf (t : tok) : bool := match t with TInf | TNegInf => true | _ => false end.
(* s == "inf" *)
Definition is_inf (t : tok) : bool := match t with TInf => true | _ => false end.

(* `None if <unbounded> else conv(s)` *)
Definition opt_bound {A} (unbounded : bool) (v : option A) : option (option A) :=
  if unbounded then Some None else match v with Some x => Some (Some x) | None => None end.

Section Types.
  Variable user_type : name -> bool.     (* problem.user_type(name) succeeds *)

  (* proto_reader.convert_type_str *)
  Definition convert_type_str (s : tystr) : option ty :=
    match s with
    | SBool => Some TyBool
    | SInt => Some (TyInt None None)
    | SIntB lo hi =>
        match opt_bound (has_neginf lo) (py_int lo), opt_bound (has_inf hi) (py_int hi) with
        | Some l, Some h => Some (TyInt l h)
        | _, _ => None
        end
    | SReal => Some (TyReal None None)
    | SRealB lo hi =>
        match opt_bound (has_neginf lo) (py_fraction_str lo), opt_bound (has_inf hi) (py_fraction_str hi) with
        | Some l, Some h => Some (TyReal l h)
        | _, _ => None
        end
    | SUser n => if user_type n then Some (TyUser n) else None
    end.

  (* proto.TypeDeclaration {type_name, parent_type} ; parent_type "" = 0 *)
  Record type_decl := { td_name : tystr; td_parent : name }.

  (* ProtobufWriter._convert_bool_type/_convert_integer_type/_convert_real/_convert_user_type;
     [father] is only meaningful for a user type *)
  Definition enc_type_decl (t : ty) (father : option name) : type_decl :=
    {| td_name := proto_type t;
       td_parent := match t, father with TyUser _, Some f => f | _, _ => 0%N end |}.

  (* ProtobufReader._convert_type_declaration *)
  Definition dec_type_decl (d : type_decl) : option (ty * option name) :=
    match td_name d with
    | SBool => Some (TyBool, None)
    | SInt => Some (TyInt None None, None)
    | SReal => Some (TyReal None None, None)
    | SIntB lo hi =>
        match opt_bound (has_neginf lo) (py_int lo), opt_bound (is_inf hi) (py_int hi) with
        | Some l, Some h => Some (TyInt l h, None)
        | _, _ => None
        end
    | SRealB lo hi =>
        match opt_bound (has_neginf lo) (py_fraction_str lo), opt_bound (is_inf hi) (py_fraction_str hi) with
        | Some l, Some h => Some (TyReal l h, None)
        | _, _ => None
        end
    | SUser n =>
        if (td_parent d =? 0)%N then Some (TyUser n, None)
        else if user_type (td_parent d) then Some (TyUser n, Some (td_parent d)) else None
    end.

  Definition wf_boundb (b : option Q) : bool := match b with None => true | Some q => canonQb q end.
  (* the Python object is well formed: Fraction bounds are reduced, a user type belongs to the problem *)
  Definition wf_tyb (t : ty) : bool :=
    match t with
    | TyReal lo hi => wf_boundb lo && wf_boundb hi
    | TyUser n => user_type n
    | _ => true
    end.
End Types.

(* ------------------------------------------------------------------ timepoints, timings, intervals *)
Inductive tpkind := GlobalStart | GlobalEnd | Start | End_.
Record timepoint := { tp_kind : tpkind; tp_container : option name }.
(* Timing.__init__ stores uniform_numeric_constant(delay): one canonical rational *)
Record timing := { tm_delay : Q; tm_tp : timepoint }.
Record tinterval := { ti_lower : timing; ti_upper : timing; ti_lopen : bool; ti_ropen : bool }.

Record timepoint_msg := { tpm_kind : N; tpm_container : name }.
Record timing_msg := { tmm_tp : timepoint_msg; tmm_delay : option real_msg }.
Record tinterval_msg := { tim_lopen : bool; tim_lower : timing_msg; tim_ropen : bool; tim_upper : timing_msg }.

(* proto.Timepoint.TimepointKind values *)
Definition tpkind_num (k : tpkind) : N :=
  match k with GlobalStart => 0 | GlobalEnd => 1 | Start => 2 | End_ => 3 end%N.

(* ProtobufWriter._convert_timepoint : container None is written as the default "" *)
Definition enc_timepoint (tp : timepoint) : timepoint_msg :=
  {| tpm_kind := tpkind_num (tp_kind tp);
     tpm_container := match tp_container tp with Some c => c | None => 0%N end |}.

(* ProtobufReader._convert_timepoint *)
Definition dec_timepoint (m : timepoint_msg) : option timepoint :=
  let container := if (tpm_container m =? 0)%N then None else Some (tpm_container m) in
  match tpm_kind m with
  | 0%N => Some {| tp_kind := GlobalStart; tp_container := container |}
  | 1%N => Some {| tp_kind := GlobalEnd; tp_container := container |}
  | 2%N => Some {| tp_kind := Start; tp_container := container |}
  | 3%N => Some {| tp_kind := End_; tp_container := container |}
  | _ => None
  end.

(* model.Timing(delay, timepoint) *)
Definition mk_timing (d : Q) (tp : timepoint) : timing := {| tm_delay := Qred d; tm_tp := tp |}.

(* ProtobufWriter._convert_timing : delay = Fraction(timing.delay) *)
Definition enc_timing (t : timing) : timing_msg :=
  {| tmm_tp := enc_timepoint (tm_tp t); tmm_delay := Some (enc_real (tm_delay t)) |}.

(* ProtobufReader._convert_timing *)
Definition dec_timing (m : timing_msg) : option timing :=
  match (match tmm_delay m with Some r => dec_real r | None => Some (Qmake 0 1) end), dec_timepoint (tmm_tp m) with
  | Some d, Some tp => Some (mk_timing d tp)
  | _, _ => None
  end.

(* ProtobufWriter._convert_time_interval *)
Definition enc_tinterval (i : tinterval) : tinterval_msg :=
  {| tim_lopen := ti_lopen i; tim_lower := enc_timing (ti_lower i);
     tim_ropen := ti_ropen i; tim_upper := enc_timing (ti_upper i) |}.

(* ProtobufReader._convert_timed_interval *)
Definition dec_tinterval (m : tinterval_msg) : option tinterval :=
  match dec_timing (tim_lower m), dec_timing (tim_upper m) with
  | Some l, Some u => Some {| ti_lower := l; ti_upper := u; ti_lopen := tim_lopen m; ti_ropen := tim_ropen m |}
  | _, _ => None
  end.

(* a container written through the Timepoint MESSAGE must not be the empty string (proto3 cannot tell "" from unset) *)
Definition wf_timepointb (tp : timepoint) : bool :=
  match tp_container tp with Some c => negb (c =? 0)%N | None => true end.
Definition wf_timingb (t : timing) : bool := canonQb (tm_delay t) && wf_timepointb (tm_tp t).
Definition wf_tintervalb (i : tinterval) : bool := wf_timingb (ti_lower i) && wf_timingb (ti_upper i).

(* ------------------------------------------------------------------ expressions *)
Inductive op := OPlus | OMinus | OTimes | ODiv | OLe | OLt | OEquals | OAnd | OOr | ONot | OImplies | OIff
              | OAlways | OAtMostOnce | OSometime | OSometimeAfter | OSometimeBefore.
Inductive quant := QExists | QForall.

(* model.FNode, by node kind.  A fluent / object / parameter / variable is identified by its name and type
   (the reader looks fluents and objects up in the problem by name). *)
Inductive expr :=
| EBool (b : bool)
| EInt (z : Z)
| EReal (q : Q)
| EParam (n : name) (t : ty)
| EVar (n : name) (t : ty)
| EObj (n : name) (t : ty)
| EFluent (f : name) (t : ty) (args : list expr)
| EOp (o : op) (args : list expr)
| EQuant (q : quant) (vars : list (name * ty)) (body : expr)
| ETiming (t : timing)
| EPresent (container : name).

(* strings that occur in Atom.symbol *)
Inductive sym :=
| SName (n : name)            (* identifier of the problem *)
| SOp (o : op)                (* map_operator: "up:plus", ... *)
| SQuant (q : quant)          (* "up:exists", "up:forall" *)
| SPresent                    (* "up:present" *)
| STp (k : tpkind).           (* "up:start", "up:end", "up:global_start", "up:global_end" *)

Inductive atom := ASym (s : sym) | AInt (z : Z) | AReal (n d : Z) | ABool (b : bool).

Inductive ekind := KUnknown | KConstant | KParameter | KVariable | KFluentSymbol | KFunctionSymbol
                 | KStateVariable | KFunctionApplication | KContainerId.

(* Expression.type *)
Inductive etype :=
| YNone                       (* "" *)
| YTy (s : tystr)             (* a type string; "up:bool" / "up:integer" / "up:real" for constants *)
| YTime                       (* "up:time" *)
| YContainer                  (* "up:container" *)
| YOperator.                  (* "up:operator" *)

(* proto.Expression {atom, list, type, kind} *)
Inductive pexpr := PE (a : option atom) (l : list pexpr) (t : etype) (k : ekind).

Definition sym_atom (s : sym) (t : etype) (k : ekind) : pexpr := PE (Some (ASym s)) [] t k.

(* int_expression / real_expression *)
Definition enc_int (z : Z) : pexpr := PE (Some (AInt z)) [] (YTy SInt) KConstant.
Definition enc_real_expr (q : Q) : pexpr := PE (Some (AReal (Qnum q) (Zpos (Qden q)))) [] (YTy SReal) KConstant.

(* num_expression on a uniform numeric constant: int when integral, Fraction otherwise *)
Definition enc_num (q : Q) : pexpr :=
  match Qden q with xH => enc_int (Qnum q) | _ => enc_real_expr q end.

(* _convert_expression_variable / walk_variable_exp *)
Definition enc_var (v : name * ty) : pexpr := sym_atom (SName (fst v)) (YTy (proto_type (snd v))) KVariable.

(* FNode2Protobuf.walk_timing_exp *)
Definition enc_tp_app (tp : timepoint) : pexpr :=
  PE None (sym_atom (STp (tp_kind tp)) YNone KFunctionSymbol ::
           match tp_container tp with
           | Some c => [sym_atom (SName c) YContainer KContainerId]
           | None => []
           end) YTime KFunctionApplication.

Definition enc_timing_exp (t : timing) : pexpr :=
  if (Qnum (tm_delay t) =? 0)%Z then enc_tp_app (tm_tp t)
  else PE None [sym_atom (SOp OPlus) YNone KFunctionSymbol; enc_tp_app (tm_tp t); enc_num (tm_delay t)]
          YTime KFunctionApplication.

(* FNode2Protobuf.walk_* *)
Fixpoint enc_expr (e : expr) : pexpr :=
  match e with
  | EBool b => PE (Some (ABool b)) [] (YTy SBool) KConstant
  | EInt z => enc_int z
  | EReal q => enc_real_expr q
  | EParam n t => sym_atom (SName n) (YTy (proto_type t)) KParameter
  | EVar n t => enc_var (n, t)
  | EObj n t => sym_atom (SName n) (YTy (proto_type t)) KConstant
  | EFluent f t args =>
      PE None (sym_atom (SName f) (YTy (proto_type t)) KFluentSymbol :: map enc_expr args)
         (YTy (proto_type t)) KStateVariable
  | EOp o args =>
      PE None (sym_atom (SOp o) YOperator KFunctionSymbol :: map enc_expr args) YNone KFunctionApplication
  | EQuant q vars body =>
      PE None (sym_atom (SQuant q) YOperator KFunctionSymbol :: map enc_var vars ++ [enc_expr body])
         YNone KFunctionApplication
  | ETiming t => enc_timing_exp t
  | EPresent c =>
      PE None [sym_atom SPresent YNone KFunctionSymbol; sym_atom (SName c) YContainer KContainerId]
         (YTy SBool) KFunctionApplication
  end.

(* [self.convert(m, problem) for m in msgs] : fails as soon as one element fails *)
Definition seq_opt {A B} (f : A -> option B) : list A -> option (list B) :=
  fix go (l : list A) : option (list B) :=
    match l with
    | [] => Some []
    | x :: r => match f x, go r with Some y, Some ys => Some (y :: ys) | _, _ => None end
    end.

(* variables = msg.list[:-1]; quantified_expression = msg.list[-1] *)
Definition split_last_opt {A B C} (fv : A -> option B) (fb : A -> option C) : list A -> option (list B * C) :=
  fix go (l : list A) : option (list B * C) :=
    match l with
    | [] => None
    | x :: r =>
        match r with
        | [] => match fb x with Some b => Some ([], b) | None => None end
        | _ :: _ => match fv x, go r with Some v, Some (vs, b) => Some (v :: vs, b) | _, _ => None end
        end
    end.

Definition atom_name (a : option atom) : option name :=
  match a with Some (ASym (SName n)) => Some n | _ => None end.

Definition is_sym (m : pexpr) (s : sym) (eqb : sym -> sym -> bool) : bool :=
  match m with PE (Some (ASym s')) _ _ _ => eqb s' s | _ => false end.

Definition is_present (m : pexpr) : bool :=
  match m with PE (Some (ASym SPresent)) _ _ _ => true | _ => false end.
Definition is_plus (m : pexpr) : bool :=
  match m with PE (Some (ASym (SOp OPlus))) _ _ _ => true | _ => false end.
Definition is_time (t : etype) : bool := match t with YTime => true | _ => false end.

(* the timepoint part `(QUALIFIER [CONTAINER])` of a timing expression *)
Definition dec_tp_list (tl : list pexpr) : option timepoint :=
  match tl with
  | PE (Some (ASym (STp k))) _ _ _ :: rest =>
      match rest with
      | [] => Some {| tp_kind := k; tp_container := None |}
      | PE (Some (ASym (SName c))) _ _ _ :: _ => Some {| tp_kind := k; tp_container := Some c |}
      | _ => None
      end
  | _ => None
  end.

(* the `msg.type == "up:time"` branch of ProtobufReader._convert_expression *)
Definition dec_timing_exp (l : list pexpr) : option timing :=
  match l with
  | [p; PE _ tl _ _; PE da _ dt _] =>
      if is_plus p then
        match (match dt, da with
               | YTy SInt, Some (AInt z) => Some (Qmake z 1)
               | YTy SReal, Some (AReal n d) => py_fraction n d
               | _, _ => None
               end), dec_tp_list tl with
        | Some dl, Some tp => Some (mk_timing dl tp)
        | _, _ => None
        end
      else None
  | _ => match dec_tp_list l with Some tp => Some (mk_timing (Qmake 0 1) tp) | None => None end
  end.

Section Expr.
  Variable user_type : name -> bool.        (* problem.user_type(n) succeeds *)
  Variable obj_ty : name -> option ty.      (* problem.has_object(n) / problem.object(n).type *)
  Variable fluent_ty : name -> option ty.   (* problem.fluent(n).type, None = UPValueError *)

  (* convert_type_str(msg.type, problem) *)
  Definition dec_etype (t : etype) : option ty :=
    match t with YTy s => convert_type_str user_type s | _ => None end.

  (* self.convert(var, problem).variable() *)
  Definition dec_var (m : pexpr) : option (name * ty) :=
    match m with
    | PE a _ t KVariable =>
        match atom_name a, dec_etype t with Some n, Some vt => Some (n, vt) | _, _ => None end
    | _ => None
    end.

  (* _convert_atom on the FLUENT_SYMBOL of a state variable: an object of that name shadows the fluent *)
  Definition dec_fluent_sym (m : pexpr) : option (name * ty) :=
    match m with
    | PE (Some (ASym (SName f))) _ _ KFluentSymbol =>
        match obj_ty f with
        | Some _ => None
        | None => match fluent_ty f with Some t => Some (f, t) | None => None end
        end
    | _ => None
    end.

  (* ProtobufReader._convert_expression (+ _convert_atom) *)
  Fixpoint dec_expr (m : pexpr) : option expr :=
    match m with
    | PE a l t k =>
        match k with
        | KConstant =>
            match a with
            | Some (AInt z) => Some (EInt z)
            | Some (AReal n d) => match py_fraction n d with Some q => Some (EReal q) | None => None end
            | Some (ABool b) => Some (EBool b)
            | Some (ASym (SName n)) =>
                match obj_ty n with Some ot => Some (EObj n ot) | None => None end
            | _ => None
            end
        | KParameter =>
            match atom_name a, dec_etype t with Some n, Some pt => Some (EParam n pt) | _, _ => None end
        | KVariable =>
            match atom_name a, dec_etype t with Some n, Some vt => Some (EVar n vt) | _, _ => None end
        | KStateVariable =>
            match l with
            | [] => None
            | fs :: rest =>
                match dec_fluent_sym fs, seq_opt dec_expr rest with
                | Some (f, ft), Some args => Some (EFluent f ft args)
                | _, _ => None
                end
            end
        | KFunctionApplication =>
            match l with
            | [] => None
            | hd :: rest =>
                if is_present hd then
                  match rest with
                  | PE (Some (ASym (SName c))) _ _ _ :: _ => Some (EPresent c)
                  | _ => None
                  end
                else if negb (is_time t) then
                  match hd with
                  | PE (Some (ASym (SOp o))) _ _ KFunctionSymbol =>
                      match seq_opt dec_expr rest with Some args => Some (EOp o args) | None => None end
                  | PE (Some (ASym (SQuant q))) _ _ KFunctionSymbol =>
                      match split_last_opt dec_var dec_expr rest with
                      | Some (vs, b) => Some (EQuant q vs b)
                      | None => None
                      end
                  | _ => None
                  end
                else
                  match dec_timing_exp l with Some tm => Some (ETiming tm) | None => None end
            end
        | _ => None
        end
    end.

  (* well-formedness of the Python expression with respect to the problem it lives in *)
  Definition wf_varb (v : name * ty) : bool := wf_tyb user_type (snd v).
  Definition wf_timing_expb (t : timing) : bool := canonQb (tm_delay t).

  Fixpoint wf_exprb (e : expr) : bool :=
    match e with
    | EBool _ | EInt _ => true
    | EReal q => canonQb q
    | EParam _ t | EVar _ t => wf_tyb user_type t
    | EObj n t => match obj_ty n with Some t' => ty_eqb t' t | None => false end
    | EFluent f t args =>
        match obj_ty f with Some _ => false | None => true end
        && match fluent_ty f with Some t' => ty_eqb t' t | None => false end
        && forallb wf_exprb args
    | EOp _ args => forallb wf_exprb args
    | EQuant _ vars body => forallb wf_varb vars && wf_exprb body
    | ETiming t => wf_timing_expb t
    | EPresent _ => true
    end.
End Expr.

(* ------------------------------------------------------------------ durations, effects, metrics *)
(* model.DurationInterval (bounds are expressions) and proto.Interval inside proto.Duration *)
Record dinterval := { di_lower : expr; di_upper : expr; di_lopen : bool; di_ropen : bool }.
Record interval_msg := { im_lopen : bool; im_lower : pexpr; im_ropen : bool; im_upper : pexpr }.

Inductive effkind := Assign | Increase | Decrease.
(* model.Effect *)
Record effect := { ef_kind : effkind; ef_fluent : expr; ef_value : expr; ef_cond : expr; ef_forall : list (name * ty) }.
(* proto.EffectExpression *)
Record effect_msg := { em_kind : N; em_fluent : pexpr; em_value : pexpr; em_cond : pexpr; em_forall : list pexpr }.

(* proto.Effect {effect, occurrence_time} as written for durative actions / proto.TimedEffect;
   proto.Condition {cond, span} *)
Record timed_effect_msg := { te_effect : effect_msg; te_time : option timing_msg }.
Record condition_msg := { cm_cond : pexpr; cm_span : option tinterval_msg }.

(* model.metrics.* ; weights are uniform numeric constants *)
Inductive metric :=
| MActionCosts (costs : list (name * expr)) (default : option expr)
| MSeqPlanLength
| MMakespan
| MMinExpr (e : expr)
| MMaxExpr (e : expr)
| MOversub (goals : list (expr * Q))
| MTemporalOversub (goals : list (tinterval * expr * Q)).

(* proto.Metric *)
Record metric_msg := {
  mm_kind : N;
  mm_expr : option pexpr;
  mm_costs : list (name * pexpr);
  mm_default : option pexpr;
  mm_goals : list (pexpr * real_msg);
  mm_timed_goals : list (pexpr * tinterval_msg * real_msg)
}.

(* proto.EffectExpression.EffectKind values *)
Definition effkind_num (k : effkind) : N := match k with Assign => 0 | Increase => 1 | Decrease => 2 end%N.

(* ProtobufWriter._convert_duration_interval *)
Definition enc_dinterval (i : dinterval) : interval_msg :=
  {| im_lopen := di_lopen i; im_lower := enc_expr (di_lower i);
     im_ropen := di_ropen i; im_upper := enc_expr (di_upper i) |}.

(* ProtobufWriter._convert_effect *)
Definition enc_effect (e : effect) : effect_msg :=
  {| em_kind := effkind_num (ef_kind e); em_fluent := enc_expr (ef_fluent e); em_value := enc_expr (ef_value e);
     em_cond := enc_expr (ef_cond e); em_forall := map enc_var (ef_forall e) |}.

(* ProtobufWriter._convert_timed_effects (one entry) / the TimedEffect of a problem; an instantaneous action
   writes occurrence_time = None *)
Definition enc_timed_effect (ot : option timing) (e : effect) : timed_effect_msg :=
  {| te_effect := enc_effect e; te_time := option_map enc_timing ot |}.

(* ProtobufWriter._convert_timed_conditions (one entry); an instantaneous action writes span = None *)
Definition enc_condition (span : option tinterval) (c : expr) : condition_msg :=
  {| cm_cond := enc_expr c; cm_span := option_map enc_tinterval span |}.

Definition empty_metric (k : N) : metric_msg :=
  {| mm_kind := k; mm_expr := None; mm_costs := []; mm_default := None; mm_goals := []; mm_timed_goals := [] |}.

(* ProtobufWriter._convert_minimize_action_costs ... _convert_temporal_oversubscription_metric *)
Definition enc_metric (m : metric) : metric_msg :=
  match m with
  | MActionCosts costs default =>
      {| mm_kind := 0; mm_expr := None; mm_costs := map (fun ac => (fst ac, enc_expr (snd ac))) costs;
         mm_default := option_map enc_expr default; mm_goals := []; mm_timed_goals := [] |}
  | MSeqPlanLength => empty_metric 1
  | MMakespan => empty_metric 2
  | MMinExpr e =>
      {| mm_kind := 3; mm_expr := Some (enc_expr e); mm_costs := []; mm_default := None; mm_goals := []; mm_timed_goals := [] |}
  | MMaxExpr e =>
      {| mm_kind := 4; mm_expr := Some (enc_expr e); mm_costs := []; mm_default := None; mm_goals := []; mm_timed_goals := [] |}
  | MOversub goals =>
      {| mm_kind := 5; mm_expr := None; mm_costs := []; mm_default := None;
         mm_goals := map (fun gw => (enc_expr (fst gw), enc_real (snd gw))) goals; mm_timed_goals := [] |}
  | MTemporalOversub goals =>
      {| mm_kind := 6; mm_expr := None; mm_costs := []; mm_default := None; mm_goals := [];
         mm_timed_goals := map (fun igw => (enc_expr (snd (fst igw)), enc_tinterval (fst (fst igw)), enc_real (snd igw))) goals |}
  end%N.

(* `self.convert(x) if msg.HasField(..) else None` *)
Definition dec_optional {A B} (f : A -> option B) (x : option A) : option (option B) :=
  match x with
  | None => Some None
  | Some a => match f a with Some b => Some (Some b) | None => None end
  end.

Section Compound.
  Variable user_type : name -> bool.
  Variable obj_ty : name -> option ty.
  Variable fluent_ty : name -> option ty.
  Variable has_action : name -> bool.       (* problem.action(n) succeeds *)

  Let dexpr := dec_expr user_type obj_ty fluent_ty.
  Let dvar := dec_var user_type.

  (* ProtobufReader._convert_duration *)
  Definition dec_dinterval (m : interval_msg) : option dinterval :=
    match dexpr (im_lower m), dexpr (im_upper m) with
    | Some l, Some u => Some {| di_lower := l; di_upper := u; di_lopen := im_lopen m; di_ropen := im_ropen m |}
    | _, _ => None
    end.

  (* ProtobufReader._convert_effect : every kind value other than INCREASE / DECREASE is read as ASSIGN *)
  Definition dec_effkind (k : N) : effkind :=
    match k with 1%N => Increase | 2%N => Decrease | _ => Assign end.

  Definition dec_effect (m : effect_msg) : option effect :=
    match dexpr (em_fluent m), dexpr (em_value m), dexpr (em_cond m), seq_opt dvar (em_forall m) with
    | Some f, Some v, Some c, Some fa =>
        Some {| ef_kind := dec_effkind (em_kind m); ef_fluent := f; ef_value := v; ef_cond := c; ef_forall := fa |}
    | _, _, _, _ => None
    end.

  (* the (effect, occurrence time) pairs read by ProtobufReader._convert_action / _convert_problem *)
  Definition dec_timed_effect (m : timed_effect_msg) : option (option timing * effect) :=
    match dec_effect (te_effect m), dec_optional dec_timing (te_time m) with
    | Some e, Some ot => Some (ot, e)
    | _, _ => None
    end.

  (* the (condition, span) pairs read by ProtobufReader._convert_action *)
  Definition dec_condition (m : condition_msg) : option (option tinterval * expr) :=
    match dexpr (cm_cond m), dec_optional dec_tinterval (cm_span m) with
    | Some c, Some sp => Some (sp, c)
    | _, _ => None
    end.

  Definition dec_cost (ac : name * pexpr) : option (name * expr) :=
    if has_action (fst ac) then match dexpr (snd ac) with Some e => Some (fst ac, e) | None => None end else None.

  (* weights go through uniform_numeric_constant in the metric constructors *)
  Definition dec_goal (gw : pexpr * real_msg) : option (expr * Q) :=
    match dexpr (fst gw), dec_real (snd gw) with Some g, Some w => Some (g, Qred w) | _, _ => None end.

  Definition dec_timed_goal (igw : pexpr * tinterval_msg * real_msg) : option (tinterval * expr * Q) :=
    match dec_tinterval (snd (fst igw)), dexpr (fst (fst igw)), dec_real (snd igw) with
    | Some i, Some g, Some w => Some (i, g, Qred w)
    | _, _, _ => None
    end.

  (* ProtobufReader._convert_metric *)
  Definition dec_metric (m : metric_msg) : option metric :=
    match mm_kind m with
    | 0%N => match seq_opt dec_cost (mm_costs m), dec_optional dexpr (mm_default m) with
             | Some cs, Some d => Some (MActionCosts cs d)
             | _, _ => None
             end
    | 1%N => Some MSeqPlanLength
    | 2%N => Some MMakespan
    | 3%N => match mm_expr m with
             | Some x => match dexpr x with Some e => Some (MMinExpr e) | None => None end
             | None => None
             end
    | 4%N => match mm_expr m with
             | Some x => match dexpr x with Some e => Some (MMaxExpr e) | None => None end
             | None => None
             end
    | 5%N => match seq_opt dec_goal (mm_goals m) with Some gs => Some (MOversub gs) | None => None end
    | 6%N => match seq_opt dec_timed_goal (mm_timed_goals m) with Some gs => Some (MTemporalOversub gs) | None => None end
    | _ => None
    end.

  Let wfe := wf_exprb user_type obj_ty fluent_ty.

  Definition wf_dintervalb (i : dinterval) : bool := wfe (di_lower i) && wfe (di_upper i).
  Definition wf_effectb (e : effect) : bool :=
    wfe (ef_fluent e) && wfe (ef_value e) && wfe (ef_cond e) && forallb (wf_varb user_type) (ef_forall e).
  Definition wf_opt {A} (f : A -> bool) (x : option A) : bool := match x with Some a => f a | None => true end.
  Definition wf_metricb (m : metric) : bool :=
    match m with
    | MActionCosts costs default =>
        forallb (fun ac => has_action (fst ac) && wfe (snd ac)) costs && wf_opt wfe default
    | MSeqPlanLength | MMakespan => true
    | MMinExpr e | MMaxExpr e => wfe e
    | MOversub goals => forallb (fun gw => wfe (fst gw) && canonQb (snd gw)) goals
    | MTemporalOversub goals =>
        forallb (fun igw => wf_tintervalb (fst (fst igw)) && wfe (snd (fst igw)) && canonQb (snd igw)) goals
    end.
End Compound.
