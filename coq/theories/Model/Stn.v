(* Executable model of unified_planning/model/delta_stn.py : DeltaSimpleTemporalNetwork.
   Mirrors: __init__, copy_stn, add, check_stn, get_stn_model, _is_subsumed, _inc_check, distances, __contains__,
   get_constraints.

   Events are numbers.  Bounds and distances are exact rationals (Python int / Fraction); the model does not
   normalise fractions, every comparison and every theorem is up to Qeq (the harness compares with Qeq_bool).
   Python dicts (`_distances`, `_constraints`) are association lists in insertion order.  A missing key is read as
   the value `setdefault` would have created (0, resp. the empty neighbour list): the code never reads a key it has
   not created (a KeyError would show up in the correspondence as an exception).

   ALIASING.  `_constraints` maps an event to the head of a singly linked list of DeltaNeighbors(dst, bound, next).
   `add` only ever allocates a new head whose `next` is the old head; no field of an existing DeltaNeighbors object
   is assigned after construction (the harness re-checks this on the source with `ast`).  `copy_stn` copies the two
   dicts shallowly, so a network and its copies share list TAILS, which are immutable: sharing is unobservable and
   a linked list is modelled by the persistent Coq list of its (dst, bound) cells, head = most recent. *)
From Coq Require Import List ZArith NArith QArith Qabs Bool.
Import ListNotations.

(* ---------------- python dicts keyed by events ---------------- *)
Section Dict.
  Context {V : Type}.
  Fixpoint find (k : N) (m : list (N * V)) : option V :=
    match m with
    | [] => None
    | (k', v) :: m' => if (k =? k')%N then Some v else find k m'
    end.
  (* m[k] = v *)
  Fixpoint set (k : N) (v : V) (m : list (N * V)) : list (N * V) :=
    match m with
    | [] => [(k, v)]
    | (k', v') :: m' => if (k =? k')%N then (k, v) :: m' else (k', v') :: set k v m'
    end.
  (* m.setdefault(k, v) *)
  Definition setdefault (k : N) (v : V) (m : list (N * V)) : list (N * V) :=
    match find k m with Some _ => m | None => m ++ [(k, v)] end.
End Dict.

Definition dist := list (N * Q).                       (* _distances *)
Definition neighbors := list (N * Q).                  (* linked list of (dst, bound) *)
Definition cons_map := list (N * neighbors).           (* _constraints *)

Definition getd (d : dist) (x : N) : Q := match find x d with Some q => q | None => 0 end.
Definition getc (c : cons_map) (x : N) : neighbors := match find x c with Some l => l | None => [] end.

Definition Qlt_bool (a b : Q) : bool := negb (Qle_bool b a).

Record stn := mkstn { s_cons : cons_map; s_dist : dist; s_sat : bool; s_eps : Q }.

(* DeltaSimpleTemporalNetwork(epsilon=eps) *)
Definition empty_stn (eps : Q) : stn := {| s_cons := []; s_dist := []; s_sat := true; s_eps := eps |}.

(* copy_stn: both dicts copied shallowly; see ALIASING above *)
Definition copy_stn (s : stn) : stn :=
  {| s_cons := s_cons s; s_dist := s_dist s; s_sat := s_sat s; s_eps := s_eps s |}.

(* _is_subsumed: the first neighbour of x whose dst is y decides *)
Definition is_subsumed (c : cons_map) (x y : N) (b : Q) : bool :=
  match List.find (fun n => (fst n =? y)%N) (getc c x) with
  | Some n => Qle_bool (snd n) b
  | None => false
  end.

(* the inner `while n is not None` loop of _inc_check for the popped event c.
   Result: (distances, Some queue) when the list was scanned to its end, (distances, None) on `return False`. *)
Fixpoint scan (d : dist) (eps : Q) (y : N) (b : Q) (c : N) (ns : neighbors) (queue : list N)
  : dist * option (list N) :=
  match ns with
  | [] => (d, Some queue)
  | (dst, bound) :: ns' =>
      if Qlt_bool (getd d c + bound + eps) (getd d dst) then
        if (dst =? y)%N && Qle_bool (Qabs (bound - b)) eps then (d, None)
        else scan (set dst (getd d c + bound) d) eps y b c ns' (queue ++ [dst])
      else scan d eps y b c ns' queue
  end.

(* the outer `while queue` loop; python has no bound on the number of iterations, the model has explicit fuel and a
   distinguished out-of-fuel result *)
Inductive outcome :=
| Finished (d : dist) (sat : bool)
| OutOfFuel.

Fixpoint bfs (fuel : nat) (cm : cons_map) (d : dist) (eps : Q) (y : N) (b : Q) (queue : list N) : outcome :=
  match queue with
  | [] => Finished d true
  | c :: q' =>
      match fuel with
      | O => OutOfFuel
      | S f =>
          match scan d eps y b c (getc cm c) q' with
          | (d', None) => Finished d' false
          | (d', Some q'') => bfs f cm d' eps y b q''
          end
      end
  end.

Definition inc_check (fuel : nat) (cm : cons_map) (d : dist) (eps : Q) (x y : N) (b : Q) : outcome :=
  let x_plus_b := getd d x + b in
  if Qlt_bool x_plus_b (getd d y)
  then bfs fuel cm (set y x_plus_b d) eps y b [y]
  else Finished d true.

(* add(x, y, b): the constraint x - y <= b.  None = the model ran out of fuel *)
Definition add (fuel : nat) (s : stn) (x y : N) (b : Q) : option stn :=
  if s_sat s then
    let d1 := setdefault y 0 (setdefault x 0 (s_dist s)) in
    let x_constraints := getc (s_cons s) x in
    let c1 := setdefault y [] (s_cons s) in
    if is_subsumed c1 x y b
    then Some {| s_cons := c1; s_dist := d1; s_sat := true; s_eps := s_eps s |}
    else
      let c2 := set x ((y, b) :: x_constraints) c1 in
      match inc_check fuel c2 d1 (s_eps s) x y b with
      | Finished d2 r => Some {| s_cons := c2; s_dist := d2; s_sat := r; s_eps := s_eps s |}
      | OutOfFuel => None
      end
  else Some s.

(* ---------------- observations ---------------- *)
Definition check_stn (s : stn) : bool := s_sat s.
(* get_stn_model(x) = -1 * _distances[x]; None = KeyError *)
Definition get_stn_model (s : stn) (x : N) : option Q :=
  match find x (s_dist s) with Some q => Some (- q) | None => None end.
Definition distances (s : stn) : dist := s_dist s.
Definition contains (s : stn) (x : N) : bool := match find x (s_dist s) with Some _ => true | None => false end.

Fixpoint dedupe (seen : list N) (ns : neighbors) : list (Q * N) :=
  match ns with
  | [] => []
  | (dst, b) :: r => if existsb (N.eqb dst) seen then dedupe seen r else (b, dst) :: dedupe (dst :: seen) r
  end.
Definition get_constraints (s : stn) : list (N * list (Q * N)) :=
  map (fun kv => (fst kv, dedupe [] (getc (s_cons s) (fst kv)))) (s_dist s).

(* ---------------- histories ---------------- *)
(* one network: a sequence of add calls *)
Definition cstr := (N * N * Q)%type.                   (* (x, y, b) : x - y <= b *)

Fixpoint run_adds (fuel : nat) (s : stn) (adds : list cstr) : option stn :=
  match adds with
  | [] => Some s
  | (x, y, b) :: r => match add fuel s x y b with Some s' => run_adds fuel s' r | None => None end
  end.

(* several networks: a heap of objects, created by the constructor or by copy_stn, mutated by add *)
Inductive op :=
| OpNew (eps : Q)
| OpAdd (i : nat) (x y : N) (b : Q)
| OpCopy (i : nat).

Fixpoint replace_nth {A} (i : nat) (v : A) (l : list A) : list A :=
  match l, i with
  | [], _ => []
  | _ :: r, O => v :: r
  | a :: r, S i' => a :: replace_nth i' v r
  end.

Definition run_op (fuel : nat) (heap : list stn) (o : op) : option (list stn) :=
  match o with
  | OpNew eps => Some (heap ++ [empty_stn eps])
  | OpCopy i => match nth_error heap i with Some s => Some (heap ++ [copy_stn s]) | None => Some heap end
  | OpAdd i x y b =>
      match nth_error heap i with
      | Some s => match add fuel s x y b with Some s' => Some (replace_nth i s' heap) | None => None end
      | None => Some heap
      end
  end.

Fixpoint run_ops (fuel : nat) (heap : list stn) (ops : list op) : option (list stn) :=
  match ops with
  | [] => Some heap
  | o :: r => match run_op fuel heap o with Some h' => run_ops fuel h' r | None => None end
  end.

(* ---------------- specification vocabulary ---------------- *)
Definition satisfies (t : N -> Q) (c : cstr) : Prop :=
  match c with (x, y, b) => t x - t y <= b end.
Definition solution (t : N -> Q) (cs : list cstr) : Prop := forall c, In c cs -> satisfies t c.
Definition solvable (cs : list cstr) : Prop := exists t, solution t cs.
Definition nonneg (t : N -> Q) : Prop := forall x, 0 <= t x.
(* the reported model as a total assignment (events never mentioned are at time 0) *)
Definition model_of (s : stn) (x : N) : Q := - getd (s_dist s) x.

(* the add calls that reached network k of the heap: those of its ancestors before the copy, then its own *)
Fixpoint lineage_from (hist : list (list cstr * Q)) (ops : list op) : list (list cstr * Q) :=
  match ops with
  | [] => hist
  | OpNew eps :: r => lineage_from (hist ++ [([], eps)]) r
  | OpCopy i :: r =>
      match nth_error hist i with
      | Some h => lineage_from (hist ++ [h]) r
      | None => lineage_from hist r
      end
  | OpAdd i x y b :: r =>
      match nth_error hist i with
      | Some (a, e) => lineage_from (replace_nth i (a ++ [(x, y, b)], e) hist) r
      | None => lineage_from hist r
      end
  end.
Definition lineages (ops : list op) : list (list cstr * Q) := lineage_from [] ops.
