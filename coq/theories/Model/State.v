(* Executable model of unified_planning/model/state.py : UPState.
   Mirrors: __init__ (root states store only non-default values), _is_nondefault, _condense_state
   (run by __hash__/__repr__), get_value, make_child (MAX_ANCESTORS = Some n | None), __eq__, __hash__.
   Ground fluent expressions are pairs (fluent symbol, argument tuple id); constants are integers
   (FNode constants are hash-consed, so Python's == on them is identity = equality of the integer code). *)
From Coq Require Import List ZArith NArith Bool Lia.
Import ListNotations.

Definition gf := (N * N)%type.                (* (fluent symbol, ground-argument id) *)
Definition gf_eqb (a b : gf) : bool := (fst a =? fst b)%N && (snd a =? snd b)%N.
Definition dict := list (gf * Z).             (* Python dict: first binding of a key wins; harness sends unique keys *)
Definition defaults := list (N * Z).          (* FluentsSetMixin.fluents_defaults : symbol -> constant *)

Fixpoint lookup (k : gf) (d : dict) : option Z :=
  match d with
  | [] => None
  | (k', v) :: d' => if gf_eqb k k' then Some v else lookup k d'
  end.

Fixpoint lookup_sym (f : N) (D : defaults) : option Z :=
  match D with
  | [] => None
  | (f', v) :: D' => if (f =? f')%N then Some v else lookup_sym f D'
  end.

(* _is_nondefault *)
Definition nondefault (D : defaults) (kv : gf * Z) : bool :=
  match lookup_sym (fst (fst kv)) D with
  | None => true
  | Some d => negb (d =? snd kv)%Z
  end.

Inductive ustate :=
| Root (vs : dict)
| Child (vs : dict) (father : ustate).

Fixpoint ancestors (s : ustate) : nat :=
  match s with Root _ => 0 | Child _ f => S (ancestors f) end.

(* dict.setdefault over a list of bindings: keep the first binding of each key *)
Fixpoint setdefaults (acc : dict) (d : dict) : dict :=
  match d with
  | [] => acc
  | (k, v) :: d' =>
      match lookup k acc with
      | Some _ => setdefaults acc d'
      | None => setdefaults (acc ++ [(k, v)]) d'
      end
  end.

(* the loop `while current_instance is not None: for k,v in ...: complete.setdefault(k, v)` *)
Fixpoint collect (acc : dict) (s : ustate) : dict :=
  match s with
  | Root vs => setdefaults acc vs
  | Child vs f => collect (setdefaults acc vs) f
  end.

(* UPState(values, fluent_set) with _father = None *)
Definition mk_root (D : defaults) (vs : dict) : ustate :=
  Root (filter (nondefault D) (setdefaults [] vs)).

(* _condense_state (called by __hash__ and __repr__; mutates the object in place) *)
Definition condense (D : defaults) (s : ustate) : ustate :=
  match s with
  | Root vs => Root vs
  | Child _ _ => Root (filter (nondefault D) (collect [] s))
  end.

Fixpoint get_chain (s : ustate) (k : gf) : option Z :=
  match s with
  | Root vs => lookup k vs
  | Child vs f => match lookup k vs with Some v => Some v | None => get_chain f k end
  end.

(* get_value: None models UPStateMissingFluentError *)
Definition get_value (D : defaults) (s : ustate) (k : gf) : option Z :=
  match get_chain s k with
  | Some v => Some v
  | None => lookup_sym (fst k) D
  end.

(* make_child; [limit] is type(self).MAX_ANCESTORS *)
Definition must_condense (limit : option nat) (s : ustate) : bool :=
  match limit with
  | None => true
  | Some m => Nat.leb m (ancestors s)
  end.

Definition make_child (D : defaults) (limit : option nat) (s : ustate) (upd : dict) : ustate :=
  if must_condense limit s
  then Root (filter (nondefault D) (collect (setdefaults [] upd) s))
  else Child (setdefaults [] upd) s.

(* the stored values of a condensed state *)
Definition values_of (D : defaults) (s : ustate) : dict :=
  match condense D s with Root vs => vs | Child vs _ => vs end.

(* Python dict equality: same key set, same value per key *)
Definition dict_incl (a b : dict) : bool :=
  forallb (fun kv => match lookup (fst kv) b with Some v => (v =? snd kv)%Z | None => false end) a.
Definition dict_eqb (a b : dict) : bool :=
  Nat.eqb (length a) (length b) && dict_incl a b && dict_incl b a.

Section Hash.
  Variable h : gf * Z -> Z.                  (* Python's hash on a (fluent, value) item: an oracle *)
  Definition state_hash (D : defaults) (s : ustate) : Z :=
    fold_right (fun kv acc => Z.lxor (h kv) acc) 0%Z (values_of D s).
  (* __eq__ : hash(self) == hash(oth) and self._values == oth._values *)
  Definition state_eq (D : defaults) (s t : ustate) : bool :=
    (state_hash D s =? state_hash D t)%Z && dict_eqb (values_of D s) (values_of D t).
End Hash.

(* ---- the abstract specification: a finite map with defaults, updated by the latest binding ---- *)
Definition spec_get (D : defaults) (root : dict) (history : list dict) (k : gf) : option Z :=
  match fold_left (fun acc upd => match lookup k upd with Some v => Some v | None => acc end) history (lookup k root) with
  | Some v => Some v
  | None => lookup_sym (fst k) D
  end.

(* ---- operations used by the correspondence harness: a heap of states built by a branching history ---- *)
Inductive op :=
| OpRoot (vs : dict)                     (* UPState(vs, problem) *)
| OpChild (parent : nat) (upd : dict).   (* states[parent].make_child(upd) *)

Definition run_op (D : defaults) (limit : option nat) (heap : list ustate) (o : op) : list ustate :=
  match o with
  | OpRoot vs => heap ++ [mk_root D vs]
  | OpChild p upd =>
      match nth_error heap p with
      | Some s => heap ++ [make_child D limit s upd]
      | None => heap
      end
  end.

Definition run_ops (D : defaults) (limit : option nat) (ops : list op) : list ustate :=
  fold_left (run_op D limit) ops [].
