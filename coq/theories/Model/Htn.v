(* Executable model of unified_planning/model/htn/ordering.py (after the fix commit "partial_order() of a totally
   ordered task network returns the given precedences") and of its callers in
   unified_planning/model/htn/task_network.py : AbstractTaskNetwork._ordering / partial_order / total_order
   (inherited unchanged by TaskNetwork and by Method).

   Subtask identifiers are numbers.  A temporal constraint (an FNode that contains a timing expression, i.e. an
   element of temporal_constraints()) is abstracted to exactly what `ordering` inspects:
     - is it an LT node (`c.is_lt()`; GT is built as a swapped LT by the expression manager),
     - is each argument a timing expression (`is_timing_exp()`), and if so its Timing: delay, timepoint kind,
       container (None = the enclosing action/method/problem itself). *)
From Coq Require Import List ZArith NArith QArith Bool.
Import ListNotations.

Inductive tpkind := KGlobalStart | KGlobalEnd | KStart | KEnd.        (* TimepointKind *)

Record timing := { t_kind : tpkind; t_cont : option N; t_delay : Q }.  (* Timing(delay, Timepoint(kind, container)) *)

Inductive texp :=
| ETiming (t : timing)        (* is_timing_exp() *)
| EOther.                     (* anything else: a constant, Plus(timing, 1), ... *)

Inductive tcons :=
| CLt (l r : texp)            (* c.is_lt(), arguments c.arg(0), c.arg(1) *)
| COther.                     (* LE, Equals, Not, And, ... *)

Definition is_end (k : tpkind) : bool := match k with KEnd => true | _ => false end.
Definition is_start (k : tpkind) : bool := match k with KStart => true | _ => false end.

(* the body of the `for c in time_constraints` loop of `ordering`; None = `break` *)
Definition prec_of (c : tcons) : option (N * N) :=
  match c with
  | COther => None                                             (* if not c.is_lt(): break *)
  | CLt (ETiming l) (ETiming r) =>
      if negb (Qeq_bool (t_delay l) 0) || negb (Qeq_bool (t_delay r) 0) then None   (* delay != 0 *)
      else if negb (is_end (t_kind l)) || negb (is_start (t_kind r)) then None      (* kind != END / != START *)
      else match t_cont l, t_cont r with
           | Some a, Some b => Some (a, b)
           | _, _ => None                                      (* container is None *)
           end
  | CLt _ _ => None                                            (* not lhs.is_timing_exp() or not rhs.is_timing_exp() *)
  end.

(* the whole loop: precedences collected until the first break *)
Fixpoint take_precs (cs : list tcons) : list (N * N) :=
  match cs with
  | [] => []
  | c :: cs' => match prec_of c with Some p => p :: take_precs cs' | None => [] end
  end.

(* all(tgt != t for (src, tgt) in pending_precedences) *)
Definition no_pred (prec : list (N * N)) (t : N) : bool :=
  forallb (fun p => negb (snd p =? t)%N) prec.

(* _build_total_order: one iteration of the while loop per unit of [n]; called with n = |pending| so the loop runs
   to completion ([build_total_order] below); a python `set` is a duplicate-free list, set.remove is [remove]. *)
Fixpoint build (n : nat) (pending : list N) (prec : list (N * N)) : option (list N) :=
  match pending with
  | [] => Some []                                              (* while len(pending_tasks) > 0 *)
  | _ :: _ =>
      match n with
      | O => None
      | S n' =>
          match filter (no_pred prec) pending with
          | [first] =>
              match build n' (remove N.eq_dec first pending)
                          (filter (fun p => negb (fst p =? first)%N) prec) with
              | Some order => Some (first :: order)
              | None => None
              end
          | _ => None                                          (* len(firsts) != 1 *)
          end
      end
  end.

Definition build_total_order (tasks : list N) (prec : list (N * N)) : option (list N) :=
  let s := nodup N.eq_dec tasks in                             (* set(task_ids) *)
  build (length s) s prec.

Inductive tcres :=
| Temporal                                                     (* TemporalConstraints(time_constraints) *)
| PartialOrder (precs : list (N * N))
| TotalOrder (order : list N) (precs : list (N * N)).          (* isinstance(_, PartialOrder) too *)

Definition ordering (tasks : list N) (cs : list tcons) : tcres :=
  let precedences := take_precs cs in
  if Nat.eqb (length precedences) (length cs)                  (* qualitative *)
  then match build_total_order tasks precedences with
       | Some to => TotalOrder to precedences
       | None => PartialOrder precedences
       end
  else Temporal.

(* AbstractTaskNetwork.partial_order / total_order; [cs] = self.temporal_constraints() *)
Definition partial_order (tasks : list N) (cs : list tcons) : option (list (N * N)) :=
  match ordering tasks cs with
  | PartialOrder p => Some p
  | TotalOrder _ p => Some p
  | Temporal => None
  end.

Definition total_order (tasks : list N) (cs : list tcons) : option (list N) :=
  match ordering tasks cs with
  | TotalOrder o _ => Some o
  | _ => None
  end.

(* ---------------- specification vocabulary ---------------- *)

(* the constraint end(a) < start(b), possibly written with explicit zero delays *)
Definition is_precedence (c : tcons) (a b : N) : Prop :=
  exists dl dr, c = CLt (ETiming {| t_kind := KEnd; t_cont := Some a; t_delay := dl |})
                        (ETiming {| t_kind := KStart; t_cont := Some b; t_delay := dr |})
                /\ dl == 0 /\ dr == 0.

(* cs is, constraint by constraint, the list of precedences precs *)
Definition all_precedences (cs : list tcons) (precs : list (N * N)) : Prop :=
  Forall2 (fun c p => is_precedence c (fst p) (snd p)) cs precs.

Definition not_a_precedence (c : tcons) : Prop := forall a b, ~ is_precedence c a b.

(* a occurs in L strictly before an occurrence of b *)
Fixpoint before (a b : N) (L : list N) : Prop :=
  match L with
  | [] => False
  | x :: T => (x = a /\ In b T) \/ before a b T
  end.

(* L is a linear ordering of all subtasks that respects every precedence *)
Definition linear_extension (tasks : list N) (precs : list (N * N)) (L : list N) : Prop :=
  NoDup L /\ (forall x, In x L <-> In x tasks) /\ (forall a b, In (a, b) precs -> before a b L).

Definition between_subtasks (tasks : list N) (precs : list (N * N)) : Prop :=
  forall a b, In (a, b) precs -> In a tasks /\ In b tasks.

(* ---------------- the callers in task_network.py ----------------
   A constraint of the network either mentions a timing (`_time_checker.any(c)`) or is static;
   temporal_constraints() keeps the former, in insertion order. *)
Inductive ncons :=
| NTemporal (c : tcons)
| NStatic.

Fixpoint temporal_constraints (cs : list ncons) : list tcons :=
  match cs with
  | [] => []
  | NTemporal c :: cs' => c :: temporal_constraints cs'
  | NStatic :: cs' => temporal_constraints cs'
  end.

Definition tn_partial_order (subtasks : list N) (constraints : list ncons) : option (list (N * N)) :=
  partial_order subtasks (temporal_constraints constraints).
Definition tn_total_order (subtasks : list N) (constraints : list ncons) : option (list N) :=
  total_order subtasks (temporal_constraints constraints).
