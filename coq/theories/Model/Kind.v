(* Executable model of unified_planning/model/problem_kind.py (class ProblemKind) and
   unified_planning/model/problem_kind_versioning.py.

   A feature is a number (its index in Gen_Kind.feature_names); a feature set (Python Set[str]) is the bitmask [N]
   whose bit i is set iff feature i is in the set, so set equality is Leibniz equality and everything computes fast
   under vm_compute.  The tables (FEATURES, FEATURES_VERSIONS, upgrade functions, LATEST) are a parameter [T : tables];
   the regenerated instance is Gen_Kind.gen_tables.

   Mirrors: FEATURES_VERSIONS.get(f, (1, None)) -> [added]/[deprecated]; get_valid_features -> [valid];
   upgrade_A_B (rule tables produced by tools/gen_kind.py) -> [apply_upgrade]; equalize_versions -> [equalize];
   ProblemKind.__init__ assertions -> [ctor_ok]; .version -> [version]; __eq__ -> [keq]; __hash__ -> [khash];
   __le__ -> [le] (and [le_mut]: the in-place intersection_update it performs on its operands);
   union/intersection -> [union]/[inter]. *)
From Coq Require Import List NArith Bool ZArith.
Import ListNotations.

Definition fset := N.

(* ---- finite sets of feature numbers as bitmasks ---- *)
Definition mask_of (l : list N) : fset := fold_right (fun i acc => N.setbit acc i) 0%N l.
Definition mem (f : N) (s : fset) : bool := N.testbit s f.
Definition subset (a b : fset) : bool := (N.land a b =? a)%N.        (* a.issubset(b) *)

Fixpoint pos_elements (p : positive) (i : N) : list N :=
  match p with
  | xH => [i]
  | xO p' => pos_elements p' (N.succ i)
  | xI p' => i :: pos_elements p' (N.succ i)
  end.
(* iteration over a Python set (order is irrelevant for every use below: max and sum) *)
Definition elements (s : fset) : list N :=
  match s with N0 => [] | Npos p => pos_elements p 0%N end.

(* ---- tables ---- *)
(* an upgrade function in the shape accepted by tools/gen_kind.py:
     new = old.copy(); for each rule: if all guards in OLD: new.update(adds); new.difference_update(removed) *)
Record urule := { u_guard : list N; u_adds : list N }.
Record upgrade_fn := { u_rules : list urule; u_removed : list N }.

Record tables := {
  t_all : list N;                              (* all_features *)
  t_versions : list (N * (N * option N));      (* FEATURES_VERSIONS *)
  t_latest : N;                                (* LATEST_PROBLEM_KIND_VERSION *)
  t_upgrades : list ((N * N) * upgrade_fn)     (* upgrade_functions_map *)
}.

Inductive res (A : Type) :=
| Ok (x : A)
| KeyErr          (* KeyError: upgrade_functions_map has no entry (v, v+1) *)
| AssertErr.      (* AssertionError raised by ProblemKind.__init__ *)
Arguments Ok {A} x.
Arguments KeyErr {A}.
Arguments AssertErr {A}.

Record kind := { k_feats : fset; k_ver : option N }.     (* _features, _version *)

Fixpoint assoc {B} (f : N) (l : list (N * B)) : option B :=
  match l with
  | [] => None
  | (g, b) :: l' => if (f =? g)%N then Some b else assoc f l'
  end.

Definition apply_upgrade (u : upgrade_fn) (s : fset) : fset :=
  N.ldiff
    (fold_left (fun acc r => if forallb (fun g => mem g s) (u_guard r) then N.lor acc (mask_of (u_adds r)) else acc)
               (u_rules u) s)
    (mask_of (u_removed u)).

Section WithTables.
  Variable T : tables.

  (* FEATURES_VERSIONS.get(f, (1, None)) *)
  Definition fversions (f : N) : N * option N :=
    match assoc f (t_versions T) with Some p => p | None => (1%N, None) end.
  Definition added (f : N) : N := fst (fversions f).
  Definition deprecated (f : N) : option N := snd (fversions f).

  (* get_valid_features(version) *)
  Definition is_valid (v : N) (f : N) : bool :=
    (added f <=? v)%N && match deprecated f with Some d => negb (d <=? v)%N | None => true end.
  Definition valid (v : N) : fset := mask_of (filter (is_valid v) (t_all T)).

  (* ProblemKind.version *)
  Definition computed_version (s : fset) : N :=
    fold_right (fun f acc => N.max acc (added f)) 1%N (elements s).
  Definition version (k : kind) : N :=
    match k_ver k with Some v => v | None => computed_version (k_feats k) end.

  (* the assertions of ProblemKind.__init__ (and of _set) *)
  Definition ctor_ok (s : fset) (ver : option N) : bool :=
    subset s (mask_of (t_all T))
    && match ver with
       | None => true
       | Some v => (0 <? v)%N && forallb (fun f => (added f <=? v)%N) (elements s)
       end.
  Definition wf (k : kind) : bool := ctor_ok (k_feats k) (k_ver k).

  (* the features __eq__ and (since the fix) __hash__ look at *)
  Definition canon (k : kind) : fset := N.land (k_feats k) (valid (version k)).

  (* __eq__ between two ProblemKinds, branch by branch *)
  Definition opt_eqb (a b : option N) : bool :=
    match a, b with Some x, Some y => (x =? y)%N | None, None => true | _, _ => false end.
  Definition keq (a b : kind) : bool :=
    if match k_ver a, k_ver b with None, _ => true | _, None => true | Some x, Some y => (x =? y)%N end
    then if negb (version a =? version b)%N then false
         else (N.land (k_feats a) (valid (version a)) =? N.land (k_feats b) (valid (version a)))%N
    else false.

  Section Hash.
    Variable h : N -> Z.             (* Python's hash of a feature string: an oracle *)
    Definition hash_set (s : fset) : Z := fold_right (fun f acc => (h f + acc)%Z) 0%Z (elements s).
    (* __hash__ (after fix c30308e): sum(map(hash, self._features.intersection(get_valid_features(self.version)))) *)
    Definition khash (k : kind) : Z := hash_set (canon k).
    (* __hash__ before the fix: sum(map(hash, self._features)) *)
    Definition khash_old (k : kind) : Z := hash_set (k_feats k).
  End Hash.

  (* upgrade_functions_map[(v, v + 1)](s) *)
  Fixpoint lookup_upgrade (v : N) (l : list ((N * N) * upgrade_fn)) : option upgrade_fn :=
    match l with
    | [] => None
    | ((a, b), u) :: l' => if (a =? v)%N && (b =? N.succ v)%N then Some u else lookup_upgrade v l'
    end.
  Definition upgrade_step (v : N) (s : fset) : option fset :=
    match lookup_upgrade v (t_upgrades T) with Some u => Some (apply_upgrade u s) | None => None end.

  (* `while v < target: s = upgrade(s); v += 1` : exactly (target - v) iterations *)
  Fixpoint upgrade_loop (n : nat) (s : fset) (v : N) : option fset :=
    match n with
    | O => Some s
    | S n' => match upgrade_step v s with None => None | Some s' => upgrade_loop n' s' (N.succ v) end
    end.
  Definition upgrade_to (s : fset) (v target : N) : option fset := upgrade_loop (N.to_nat (target - v)) s v.

  (* equalize_versions *)
  Definition equalize (f1 f2 : fset) (v1 v2 : N) : option (fset * fset * N) :=
    match upgrade_to f1 v1 v2, upgrade_to f2 v2 v1 with
    | Some a, Some b => Some (a, b, N.max v1 v2)
    | _, _ => None
    end.

  (* __le__ *)
  Definition le (a b : kind) : res bool :=
    match equalize (k_feats a) (k_feats b) (version a) (version b) with
    | None => KeyErr
    | Some (fa, fb, v) => let vv := valid v in Ok (subset (N.land fa vv) (N.land fb vv))
    end.

  (* __le__ also mutates: equalize_versions returns the operand's own set object when no upgrade step ran on it
     (every upgrade function returns a copy), and intersection_update then strips it in place.
     Result: (answer, self._features afterwards, oth._features afterwards). *)
  Definition le_mut (a b : kind) : res (bool * fset * fset) :=
    match equalize (k_feats a) (k_feats b) (version a) (version b) with
    | None => KeyErr
    | Some (fa, fb, v) =>
        let vv := valid v in
        let fa' := N.land fa vv in
        let fb' := N.land fb vv in
        Ok (subset fa' fb',
            (if (version a <? version b)%N then k_feats a else fa'),
            (if (version b <? version a)%N then k_feats b else fb'))
    end.

  (* ProblemKind(features, version=version) at the end of union / intersection *)
  Definition construct (s : fset) (v : N) : res kind :=
    if ctor_ok s (Some v) then Ok {| k_feats := s; k_ver := Some v |} else AssertErr.

  Definition union (a b : kind) : res kind :=
    match equalize (k_feats a) (k_feats b) (version a) (version b) with
    | None => KeyErr
    | Some (fa, fb, v) => construct (N.lor fa fb) v
    end.

  Definition inter (a b : kind) : res kind :=
    match equalize (k_feats a) (k_feats b) (version a) (version b) with
    | None => KeyErr
    | Some (fa, fb, v) => construct (N.land fa fb) v
    end.

  (* the kind obtained by upgrading [a] to version [w] (what comparisons do to the older operand) *)
  Definition upgraded (a : kind) (w : N) : option kind :=
    match upgrade_to (k_feats a) (version a) w with
    | Some s => Some {| k_feats := s; k_ver := Some w |}
    | None => None
    end.

  (* ---- decidable sanity conditions on the tables, used as hypotheses of the cross-version theorems ---- *)
  Definition rule_ok (v : N) (r : urule) : bool :=
    forallb (fun g => is_valid v g) (u_guard r)                                   (* guards look only at valid features *)
    && forallb (fun f => (added f <=? N.succ v)%N && existsb (N.eqb f) (t_all T)) (u_adds r).  (* adds exist at v+1 *)

  Fixpoint range_from (v : N) (n : nat) : list N :=
    match n with O => [] | S n' => v :: range_from (N.succ v) n' end.

  Definition tables_ok : bool :=
    (1 <=? t_latest T)%N
    (* every feature is added at a version in 1..LATEST and deprecated strictly later *)
    && forallb (fun f => (1 <=? added f)%N && (added f <=? t_latest T)%N
                      && match deprecated f with Some d => (added f <? d)%N | None => true end) (t_all T)
    (* there is an upgrade function for every step 1 -> 2 -> ... -> LATEST, and each one is well formed *)
    && forallb (fun v => match lookup_upgrade v (t_upgrades T) with
                         | Some u => forallb (rule_ok v) (u_rules u)
                         | None => false
                         end) (range_from 1%N (N.to_nat (t_latest T - 1))).
End WithTables.
