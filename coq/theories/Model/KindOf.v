(* C10 — Problem kind reports every feature the problem uses.

   Three things, definitions only:

   1. [problem_desc]: a syntactic description of a classical / numeric / temporal `Problem` rich enough for the kind:
      fluents with value and parameter types (bounds as flags), objects' types, instantaneous and durative actions
      (duration bounds, timed conditions / effects, continuous effects, simulated effects), events, processes, timed
      effects and goals, goals, trajectory constraints, quality metrics, initial-value bookkeeping.  Expressions are the
      shared [expr].  What the kind computation obtains from OTHER components is carried as observed input next to
      the expression it belongs to:  the TypeChecker's class of a value / duration bound / cost ([ef_vcls], [ef_tcls],
      [de_int], cost class), LinearChecker.get_fluents(e)[0] ([ce_lin]) and the fluent expressions of
      Simplifier.simplify(value) of a continuous effect ([ef_rhs]).

   2. [spec_features]: the INDEPENDENT syntactic extractor, written from the table "Problem Kinds" of
      docs/problem_representation.rst (and the docstring table of model/problem_kind.py): one clause per feature of
      C10's list.  It never looks at the observed inputs [ce_lin] / [ef_rhs], it classifies assignments by the
      DECLARED type of the target fluent, and it finds operators / fluents with the Boolean search [mentions].

   3. [kind_model]: mirror of unified_planning/model/problem.py : Problem._kind_factory / .kind and class _KindFactory
      (__init__, update_problem_kind_metric/_fluent/_type/_effect/_expression/_action/_process/_event/_initial_state,
      update_action_parameter/_duration/_timed_condition/_timed_effect/_timed_continuous_effect, finalize) and of
      Problem._get_static_and_unused_fluents, FreeVarsExtractor ([fluents_of], [fexps_of]), OperatorsExtractor ([ops_of]).
      ProblemKind is a set that only grows except for three `unset` calls (SIMPLE_NUMERIC_PLANNING, CONTINUOUS_TIME in
      finalize), so the model collects every `set_*` call in a list ([raw]) and the unset triggers in a flag
      ([snp_unset]); [finalize] applies the end-of-computation rules.  Features are the numbers of Gen_Kind. *)
From Coq Require Import List ZArith NArith Bool.
Import ListNotations.
Require Import UPV.Core.Expr UPV.Model.Kind UPV.Gen.Gen_Kind.

Definition feature := N.

(* ------------------------------------------------------------------------------------------------ description *)
(* types: numeric bounds as presence flags (the kind only tests `is None`); a user type carries `father is not None` *)
Inductive ty := TBool | TInt (lo hi : bool) | TReal (lo hi : bool) | TUser (t : N) (has_father : bool).

Inductive vclass := CBool | CInt | CReal | CUser.      (* is_bool_type / is_int_type / is_real_type / is_user_type *)
Definition class_of (t : ty) : vclass :=
  match t with TBool => CBool | TInt _ _ => CInt | TReal _ _ => CReal | TUser _ _ => CUser end.
Definition cnum (c : vclass) : bool := match c with CInt | CReal => true | _ => false end.
(* numeric types are mutually compatible (an int value may be assigned to a real fluent); otherwise the class is kept *)
Definition compat (a b : vclass) : bool :=
  match a, b with
  | CBool, CBool | CUser, CUser => true
  | (CInt | CReal), (CInt | CReal) => true
  | _, _ => false
  end.

Record cexpr := { ce : expr; ce_lin : bool }.             (* expression + LinearChecker verdict (observed) *)
Record dexpr := { de : expr; de_cls : vclass }.           (* duration bound / action cost + its type class (observed) *)

Inductive ekind := KAssign | KInc | KDec | KCInc | KCDec.  (* EffectKind *)

Record eff := {
  ef_fl : N; ef_args : list expr;      (* e.fluent = EFluent ef_fl ef_args *)
  ef_val : expr;
  ef_vcls : vclass;                    (* class of e.value.type (observed) *)
  ef_tcls : vclass;                    (* class of e.fluent.type (observed) *)
  ef_cond : cexpr;                     (* EBool true = unconditional *)
  ef_kind : ekind;
  ef_forall : list (N * ty);
  ef_rhs : list expr                   (* fluent expressions of simplify(e.value) (observed; read for continuous effects only) *)
}.

(* Timing: is_from_end (END / GLOBAL_END) or is_from_start (START / GLOBAL_START), and the SIGN of the delay
   (the kind compares the delay with 0 only) *)
Record tm := { tm_end : bool; tm_sgn : Z }.
Definition interval := (tm * tm)%type.

Record iaction := {        (* InstantaneousAction (also: SensingAction, Event) *)
  ia_params : list ty;
  ia_pre : list cexpr;
  ia_effs : list eff;
  ia_sim : option (list N);            (* simulated_effect.fluents (fluent symbols) *)
  ia_sensing : bool;                   (* isinstance(action, SensingAction) *)
  ia_motion : bool                     (* MotionConstraintsSetMixin with len(motion_constraints) > 0 *)
}.
Record daction := {        (* DurativeAction *)
  da_params : list ty;
  da_lo : dexpr; da_hi : dexpr;
  da_conds : list (interval * cexpr);
  da_effs : list (tm * eff);
  da_ceffs : list (interval * eff);
  da_sims : list (list N);             (* fluent symbols of each simulated effect *)
  da_motion : bool                     (* DurativeMotionAction with motion constraints *)
}.
Inductive action := AInst (a : iaction) | ADur (a : daction).

Record process := { pr_params : list ty; pr_pre : list cexpr; pr_effs : list eff }.

Inductive metric :=
| MFinalMin (e : cexpr) | MFinalMax (e : cexpr)
| MCosts (costs : list (cexpr * vclass))      (* costs.values() followed by the default when not None *)
| MMakespan | MLength
| MOversub (goals : list cexpr) (gain_is_int : list bool)
| MTOversub (goals : list cexpr) (gain_is_int : list bool).

Record fdecl := {
  fd_id : N; fd_ty : ty; fd_sig : list ty;
  fd_default : bool;          (* fluent in fluents_defaults *)
  fd_inits : N;               (* number of explicit initial values of this fluent *)
  fd_size : N;                (* number of its state variables (product of the parameters' domain sizes) *)
  fd_missing : N              (* number of its state variables WITHOUT explicit initial value (counted by the harness) *)
}.

Record problem_desc := {
  p_fluents : list fdecl;
  p_objtys : list ty;                          (* type of every object of all_objects *)
  p_actions : list action;
  p_events : list iaction;
  p_processes : list process;
  p_teffs : list (tm * list eff);              (* _timed_effects.items() *)
  p_tgoals : list (interval * list cexpr);     (* _timed_goals.items() *)
  p_goals : list cexpr;
  p_traj : list cexpr;
  p_metrics : list metric;
  p_discrete : bool;                           (* discrete_time *)
  p_selfoverlap : bool                         (* self_overlapping *)
}.

(* ------------------------------------------------------------------------------------------ helpers on expressions *)
Definition nonempty {A} (l : list A) : bool := match l with [] => false | _ => true end.
Definition clause (f : feature) (b : bool) : list feature := if b then [f] else [].

(* Boolean search for a sub-expression satisfying p (every argument position, fluent arguments included) *)
Fixpoint mentions (p : expr -> bool) (e : expr) : bool :=
  let fix any (l : list expr) : bool := match l with [] => false | x :: l' => mentions p x || any l' end in
  p e ||
  match e with
  | EBool _ | EInt _ | EReal _ | EObj _ | EParam _ | EVar _ _ => false
  | EFluent _ l | EIFun _ l | EAnd l | EOr l | EPlus l | ETimes l => any l
  | ENot a | EAlways a | ESometime a | EAtMostOnce a | EExists _ a | EForall _ a => mentions p a
  | EImplies a b | EIff a b | EMinus a b | EDiv a b | ELe a b | ELt a b | EEquals a b
  | ESometimeBefore a b | ESometimeAfter a b => mentions p a || mentions p b
  end.

Definition is_not (e : expr) := match e with ENot _ => true | _ => false end.
Definition is_or_implies (e : expr) := match e with EOr _ | EImplies _ _ => true | _ => false end.
Definition is_equals (e : expr) := match e with EEquals _ _ => true | _ => false end.
Definition is_exists (e : expr) := match e with EExists _ _ => true | _ => false end.
Definition is_forall (e : expr) := match e with EForall _ _ => true | _ => false end.
Definition is_ifun (e : expr) := match e with EIFun _ _ => true | _ => false end.
Definition is_fluent_sym (f : N) (e : expr) := match e with EFluent g _ => (f =? g)%N | _ => false end.
Definition is_any_fluent (e : expr) := match e with EFluent _ _ => true | _ => false end.

(* OperatorKind numbers (own numbering; only equality of tags matters) *)
Definition tag (e : expr) : N :=
  match e with
  | EBool _ => 0 | EInt _ => 1 | EReal _ => 2 | EObj _ => 3 | EParam _ => 4 | EVar _ _ => 5 | EFluent _ _ => 6
  | EIFun _ _ => 7 | EAnd _ => 8 | EOr _ => 9 | ENot _ => 10 | EImplies _ _ => 11 | EIff _ _ => 12 | EExists _ _ => 13
  | EForall _ _ => 14 | EPlus _ => 15 | EMinus _ _ => 16 | ETimes _ => 17 | EDiv _ _ => 18 | ELe _ _ => 19 | ELt _ _ => 20
  | EEquals _ _ => 21 | EAlways _ => 22 | ESometime _ => 23 | ESometimeBefore _ _ => 24 | ESometimeAfter _ _ => 25
  | EAtMostOnce _ => 26
  end%N.
Definition op_IFUN : N := 7.  Definition op_OR : N := 9.  Definition op_NOT : N := 10.  Definition op_IMPLIES : N := 11.
Definition op_EXISTS : N := 13.  Definition op_FORALL : N := 14.  Definition op_EQUALS : N := 21.

(* OperatorsExtractor.get: the node types of all sub-expressions (as a list; used as a set) *)
Fixpoint ops_of (e : expr) : list N :=
  let fix go (l : list expr) : list N := match l with [] => [] | x :: l' => ops_of x ++ go l' end in
  tag e ::
  match e with
  | EBool _ | EInt _ | EReal _ | EObj _ | EParam _ | EVar _ _ => []
  | EFluent _ l | EIFun _ l | EAnd l | EOr l | EPlus l | ETimes l => go l
  | ENot a | EAlways a | ESometime a | EAtMostOnce a | EExists _ a | EForall _ a => ops_of a
  | EImplies a b | EIff a b | EMinus a b | EDiv a b | ELe a b | ELt a b | EEquals a b
  | ESometimeBefore a b | ESometimeAfter a b => ops_of a ++ ops_of b
  end.

(* FreeVarsExtractor.get: all fluent expressions (nested ones included) *)
Fixpoint fexps_of (e : expr) : list expr :=
  let fix go (l : list expr) : list expr := match l with [] => [] | x :: l' => fexps_of x ++ go l' end in
  match e with
  | EBool _ | EInt _ | EReal _ | EObj _ | EParam _ | EVar _ _ => []
  | EFluent _ l => go l ++ [e]
  | EIFun _ l | EAnd l | EOr l | EPlus l | ETimes l => go l
  | ENot a | EAlways a | ESometime a | EAtMostOnce a | EExists _ a | EForall _ a => fexps_of a
  | EImplies a b | EIff a b | EMinus a b | EDiv a b | ELe a b | ELt a b | EEquals a b
  | ESometimeBefore a b | ESometimeAfter a b => fexps_of a ++ fexps_of b
  end.
Definition fsym (e : expr) : N := match e with EFluent f _ => f | _ => 0%N end.
(* { f.fluent() for f in fve.get(e) } *)
Definition fluents_of (e : expr) : list N := map fsym (fexps_of e).

Definition is_num_const (e : expr) : bool := match e with EInt _ | EReal _ => true | _ => false end.     (* is_int_constant or is_real_constant *)
Definition is_constant (e : expr) : bool := match e with EBool _ | EInt _ | EReal _ | EObj _ => true | _ => false end.
Definition is_conditional (e : eff) : bool := negb (is_true (ce (ef_cond e))).
Definition target (e : eff) : expr := EFluent (ef_fl e) (ef_args e).

(* ============================================================================================ SPECIFICATION *)
Module Spec.

(* ---- positions ---- *)
Definition action_params (a : action) : list ty := match a with AInst i => ia_params i | ADur d => da_params d end.
Definition action_effects (a : action) : list eff :=
  match a with AInst i => ia_effs i | ADur d => map snd (da_effs d) ++ map snd (da_ceffs d) end.
Definition action_conditions (a : action) : list expr :=
  match a with AInst i => map ce (ia_pre i) | ADur d => map (fun x => ce (snd x)) (da_conds d) end.
Definition metric_goals (m : metric) : list expr :=
  match m with MOversub g _ | MTOversub g _ => map ce g | _ => [] end.
Definition metric_costs (m : metric) : list (cexpr * vclass) := match m with MCosts c => c | _ => [] end.
Definition metric_finals (m : metric) : list expr :=
  match m with MFinalMin e | MFinalMax e => [ce e] | _ => [] end.

(* every effect of the problem, wherever it is attached *)
Definition all_effects (P : problem_desc) : list eff :=
  flat_map action_effects (p_actions P) ++ flat_map ia_effs (p_events P) ++ flat_map pr_effs (p_processes P)
  ++ flat_map snd (p_teffs P).

(* the continuous effects: those of durative actions (continuous_effects) and the effects of processes *)
Definition continuous_effects (P : problem_desc) : list eff :=
  flat_map (fun a => match a with ADur d => map snd (da_ceffs d) | AInst _ => [] end) (p_actions P)
  ++ flat_map pr_effs (p_processes P).

(* every condition of the problem: preconditions of actions / events / processes, durative conditions, effect
   conditions, goals, timed goals, trajectory constraints, (temporal) oversubscription goals *)
Definition conditions (P : problem_desc) : list expr :=
  flat_map action_conditions (p_actions P)
  ++ flat_map (fun a => map ce (ia_pre a)) (p_events P)
  ++ flat_map (fun a => map ce (pr_pre a)) (p_processes P)
  ++ map (fun e => ce (ef_cond e)) (all_effects P)
  ++ map ce (p_goals P)
  ++ flat_map (fun x => map ce (snd x)) (p_tgoals P)
  ++ map ce (p_traj P)
  ++ flat_map metric_goals (p_metrics P).

Definition durations (P : problem_desc) : list dexpr :=
  flat_map (fun a => match a with ADur d => [da_lo d; da_hi d] | _ => [] end) (p_actions P).
Definition costs (P : problem_desc) : list (cexpr * vclass) := flat_map metric_costs (p_metrics P).

(* user-defined types "in the problem": objects, fluent values and parameters, action / event / process parameters,
   variables of forall effects *)
Definition used_types (P : problem_desc) : list ty :=
  p_objtys P
  ++ flat_map (fun fd => fd_ty fd :: fd_sig fd) (p_fluents P)
  ++ flat_map action_params (p_actions P) ++ flat_map ia_params (p_events P) ++ flat_map pr_params (p_processes P)
  ++ flat_map (fun e => map snd (ef_forall e)) (all_effects P).
Definition is_user (t : ty) := match t with TUser _ _ => true | _ => false end.
Definition has_father (t : ty) := match t with TUser _ hf => hf | _ => false end.

(* "static fluents (that may never change)": no effect (nor simulated effect) of the problem writes them *)
Definition sim_fluents (P : problem_desc) : list N :=
  flat_map (fun a => match a with AInst i => match ia_sim i with Some l => l | None => [] end
                                | ADur d => concat (da_sims d) end) (p_actions P).
Definition writes (P : problem_desc) (f : N) : bool :=
  existsb (fun e => (ef_fl e =? f)%N) (all_effects P) || memN f (sim_fluents P).
Definition static (P : problem_desc) (f : N) : bool := negb (writes P f).

Definition declared_ty (P : problem_desc) (f : N) : option ty :=
  match find (fun fd => (fd_id fd =? f)%N) (p_fluents P) with Some fd => Some (fd_ty fd) | None => None end.

(* an assignment-like effect (assign / increase / decrease) whose target is DECLARED with a type of class c and whose
   value mentions a fluent that is / is not static *)
Definition is_assignment_like (e : eff) : bool :=
  match ef_kind e with KAssign | KInc | KDec => true | _ => false end.
Definition target_class_is (P : problem_desc) (c : vclass -> bool) (e : eff) : bool :=
  match declared_ty P (ef_fl e) with Some t => c (class_of t) | None => false end.
Definition assigns_from (P : problem_desc) (c : vclass -> bool) (want_static : bool) : bool :=
  existsb (fun e => is_assignment_like e && target_class_is P c e &&
                    mentions (fun x => is_any_fluent x && Bool.eqb (static P (fsym x)) want_static) (ef_val e))
          (all_effects P).
Definition cbool (c : vclass) := match c with CBool => true | _ => false end.
Definition cuser (c : vclass) := match c with CUser => true | _ => false end.

Definition mentions_fluent_static (P : problem_desc) (want_static : bool) (e : expr) : bool :=
  mentions (fun x => is_any_fluent x && Bool.eqb (static P (fsym x)) want_static) e.

(* a numeric fluent "counts" for INT_FLUENTS / REAL_FLUENTS unless its ONLY uses are durations and action costs
   (those are reported by EXPRESSION_DURATION / ACTIONS_COST_KIND; unified_planning/test/test_model.py
   test_duration_only_fluent_still_excluded_from_fluents_type, test_cost_only_fluent_excluded_from_fluents_type,
   test_fully_unused_numeric_fluent_sets_fluents_type).  State positions: conditions, effects (target, value),
   final-value metric expressions; a simulated effect reads every fluent. *)
Definition has_sim (P : problem_desc) : bool :=
  existsb (fun a => match a with AInst i => match ia_sim i with Some _ => true | None => false end
                               | ADur d => nonempty (da_sims d) end) (p_actions P).
Definition state_exprs (P : problem_desc) : list expr :=
  conditions P ++ flat_map (fun e => [target e; ef_val e]) (all_effects P) ++ flat_map metric_finals (p_metrics P).
Definition occurs_state (P : problem_desc) (f : N) : bool :=
  has_sim P || existsb (mentions (is_fluent_sym f)) (state_exprs P).
Definition occurs_dur_or_cost (P : problem_desc) (f : N) : bool :=
  existsb (fun d => mentions (is_fluent_sym f) (de d)) (durations P)
  || existsb (fun c => mentions (is_fluent_sym f) (ce (fst c))) (costs P).
Definition counts (P : problem_desc) (f : N) : bool := occurs_state P f || negb (occurs_dur_or_cost P f).

Definition num_bounded (t : ty) : bool :=
  match t with TInt lo hi | TReal lo hi => lo || hi | _ => false end.
Definition is_int (t : ty) := match t with TInt _ _ => true | _ => false end.
Definition is_real (t : ty) := match t with TReal _ _ => true | _ => false end.
Definition is_bool (t : ty) := match t with TBool => true | _ => false end.
Definition is_num (t : ty) := is_int t || is_real t.

Definition some_cond (P : problem_desc) (p : expr -> bool) : bool := existsb (mentions p) (conditions P).
Definition some_effect (P : problem_desc) (p : eff -> bool) : bool := existsb p (all_effects P).
Definition some_metric (P : problem_desc) (p : metric -> bool) : bool := existsb p (p_metrics P).
Definition some_aparam (P : problem_desc) (p : ty -> bool) : bool := existsb p (flat_map action_params (p_actions P)).
Definition some_fparam (P : problem_desc) (p : ty -> bool) : bool := existsb p (flat_map fd_sig (p_fluents P)).
Definition undefined (fd : fdecl) : bool := negb (fd_default fd) && (0 <? fd_missing fd)%N.

(* ---- one clause per feature ---- *)
Definition spec_features (P : problem_desc) : list feature :=
  (* typing *)
     clause f_FLAT_TYPING (existsb is_user (used_types P) && negb (existsb has_father (used_types P)))
  ++ clause f_HIERARCHICAL_TYPING (existsb has_father (used_types P))
  (* fluent types *)
  ++ clause f_INT_FLUENTS (existsb (fun fd => is_int (fd_ty fd) && counts P (fd_id fd)) (p_fluents P))
  ++ clause f_REAL_FLUENTS (existsb (fun fd => is_real (fd_ty fd) && counts P (fd_id fd)) (p_fluents P))
  ++ clause f_OBJECT_FLUENTS (existsb (fun fd => is_user (fd_ty fd)) (p_fluents P))
  (* parameter types *)
  ++ clause f_BOOL_FLUENT_PARAMETERS (some_fparam P is_bool)
  ++ clause f_BOUNDED_INT_FLUENT_PARAMETERS (some_fparam P is_int)
  ++ clause f_BOOL_ACTION_PARAMETERS (some_aparam P is_bool)
  ++ clause f_BOUNDED_INT_ACTION_PARAMETERS (some_aparam P (fun t => match t with TInt true true => true | _ => false end))
  ++ clause f_UNBOUNDED_INT_ACTION_PARAMETERS
       (some_aparam P (fun t => match t with TInt lo hi => negb (lo && hi) | _ => false end))
  ++ clause f_REAL_ACTION_PARAMETERS (some_aparam P is_real)
  (* numeric bounds *)
  ++ clause f_BOUNDED_TYPES (existsb (fun fd => num_bounded (fd_ty fd)) (p_fluents P))
  (* conditions *)
  ++ clause f_NEGATIVE_CONDITIONS (some_cond P is_not)
  ++ clause f_DISJUNCTIVE_CONDITIONS (some_cond P is_or_implies)
  ++ clause f_EQUALITIES (some_cond P is_equals)
  ++ clause f_EXISTENTIAL_CONDITIONS (some_cond P is_exists)
  ++ clause f_UNIVERSAL_CONDITIONS (some_cond P is_forall)
  ++ clause f_INTERPRETED_FUNCTIONS_IN_CONDITIONS (some_cond P is_ifun)
  (* effects *)
  ++ clause f_CONDITIONAL_EFFECTS (some_effect P is_conditional)
  ++ clause f_FORALL_EFFECTS (some_effect P (fun e => nonempty (ef_forall e)))
  ++ clause f_INCREASE_EFFECTS (some_effect P (fun e => match ef_kind e with KInc => true | _ => false end))
  ++ clause f_DECREASE_EFFECTS (some_effect P (fun e => match ef_kind e with KDec => true | _ => false end))
  ++ clause f_INCREASE_CONTINUOUS_EFFECTS
       (existsb (fun e => match ef_kind e with KCInc => true | _ => false end) (continuous_effects P))
  ++ clause f_DECREASE_CONTINUOUS_EFFECTS
       (existsb (fun e => match ef_kind e with KCDec => true | _ => false end) (continuous_effects P))
  (* fluent-dependent assignments *)
  ++ clause f_STATIC_FLUENTS_IN_BOOLEAN_ASSIGNMENTS (assigns_from P cbool true)
  ++ clause f_STATIC_FLUENTS_IN_NUMERIC_ASSIGNMENTS (assigns_from P cnum true)
  ++ clause f_STATIC_FLUENTS_IN_OBJECT_ASSIGNMENTS (assigns_from P cuser true)
  ++ clause f_FLUENTS_IN_BOOLEAN_ASSIGNMENTS (assigns_from P cbool false)
  ++ clause f_FLUENTS_IN_NUMERIC_ASSIGNMENTS (assigns_from P cnum false)
  ++ clause f_FLUENTS_IN_OBJECT_ASSIGNMENTS (assigns_from P cuser false)
  (* durations *)
  ++ clause f_STATIC_FLUENTS_IN_DURATIONS (existsb (fun d => mentions_fluent_static P true (de d)) (durations P))
  ++ clause f_FLUENTS_IN_DURATIONS (existsb (fun d => mentions_fluent_static P false (de d)) (durations P))
  ++ clause f_INTERPRETED_FUNCTIONS_IN_DURATIONS (existsb (fun d => mentions is_ifun (de d)) (durations P))
  ++ clause f_INT_TYPE_DURATIONS (existsb (fun d => match de_cls d with CInt => true | _ => false end) (durations P))
  ++ clause f_REAL_TYPE_DURATIONS (existsb (fun d => match de_cls d with CReal => true | _ => false end) (durations P))
  ++ clause f_DURATION_INEQUALITIES
       (existsb (fun a => match a with ADur d => negb (expr_eqb (de (da_lo d)) (de (da_hi d))) | _ => false end) (p_actions P))
  (* timed effects and goals, natural transitions *)
  ++ clause f_TIMED_EFFECTS (nonempty (p_teffs P))
  ++ clause f_TIMED_GOALS (nonempty (p_tgoals P))
  ++ clause f_PROCESSES (nonempty (p_processes P))
  ++ clause f_EVENTS (nonempty (p_events P))
  (* state invariants (a constraint `Always φ`, what add_state_invariant creates) and other trajectory constraints *)
  ++ clause f_STATE_INVARIANTS (existsb (fun c => match ce c with EAlways _ => true | _ => false end) (p_traj P))
  ++ clause f_TRAJECTORY_CONSTRAINTS (existsb (fun c => match ce c with EAlways _ => false | _ => true end) (p_traj P))
  (* quality metrics *)
  ++ clause f_ACTIONS_COST (some_metric P (fun m => match m with MCosts _ => true | _ => false end))
  ++ clause f_FINAL_VALUE (some_metric P (fun m => match m with MFinalMin _ | MFinalMax _ => true | _ => false end))
  ++ clause f_MAKESPAN (some_metric P (fun m => match m with MMakespan => true | _ => false end))
  ++ clause f_PLAN_LENGTH (some_metric P (fun m => match m with MLength => true | _ => false end))
  ++ clause f_OVERSUBSCRIPTION (some_metric P (fun m => match m with MOversub _ _ => true | _ => false end))
  ++ clause f_TEMPORAL_OVERSUBSCRIPTION (some_metric P (fun m => match m with MTOversub _ _ => true | _ => false end))
  ++ clause f_STATIC_FLUENTS_IN_ACTIONS_COST (existsb (fun c => mentions_fluent_static P true (ce (fst c))) (costs P))
  ++ clause f_FLUENTS_IN_ACTIONS_COST (existsb (fun c => mentions_fluent_static P false (ce (fst c))) (costs P))
  ++ clause f_INT_NUMBERS_IN_ACTIONS_COST (existsb (fun c => match snd c with CInt => true | _ => false end) (costs P))
  ++ clause f_REAL_NUMBERS_IN_ACTIONS_COST (existsb (fun c => match snd c with CReal => true | _ => false end) (costs P))
  ++ clause f_INT_NUMBERS_IN_OVERSUBSCRIPTION
       (some_metric P (fun m => match m with MOversub _ g | MTOversub _ g => existsb (fun b => b) g | _ => false end))
  ++ clause f_REAL_NUMBERS_IN_OVERSUBSCRIPTION
       (some_metric P (fun m => match m with MOversub _ g | MTOversub _ g => existsb negb g | _ => false end))
  (* undefined initial values *)
  ++ clause f_UNDEFINED_INITIAL_NUMERIC (existsb (fun fd => is_num (fd_ty fd) && undefined fd) (p_fluents P))
  ++ clause f_UNDEFINED_INITIAL_SYMBOLIC (existsb (fun fd => negb (is_num (fd_ty fd)) && undefined fd) (p_fluents P)).

End Spec.
Definition spec_features := Spec.spec_features.

(* ================================================================================================== MODEL *)
Module M.

(* ---- Problem._get_static_and_unused_fluents ---- *)
Definition declared (P : problem_desc) (f : N) : bool := memN f (map fd_id (p_fluents P)).

(* static_fluents.discard(...) calls *)
Definition eff_targets (es : list eff) : list N := map ef_fl es.
Definition discarded (P : problem_desc) : list N :=
  flat_map (fun a => match a with
     | AInst i => eff_targets (ia_effs i) ++ match ia_sim i with Some l => l | None => [] end
     | ADur d => eff_targets (map snd (da_effs d)) ++ eff_targets (map snd (da_ceffs d)) ++ concat (da_sims d)
     end) (p_actions P)
  ++ flat_map (fun ev => eff_targets (ia_effs ev)) (p_events P)
  ++ flat_map (fun pr => eff_targets (pr_effs pr)) (p_processes P)
  ++ flat_map (fun te => eff_targets (snd te)) (p_teffs P).
(* f.fluent() in self.static_fluents *)
Definition static (P : problem_desc) (f : N) : bool := declared P f && negb (memN f (discarded P)).

(* remove_used_fluents(e.fluent, e.value, e.condition) *)
Definition eff_used (e : eff) : list N := fluents_of (target e) ++ fluents_of (ef_val e) ++ fluents_of (ce (ef_cond e)).
Definition effs_used (es : list eff) : list N := flat_map eff_used es.
Definition conds_used (cs : list cexpr) : list N := flat_map (fun c => fluents_of (ce c)) cs.
(* the fluents removed from unused_fluents by remove_used_fluents (process preconditions included since repair
   2 of notes/C10.md) *)
Definition used (P : problem_desc) : list N :=
  flat_map (fun a => match a with
     | AInst i => conds_used (ia_pre i) ++ effs_used (ia_effs i)
     | ADur d => conds_used (map snd (da_conds d)) ++ effs_used (map snd (da_effs d)) ++ effs_used (map snd (da_ceffs d))
     end) (p_actions P)
  ++ flat_map (fun ev => conds_used (ia_pre ev) ++ effs_used (ia_effs ev)) (p_events P)
  ++ flat_map (fun pr => conds_used (pr_pre pr) ++ effs_used (pr_effs pr)) (p_processes P)
  ++ flat_map (fun te => effs_used (snd te)) (p_teffs P)
  ++ flat_map (fun tg => conds_used (snd tg)) (p_tgoals P)
  ++ conds_used (p_traj P)
  ++ conds_used (p_goals P)
  ++ flat_map (fun m => match m with
       | MFinalMin e | MFinalMax e => fluents_of (ce e)
       | MOversub g _ | MTOversub g _ => conds_used g
       | _ => [] end) (p_metrics P).
(* unused_fluents.clear() *)
Definition cleared (P : problem_desc) : bool :=
  existsb (fun a => match a with
     | AInst i => match ia_sim i with Some _ => true | None => false end
     | ADur d => nonempty (da_sims d) end) (p_actions P).
Definition unused (P : problem_desc) (f : N) : bool := declared P f && negb (cleared P) && negb (memN f (used P)).
Definition in_durations (P : problem_desc) (f : N) : bool :=
  memN f (flat_map (fun a => match a with ADur d => fluents_of (de (da_lo d)) ++ fluents_of (de (da_hi d)) | _ => [] end)
                   (p_actions P)).
Definition in_costs (P : problem_desc) (f : N) : bool :=
  memN f (flat_map (fun m => match m with MCosts cs => flat_map (fun c => fluents_of (ce (fst c))) cs | _ => [] end)
                   (p_metrics P)).

(* ---- update_problem_kind_type ---- *)
Definition type_feats (t : ty) : list feature :=
  match t with TUser _ hf => f_FLAT_TYPING :: (if hf then [f_HIERARCHICAL_TYPING] else []) | _ => [] end.

(* ---- update_problem_kind_expression: features set, and whether SIMPLE_NUMERIC_PLANNING is unset ---- *)
Definition expr_feats (c : cexpr) : list feature :=
  let ops := ops_of (ce c) in
     clause f_EQUALITIES (memN op_EQUALS ops)
  ++ clause f_NEGATIVE_CONDITIONS (memN op_NOT ops)
  ++ clause f_DISJUNCTIVE_CONDITIONS (memN op_OR ops || memN op_IMPLIES ops)
  ++ clause f_EXISTENTIAL_CONDITIONS (memN op_EXISTS ops)
  ++ clause f_UNIVERSAL_CONDITIONS (memN op_FORALL ops)
  ++ clause f_INTERPRETED_FUNCTIONS_IN_CONDITIONS (memN op_IFUN ops).
Definition expr_unsets (c : cexpr) : bool := memN op_IFUN (ops_of (ce c)) || negb (ce_lin c).

Section WithProblem.
  Variable P : problem_desc.

  (* if any(f.fluent() in static ...): set A;  if any(f.fluent() not in static ...): set B *)
  Definition fl_feats (fs : list N) (fstatic fdyn : feature) : list feature :=
    clause fstatic (existsb (static P) fs) ++ clause fdyn (existsb (fun f => negb (static P f)) fs).

  (* ---- update_problem_kind_effect ---- *)
  Definition effect_feats (e : eff) : list feature :=
    let fv := fluents_of (ef_val e) in
    let ifn := memN op_IFUN (ops_of (ef_val e)) in
    (if is_conditional e then expr_feats (ef_cond e) ++ [f_CONDITIONAL_EFFECTS] else [])
    ++ (if nonempty (ef_forall e) then f_FORALL_EFFECTS :: flat_map (fun v => type_feats (snd v)) (ef_forall e) else [])
    ++ match ef_kind e with
       | KInc =>
           f_INCREASE_EFFECTS :: clause f_INTERPRETED_FUNCTIONS_IN_NUMERIC_ASSIGNMENTS ifn
           ++ (if is_num_const (ef_val e) then []
               else fl_feats fv f_STATIC_FLUENTS_IN_NUMERIC_ASSIGNMENTS f_FLUENTS_IN_NUMERIC_ASSIGNMENTS)
       | KDec =>
           f_DECREASE_EFFECTS :: clause f_INTERPRETED_FUNCTIONS_IN_NUMERIC_ASSIGNMENTS ifn
           ++ (if is_num_const (ef_val e) then []
               else fl_feats fv f_STATIC_FLUENTS_IN_NUMERIC_ASSIGNMENTS f_FLUENTS_IN_NUMERIC_ASSIGNMENTS)
       | KAssign =>
           match ef_vcls e with
           | CInt | CReal =>
               clause f_INTERPRETED_FUNCTIONS_IN_NUMERIC_ASSIGNMENTS ifn
               ++ fl_feats fv f_STATIC_FLUENTS_IN_NUMERIC_ASSIGNMENTS f_FLUENTS_IN_NUMERIC_ASSIGNMENTS
           | CBool =>
               clause f_INTERPRETED_FUNCTIONS_IN_BOOLEAN_ASSIGNMENTS ifn
               ++ fl_feats fv f_STATIC_FLUENTS_IN_BOOLEAN_ASSIGNMENTS f_FLUENTS_IN_BOOLEAN_ASSIGNMENTS
           | CUser =>
               clause f_INTERPRETED_FUNCTIONS_IN_OBJECT_ASSIGNMENTS ifn
               ++ fl_feats fv f_STATIC_FLUENTS_IN_OBJECT_ASSIGNMENTS f_FLUENTS_IN_OBJECT_ASSIGNMENTS
           end
       | KCInc | KCDec => clause f_INTERPRETED_FUNCTIONS_IN_NUMERIC_ASSIGNMENTS ifn
       end.
  (* `e.fluent in self.fluents_to_only_increase / _decrease` is an FNode looked up in a set of Fluent objects: never
     true, so those disjuncts are dropped (checked by the correspondence on SIMPLE_NUMERIC_PLANNING) *)
  Definition effect_unsets (e : eff) : bool :=
    let ifn := memN op_IFUN (ops_of (ef_val e)) in
    (is_conditional e && (expr_unsets (ef_cond e) || cnum (ef_tcls e)))
    || match ef_kind e with
       | KInc | KDec => ifn || negb (is_num_const (ef_val e))
       | KAssign => match ef_vcls e with CInt | CReal => ifn || negb (is_constant (ef_val e)) | _ => false end
       | KCInc | KCDec => true
       end.

  (* ---- update_problem_kind_fluent ---- *)
  Definition fluent_feats (fd : fdecl) : list feature :=
    let t := fd_ty fd in
    let un := unused P (fd_id fd) in
    (if negb un || negb (cnum (class_of t)) then type_feats t else [])
    ++ match t with
       | TInt lo hi | TReal lo hi =>
           clause f_BOUNDED_TYPES (lo || hi)
           ++ (if negb un || (negb (in_durations P (fd_id fd)) && negb (in_costs P (fd_id fd)))
               then [match t with TInt _ _ => f_INT_FLUENTS | _ => f_REAL_FLUENTS end] else [])
       | TUser _ _ => [f_OBJECT_FLUENTS]
       | TBool => []
       end
    ++ flat_map (fun pt => type_feats pt ++ match pt with
                                             | TBool => [f_BOOL_FLUENT_PARAMETERS]
                                             | TInt _ _ => [f_BOUNDED_INT_FLUENT_PARAMETERS]
                                             | _ => [] end) (fd_sig fd).

  (* ---- update_action_parameter ---- *)
  Definition param_feats (pt : ty) : list feature :=
    type_feats pt ++ match pt with
                     | TBool => [f_BOOL_ACTION_PARAMETERS]
                     | TReal _ _ => [f_REAL_ACTION_PARAMETERS]
                     | TInt lo hi => if negb lo || negb hi then [f_UNBOUNDED_INT_ACTION_PARAMETERS]
                                     else [f_BOUNDED_INT_ACTION_PARAMETERS]
                     | TUser _ _ => []
                     end.

  (* ---- update_action_duration ---- *)
  Definition bound_feats (d : dexpr) : list feature :=
    match de_cls d with CInt => [f_INT_TYPE_DURATIONS] | _ => [f_REAL_TYPE_DURATIONS] end.
  Definition duration_feats (lo hi : dexpr) : list feature :=
    bound_feats lo ++ bound_feats hi
    ++ clause f_DURATION_INEQUALITIES (negb (expr_eqb (de lo) (de hi)))
    ++ clause f_INTERPRETED_FUNCTIONS_IN_DURATIONS (memN op_IFUN (ops_of (de lo) ++ ops_of (de hi)))
    ++ fl_feats (fluents_of (de lo) ++ fluents_of (de hi)) f_STATIC_FLUENTS_IN_DURATIONS f_FLUENTS_IN_DURATIONS.

  (* ---- update_action_timed_condition / _timed_effect / _timed_continuous_effect ---- *)
  Definition tm_feats (t : tm) : list feature :=
    if (negb (tm_end t) && (0 <? tm_sgn t)%Z) || (tm_end t && (tm_sgn t <? 0)%Z)
    then [f_INTERMEDIATE_CONDITIONS_AND_EFFECTS] else [f_EXTERNAL_CONDITIONS_AND_EFFECTS].
  Definition interval_feats (i : interval) : list feature :=
    if negb (tm_sgn (fst i) =? 0)%Z || negb (tm_sgn (snd i) =? 0)%Z then tm_feats (fst i) ++ tm_feats (snd i) else [].
  Definition timed_condition_feats (x : interval * cexpr) : list feature := interval_feats (fst x) ++ expr_feats (snd x).
  Definition timed_effect_feats (x : tm * eff) : list feature :=
    (if negb (tm_sgn (fst x) =? 0)%Z then tm_feats (fst x) else []) ++ effect_feats (snd x).
  Definition timed_ceffect_feats (x : interval * eff) : list feature := interval_feats (fst x) ++ effect_feats (snd x).

  (* the continuous-effect loop shared by durative actions and processes *)
  Definition continuous_feats (es : list eff) : list feature :=
    flat_map (fun e => match ef_kind e with
                       | KCInc => [f_INCREASE_CONTINUOUS_EFFECTS] | KCDec => [f_DECREASE_CONTINUOUS_EFFECTS] | _ => [] end) es
    ++ clause f_NON_LINEAR_CONTINUOUS_EFFECTS
         (existsb (fun e => existsb (expr_eqb (target e)) (flat_map ef_rhs es)) es).

  (* ---- update_problem_kind_action ---- *)
  Definition iaction_feats (a : iaction) : list feature :=
    flat_map param_feats (ia_params a)
    ++ clause f_CONTINGENT (ia_sensing a)
    ++ clause f_TAMP (ia_motion a)
    ++ flat_map expr_feats (ia_pre a)
    ++ flat_map effect_feats (ia_effs a)
    ++ clause f_SIMULATED_EFFECTS (match ia_sim a with Some _ => true | None => false end).
  Definition daction_feats (a : daction) : list feature :=
    flat_map param_feats (da_params a)
    ++ clause f_TAMP (da_motion a)
    ++ duration_feats (da_lo a) (da_hi a)
    ++ flat_map timed_condition_feats (da_conds a)
    ++ flat_map timed_effect_feats (da_effs a)
    ++ flat_map timed_ceffect_feats (da_ceffs a)
    ++ clause f_SIMULATED_EFFECTS (nonempty (da_sims a))
    ++ [f_CONTINUOUS_TIME]
    ++ continuous_feats (map snd (da_ceffs a)).
  Definition action_feats (a : action) : list feature :=
    match a with AInst i => iaction_feats i | ADur d => daction_feats d end.
  Definition action_unsets (a : action) : bool :=
    match a with
    | AInst i => existsb expr_unsets (ia_pre i) || existsb effect_unsets (ia_effs i)
    | ADur d => existsb (fun x => expr_unsets (snd x)) (da_conds d) || existsb (fun x => effect_unsets (snd x)) (da_effs d)
                || existsb (fun x => effect_unsets (snd x)) (da_ceffs d)
    end.

  (* ---- update_problem_kind_process (since repair 1 of notes/C10.md the preconditions go through update_problem_kind_expression)
          and update_problem_kind_event ---- *)
  Definition process_feats (pr : process) : list feature :=
    flat_map param_feats (pr_params pr) ++ flat_map expr_feats (pr_pre pr) ++ continuous_feats (pr_effs pr).
  Definition process_unsets (pr : process) : bool := existsb expr_unsets (pr_pre pr).
  Definition event_feats (ev : iaction) : list feature :=
    flat_map param_feats (ia_params ev) ++ flat_map expr_feats (ia_pre ev) ++ flat_map effect_feats (ia_effs ev)
    ++ clause f_SIMULATED_EFFECTS (match ia_sim ev with Some _ => true | None => false end).
  Definition event_unsets (ev : iaction) : bool :=
    existsb expr_unsets (ia_pre ev) || existsb effect_unsets (ia_effs ev).

  (* ---- update_problem_kind_metric ---- *)
  Definition gains_feats (g : list bool) : list feature :=
    flat_map (fun b : bool => if b then [f_INT_NUMBERS_IN_OVERSUBSCRIPTION] else [f_REAL_NUMBERS_IN_OVERSUBSCRIPTION]) g.
  Definition metric_feats (m : metric) : list feature :=
    match m with
    | MFinalMin e | MFinalMax e => f_FINAL_VALUE :: expr_feats e
    | MCosts cs =>
        f_ACTIONS_COST ::
        flat_map (fun c => expr_feats (fst c)
                   ++ match snd c with CInt => [f_INT_NUMBERS_IN_ACTIONS_COST] | CReal => [f_REAL_NUMBERS_IN_ACTIONS_COST]
                                     | _ => [] end
                   ++ flat_map (fun f => if static P f then [f_STATIC_FLUENTS_IN_ACTIONS_COST]
                                         else [f_FLUENTS_IN_ACTIONS_COST]) (fluents_of (ce (fst c)))) cs
    | MMakespan => [f_MAKESPAN]
    | MLength => [f_PLAN_LENGTH]
    | MOversub g w => f_OVERSUBSCRIPTION :: flat_map expr_feats g ++ gains_feats w
    | MTOversub g w => f_TEMPORAL_OVERSUBSCRIPTION :: flat_map expr_feats g ++ gains_feats w
    end.
  Definition metric_unsets (m : metric) : bool :=
    match m with
    | MFinalMin e | MFinalMax e => expr_unsets e          (* `not is_linear` is the same verdict *)
    | MCosts cs => existsb (fun c => expr_unsets (fst c)) cs
    | MOversub g _ | MTOversub g _ => existsb expr_unsets g
    | _ => false
    end.

  (* ---- update_problem_kind_initial_state ---- *)
  Definition initial_feats (fd : fdecl) : list feature :=
    if fd_default fd then []
    else if negb (fd_size fd =? fd_inits fd)%N
         then [if cnum (class_of (fd_ty fd)) then f_UNDEFINED_INITIAL_NUMERIC else f_UNDEFINED_INITIAL_SYMBOLIC]
         else [].

  (* ---- _KindFactory.__init__ + Problem._kind_factory: every set_* call ---- *)
  Definition raw : list feature :=
    [f_ACTION_BASED]
    ++ flat_map metric_feats (p_metrics P)
    ++ flat_map fluent_feats (p_fluents P)
    ++ flat_map type_feats (p_objtys P)
    ++ flat_map action_feats (p_actions P)
    ++ (if nonempty (p_teffs P) then [f_CONTINUOUS_TIME; f_TIMED_EFFECTS] else [])
    ++ flat_map process_feats (p_processes P)
    ++ flat_map event_feats (p_events P)
    ++ flat_map (fun te => flat_map effect_feats (snd te)) (p_teffs P)
    ++ (if nonempty (p_tgoals P) then [f_TIMED_GOALS; f_CONTINUOUS_TIME] else [])
    ++ flat_map (fun tc => (match ce tc with EAlways _ => f_STATE_INVARIANTS | _ => f_TRAJECTORY_CONSTRAINTS end)
                           :: expr_feats tc) (p_traj P)
    ++ flat_map (fun tg => flat_map expr_feats (snd tg)) (p_tgoals P)
    ++ flat_map expr_feats (p_goals P)
    ++ flat_map initial_feats (p_fluents P)
    ++ clause f_PROCESSES (nonempty (p_processes P))
    ++ clause f_EVENTS (nonempty (p_events P)).

  (* some call of unset_problem_type("SIMPLE_NUMERIC_PLANNING") before finalize *)
  Definition snp_unset : bool :=
    existsb metric_unsets (p_metrics P)
    || existsb action_unsets (p_actions P)
    || existsb process_unsets (p_processes P)
    || existsb event_unsets (p_events P)
    || existsb (fun te => existsb effect_unsets (snd te)) (p_teffs P)
    || existsb expr_unsets (p_traj P)
    || existsb (fun tg => existsb expr_unsets (snd tg)) (p_tgoals P)
    || existsb expr_unsets (p_goals P).

  (* ---- finalize ---- *)
  Definition finalize (fs : list feature) (unset : bool) : list feature :=
    let k1 := if negb (memN f_REAL_FLUENTS fs) && negb (memN f_INT_FLUENTS fs) then fs
              else if unset then f_GENERAL_NUMERIC_PLANNING :: fs
              else f_SIMPLE_NUMERIC_PLANNING :: fs in
    let k2 := if memN f_CONTINUOUS_TIME k1 && p_discrete P
              then f_DISCRETE_TIME :: filter (fun f => negb (f =? f_CONTINUOUS_TIME)%N) k1 else k1 in
    if p_selfoverlap P && (memN f_CONTINUOUS_TIME k2 || memN f_DISCRETE_TIME k2) then f_SELF_OVERLAPPING :: k2 else k2.

  Definition kind_model : list feature := finalize raw snp_unset.
End WithProblem.
End M.
Definition kind_model := M.kind_model.

(* ================================================================================================ well-formedness *)
(* What the theorem assumes of a description (all of it is guaranteed by the library's constructors; [wfb] is
   evaluated on every serialised problem by the check):
   - the observed class of an effect's target is the class of the target's DECLARED type, and the class of the value
     is compatible with it (Effect / add_effect type checks); increase / decrease / continuous effects are numeric;
   - process effects are unconditional, unquantified continuous effects (Process._add_continuous_effect);
   - the fluents read in assigned values, durations and action costs are declared in the problem;
   - explicit initial values: inits + missing = size (every explicit initial value is one state variable). *)
Definition wf_eff (P : problem_desc) (e : eff) : bool :=
  match Spec.declared_ty P (ef_fl e) with
  | Some t =>
      match class_of t, ef_tcls e with
      | CBool, CBool | CInt, CInt | CReal, CReal | CUser, CUser => true | _, _ => false end
      && compat (ef_tcls e) (ef_vcls e)
      && match ef_kind e with KAssign => true | _ => cnum (ef_tcls e) end
      && forallb (M.declared P) (fluents_of (ef_val e))
  | None => false
  end.
Definition wf_process_eff (e : eff) : bool :=
  is_true (ce (ef_cond e)) && negb (nonempty (ef_forall e))
  && match ef_kind e with KCInc | KCDec => true | _ => false end.
Definition wf_fdecl (fd : fdecl) : bool := (fd_inits fd + fd_missing fd =? fd_size fd)%N.
Definition wfb (P : problem_desc) : bool :=
  forallb (wf_eff P) (Spec.all_effects P)
  && forallb (fun pr => forallb wf_process_eff (pr_effs pr)) (p_processes P)
  && forallb (fun d => forallb (M.declared P) (fluents_of (de d))) (Spec.durations P)
  && forallb (fun c => forallb (M.declared P) (fluents_of (ce (fst c)))) (Spec.costs P)
  && forallb wf_fdecl (p_fluents P).
Definition wf (P : problem_desc) : Prop := wfb P = true.
