(* C18, lexical layer of the expression codec: the TEXT the converter emits and the tokenisation the reader applies.
   reader: UPPDDLReader.parse_problem_string first does  text.replace("\t", " ").lower()  ([prep]); the pyparsing grammar
           nested_expr() = Group("(" + ZeroOrMore(Group(Empty() + CharsNotIn("() \n\t\r")) | nested) + ")") with
           domain.ignore(";" + rest_of_line)  ([lex]): white space = blank, newline, tab, carriage return; a ";" where a
           new element could start opens a comment up to the end of the line; an atom is a maximal run of characters
           other than white space and parentheses (so a ";" INSIDE a run belongs to the atom: "(a;b c)" has the atoms
           "a;b" and "c" - checked against the real grammar by the correspondence).
   writer: the f-strings of ConverterToPDDLString.walk_* ([print_text]): single blanks, except
           walk_iff  "(and (imply a b) (imply b a) )"  (blank before the last parenthesis) and
           walk_exists/forall  "(exists (?v - t ...)" + newline + " body)". *)
From Coq Require Import List ZArith NArith QArith Qcanon Bool String Ascii.
Import ListNotations.
Require Import UPV.Core.Expr UPV.Model.PddlExpr.
Local Open Scope string_scope.

Definition nl : ascii := "010"%char.
Definition tab : ascii := "009"%char.
Definition cr : ascii := "013"%char.

Definition is_ws (c : ascii) : bool := Ascii.eqb c " " || Ascii.eqb c nl || Ascii.eqb c tab || Ascii.eqb c cr.
Definition is_delim (c : ascii) : bool := is_ws c || Ascii.eqb c "(" || Ascii.eqb c ")".

(* str.replace("\t", " ").lower() on ASCII text *)
Definition prep_char (c : ascii) : ascii :=
  if Ascii.eqb c tab then " "%char
  else let n := N_of_ascii c in if ((65 <=? n) && (n <=? 90))%N then ascii_of_N (n + 32) else c.
Fixpoint prep (s : string) : string :=
  match s with EmptyString => EmptyString | String c r => String (prep_char c) (prep r) end.

Inductive mode := MWs | MAtom (buf : string) | MComment.

(* one pass over the text.  [top] = elements of the innermost open group read so far (reversed), [st] = the enclosing
   open groups; the outermost frame is virtual: at the end it must hold exactly one element. *)
Fixpoint lex_go (top : list sexp) (st : list (list sexp)) (m : mode) (s : string) {struct s} : option sexp :=
  match s with
  | EmptyString =>
      let top' := match m with MAtom b => Atom b :: top | _ => top end in
      match st, top' with [], [x] => Some x | _, _ => None end
  | String c r =>
      let delim := fun (top : list sexp) =>
        if is_ws c then lex_go top st MWs r
        else if Ascii.eqb c "(" then lex_go [] (top :: st) MWs r
        else match st with
             | f :: st' => lex_go (SList (rev top) :: f) st' MWs r
             | [] => None
             end in
      match m with
      | MComment => if Ascii.eqb c nl then lex_go top st MWs r else lex_go top st MComment r
      | MAtom b => if is_delim c then delim (Atom b :: top) else lex_go top st (MAtom (b ++ String c "")) r
      | MWs => if is_delim c then delim top
               else if Ascii.eqb c ";" then lex_go top st MComment r
               else lex_go top st (MAtom (String c "")) r
      end
  end.

(* the element rule of the grammar ( Group(cnt) | nested ) applied to a whole text; nested_expr itself only accepts a
   parenthesised group: [lex_group] *)
Definition lex (s : string) : option sexp := lex_go [] [] MWs s.
Definition lex_group (s : string) : option sexp :=
  match lex s with Some (SList l) => Some (SList l) | _ => None end.

(* what UPPDDLReader does with the text of an expression *)
Definition parse_text (E : env) (t : string) : option expr :=
  match lex (prep t) with Some s => parse E [] s | None => None end.

(* ------------------------------------------------------------------ layout *)
Fixpoint cat (items : list (string * string)) : string :=
  match items with [] => "" | (t, w) :: r => t ++ w ++ cat r end.
(* "(" item1 sep1 item2 sep2 ... itemN sepN ")" *)
Definition tl (items : list (string * string)) : string := String "(" (cat items ++ ")").
(* single blanks between the items, nothing after the last one:  "(" + " ".join(items) + ")" *)
Fixpoint sepd (l : list string) : list (string * string) :=
  match l with [] => [] | [x] => [(x, "")] | x :: r => (x, " ") :: sepd r end.
Definition tlist (l : list string) : string := tl (sepd l).

(* canonical text of an S-expression: single blanks *)
Fixpoint show (s : sexp) : string :=
  match s with Atom a => a | SList l => tlist (map show l) end.

Definition okc (c : ascii) : bool :=
  negb (is_delim c) && negb (Ascii.eqb c ";") && Ascii.eqb (prep_char c) c.
Fixpoint all_c (p : ascii -> bool) (s : string) : bool :=
  match s with EmptyString => true | String c r => p c && all_c p r end.
(* a token that survives [prep] and the tokenisation: not empty, no white space / parenthesis / semicolon / tab /
   upper-case letter *)
Definition name_ok (a : string) : bool := negb (a =? "") && all_c okc a.
(* the weaker condition for the tokenisation alone *)
Definition atom_ok (a : string) : bool :=
  negb (a =? "") && all_c (fun c => negb (is_delim c) && negb (Ascii.eqb c ";")) a.
Fixpoint atoms_ok (s : sexp) : bool :=
  match s with Atom a => atom_ok a | SList l => forallb atoms_ok l end.

(* ------------------------------------------------------------------ the converter's text *)
Definition var_toks (nm : naming) (vs : list (N * N)) : list string :=
  flat_map (fun vt => [qvar nm (fst vt); "-"; nm_ty nm (snd vt)]) vs.

Definition chain_text (op : string) (ts : list string) : option string :=
  match ts with
  | a :: ((_ :: _) as r) => Some (fold_left (fun x y => tlist [op; y; x]) r a)
  | _ => None
  end.

Definition nary_text (op : string) (ts : list string) : option string :=
  match ts with _ :: _ :: _ => Some (tlist (op :: ts)) | _ => None end.

Fixpoint print_text (nm : naming) (e : expr) {struct e} : option string :=
  let un op a := match print_text nm a with Some x => Some (tlist [op; x]) | None => None end in
  let bin op a b := match print_text nm a, print_text nm b with
                    | Some x, Some y => Some (tlist [op; x; y]) | _, _ => None end in
  let quant op vs a :=
    match print_text nm a with
    | Some x => Some (tl [(op, " "); (tlist (var_toks nm vs), String nl " "); (x, "")])
    | None => None end in
  match e with
  | EBool _ => None
  | EInt z => Some (show_Z z)
  | EReal q => show_real q
  | EObj o => Some (nm_obj nm o)
  | EParam p => Some (qpar nm p)
  | EVar v _ => Some (qvar nm v)
  | EFluent f args =>
      match sequence (map (print_text nm) args) with Some ts => Some (tlist (nm_fl nm f :: ts)) | None => None end
  | EIFun _ _ => None
  | EAnd l => match sequence (map (print_text nm) l) with Some ts => nary_text "and" ts | None => None end
  | EOr l => match sequence (map (print_text nm) l) with Some ts => nary_text "or" ts | None => None end
  | ENot a => un "not" a
  | EImplies a b => bin "imply" a b
  | EIff a b =>
      match print_text nm a, print_text nm b with
      | Some x, Some y => Some (tl [("and", " "); (tlist ["imply"; x; y], " "); (tlist ["imply"; y; x], " ")])
      | _, _ => None
      end
  | EExists vs a => quant "exists" vs a
  | EForall vs a => quant "forall" vs a
  | EPlus l => match sequence (map (print_text nm) l) with Some ts => chain_text "+" ts | None => None end
  | EMinus a b => bin "-" a b
  | ETimes l => match sequence (map (print_text nm) l) with Some ts => chain_text "*" ts | None => None end
  | EDiv a b => bin "/" a b
  | ELe a b => bin "<=" a b
  | ELt a b => bin "<" a b
  | EEquals a b => bin "=" a b
  | EAlways a => un "always" a
  | ESometime a => un "sometime" a
  | ESometimeBefore a b => bin "sometime-before" a b
  | ESometimeAfter a b => bin "sometime-after" a b
  | EAtMostOnce a => un "at-most-once" a
  end.
