(* Executable model of unified_planning/model/expression.py : ExpressionManager (hash-consing table + constructors)
   and unified_planning/model/fnode.py : FNodeContent / FNode.

   Mirrors:
     FNodeContent(node_type, args, payload)        -> [content] = (op, child ids, payload)
     FNode(content, node_id, env)                  -> [node] (plus the type TypeChecker memoized for it)
     ExpressionManager.expressions / _next_free_id -> [state] (insertion-ordered list, like a dict; next free id)
     ExpressionManager.__init__                    -> [init]   (TRUE gets id 1, FALSE id 2)
     ExpressionManager.create_node                 -> [create_node]  (lookup; else new node, id += 1, insert,
                                                      type-check, and delete the entry again when that raises)
     uniform_numeric_constant / auto_promote       -> [promote], [promote_list]
     And Or Plus Times / Not / Implies Iff Minus Div LE GE LT GT Equals / Int Real Bool /
     FluentExp ObjectExp ParameterExp              -> [plan_of] + [step]
     TypeChecker.walk_* for these operators        -> [typecheck]  (fluent types restricted to bool, unbounded
                                                      int/real and user types; numeric types are then either a
                                                      point [v,v] or unbounded, which is all walk_div looks at)
   Children are node ids: FNode.__eq__ is identity and __hash__ the id, so a tuple of children compares like the
   list of their ids.  Fluents, objects and parameters are symbol numbers.  Fraction payloads are kept reduced
   (Python's Fraction always is), so Leibniz equality on [payload] is Python's == on payloads of one operator.
   Outside the model: floats that are not exact binary fractions of small size, Int(True) (bool is an int in
   Python), Timing/Presence/Dot/quantifier nodes, bounded fluent types. *)
From Coq Require Import List ZArith NArith QArith Bool.
Import ListNotations.
Open Scope N_scope.

Inductive op :=
| OBool | OInt | OReal | OFluent | OParam | OObj
| OAnd | OOr | ONot | OImplies | OIff
| OPlus | OMinus | OTimes | ODiv | OLE | OLT | OEquals.

Definition op_code (o : op) : N :=
  match o with
  | OBool => 0 | OInt => 1 | OReal => 2 | OFluent => 3 | OParam => 4 | OObj => 5
  | OAnd => 6 | OOr => 7 | ONot => 8 | OImplies => 9 | OIff => 10
  | OPlus => 11 | OMinus => 12 | OTimes => 13 | ODiv => 14 | OLE => 15 | OLT => 16 | OEquals => 17
  end.
Definition op_eqb (a b : op) : bool := op_code a =? op_code b.

Inductive payload :=
| PNone
| PBool (b : bool)
| PInt (z : Z)
| PReal (num : Z) (den : positive)     (* a reduced Fraction with any denominator (Real(Fraction(2,1)) is legal) *)
| PSym (s : N).                        (* Fluent / Object / Parameter *)

Definition payload_eqb (a b : payload) : bool :=
  match a, b with
  | PNone, PNone => true
  | PBool x, PBool y => Bool.eqb x y
  | PInt x, PInt y => (x =? y)%Z
  | PReal n d, PReal n' d' => (n =? n')%Z && (d =? d')%positive
  | PSym x, PSym y => x =? y
  | _, _ => false
  end.

Fixpoint ids_eqb (a b : list N) : bool :=
  match a, b with
  | [], [] => true
  | x :: a', y :: b' => (x =? y) && ids_eqb a' b'
  | _, _ => false
  end.

Definition content := (op * list N * payload)%type.
Definition content_eqb (a b : content) : bool :=
  match a, b with
  | (o, l, p), (o', l', p') => op_eqb o o' && ids_eqb l l' && payload_eqb p p'
  end.

(* ---- types, as far as TypeChecker's verdict on these operators depends on them ---- *)
Inductive ty :=
| TBool
| TNum (real : bool) (pt : option Q)   (* int/real; Some v: lower_bound = upper_bound = v; None: no bound at all *)
| TUser (t : N).

Record node := {
  n_id : N;
  n_op : op;
  n_args : list N;
  n_pay : payload;
  n_ty : option ty     (* type_checker.memoization[n]; None = the walk returned None (ill-typed) *)
}.
Definition content_of (n : node) : content := (n_op n, n_args n, n_pay n).

Record state := { tbl : list node; next_id : N }.

Fixpoint find_content (c : content) (t : list node) : option node :=      (* self.expressions.get(content) *)
  match t with
  | [] => None
  | n :: t' => if content_eqb (content_of n) c then Some n else find_content c t'
  end.

Fixpoint find_id (i : N) (t : list node) : option node :=
  match t with
  | [] => None
  | n :: t' => if n_id n =? i then Some n else find_id i t'
  end.

Definition remove_content (c : content) (t : list node) : list node :=   (* del self.expressions[content] *)
  filter (fun n => negb (content_eqb (content_of n) c)) t.

Inductive err :=
| EType       (* UPTypeError *)
| EZeroDiv    (* ZeroDivisionError out of TypeChecker.walk_div *)
| EArity      (* UPExpressionDefinitionError (FluentExp arity) *)
| EBadRef.    (* model only: a call that mentions a node id / symbol that does not exist *)

Inductive result := Ok (i : N) | Err (e : err).
Inductive tcres := TOk (t : ty) | TErr (e : err).

Definition true_id : N := 1.     (* self.true_expression  *)
Definition false_id : N := 2.    (* self.false_expression *)

(* ------------------------------------------------------------------------------------------------ *)
Section Manager.
  (* [tc table content]: the verdict of environment.type_checker.get_type on a new node with that content.
     [ar f]: arity of fluent f.  The hash-consing theorems hold for every such pair; the concrete ones are
     [typecheck D] and [arity D] below. *)
  Variable tc : list node -> content -> tcres.
  Variable ar : N -> option nat.

  (* ExpressionManager.create_node *)
  Definition create_node (st : state) (c : content) : state * result :=
    match find_content c (tbl st) with
    | Some n => (st, Ok (n_id n))
    | None =>
        let id := next_id st in
        let r := tc (tbl st) c in
        let n := {| n_id := id; n_op := fst (fst c); n_args := snd (fst c); n_pay := snd c;
                    n_ty := match r with TOk t => Some t | TErr _ => None end |} in
        let tbl1 := tbl st ++ [n] in                                  (* self.expressions[content] = n *)
        match r with
        | TOk _ => ({| tbl := tbl1; next_id := N.succ id |}, Ok id)
        | TErr e => ({| tbl := remove_content c tbl1; next_id := N.succ id |}, Err e)   (* del ...; raise *)
        end
    end.

  (* ExpressionManager.__init__ *)
  Definition init : state :=
    let st0 := {| tbl := []; next_id := 1 |} in
    let st1 := fst (create_node st0 (OBool, [], PBool true)) in
    fst (create_node st1 (OBool, [], PBool false)).

  (* what a constructor may be given where an expression is expected *)
  Inductive arg :=
  | ANode (i : N)          (* an FNode of this environment *)
  | ABool (b : bool)
  | AInt (z : Z)           (* a Python int, or a string that int() accepts *)
  | ANum (q : Q)           (* a Fraction, an exact float, a string "n/d" or "i.f": the rational it denotes *)
  | AFluent (f : N)        (* a Fluent object: FluentExp(f) without parameters *)
  | AObject (o : N)
  | AParam (p : N).

  (* uniform_numeric_constant: integral => int, otherwise the reduced Fraction *)
  Definition uniform (q : Q) : Z + Q :=
    let r := Qred q in
    if (Qden r =? 1)%positive then inl (Qnum r) else inr r.

  Definition int_content (z : Z) : content := (OInt, [], PInt z).
  Definition real_content (q : Q) : content := let r := Qred q in (OReal, [], PReal (Qnum r) (Qden r)).

  (* one element of auto_promote *)
  Definition promote (st : state) (a : arg) : state * result :=
    match a with
    | ANode i => match find_id i (tbl st) with Some _ => (st, Ok i) | None => (st, Err EBadRef) end
    | ABool b => (st, Ok (if b then true_id else false_id))
    | AInt z => create_node st (int_content z)
    | ANum q => match uniform q with
                | inl z => create_node st (int_content z)
                | inr r => create_node st (real_content r)
                end
    | AFluent f => match ar f with
                   | Some O => create_node st (OFluent, [], PSym f)
                   | Some (S _) => (st, Err EArity)
                   | None => (st, Err EBadRef)
                   end
    | AObject o => create_node st (OObj, [], PSym o)
    | AParam p => create_node st (OParam, [], PSym p)
    end.

  (* auto_promote: left to right; an exception stops it, the nodes created so far stay *)
  Fixpoint promote_list (st : state) (l : list arg) : state * (list N + err) :=
    match l with
    | [] => (st, inl [])
    | a :: l' =>
        match promote st a with
        | (st1, Err e) => (st1, inr e)
        | (st1, Ok i) =>
            match promote_list st1 l' with
            | (st2, inl ids) => (st2, inl (i :: ids))
            | (st2, inr e) => (st2, inr e)
            end
        end
    end.

  Inductive nop := NAnd | NOr | NPlus | NTimes.
  Inductive bop := BImplies | BIff | BMinus | BDiv | BLE | BGE | BLT | BGT | BEquals.

  Inductive call :=
  | KNary (o : nop) (args : list arg)
  | KNot (a : arg)
  | KBin (o : bop) (a b : arg)
  | KInt (z : Z)
  | KReal (q : Q)
  | KBool (b : bool)
  | KFluentExp (f : N) (args : list arg)
  | KObjectExp (o : N)
  | KParamExp (p : N).

  Definition call_args (k : call) : list arg :=
    match k with
    | KNary _ l => l
    | KNot a => [a]
    | KBin _ a b => [a; b]
    | KFluentExp _ l => l
    | _ => []
    end.

  Definition nop_op (o : nop) : op := match o with NAnd => OAnd | NOr => OOr | NPlus => OPlus | NTimes => OTimes end.

  (* GE and GT are LE and LT with the (promoted) arguments swapped *)
  Definition bin_content (o : bop) (a b : N) : content :=
    match o with
    | BImplies => (OImplies, [a; b], PNone)
    | BIff => (OIff, [a; b], PNone)
    | BMinus => (OMinus, [a; b], PNone)
    | BDiv => (ODiv, [a; b], PNone)
    | BLE => (OLE, [a; b], PNone)
    | BGE => (OLE, [b; a], PNone)
    | BLT => (OLT, [a; b], PNone)
    | BGT => (OLT, [b; a], PNone)
    | BEquals => (OEquals, [a; b], PNone)
    end.

  (* what the constructor does after auto_promote: return an existing node, or call create_node *)
  Inductive plan := PRet (i : N) | PCreate (c : content) | PErr (e : err).

  Definition plan_of (t : list node) (k : call) (ids : list N) : plan :=
    match k with
    | KNary o _ =>
        match ids with
        | [] => match o with
                | NAnd => PRet true_id                (* self.TRUE()  *)
                | NOr => PRet false_id                (* self.FALSE() *)
                | NPlus => PCreate (int_content 0)    (* self.Int(0)  *)
                | NTimes => PCreate (int_content 1)   (* self.Int(1)  *)
                end
        | [i] => PRet i
        | _ => PCreate (nop_op o, ids, PNone)
        end
    | KNot _ =>
        match ids with
        | [i] => match find_id i t with
                 | Some n => match n_op n, n_args n with
                             | ONot, j :: _ => PRet j                 (* expression.is_not(): expression.arg(0) *)
                             | _, _ => PCreate (ONot, [i], PNone)
                             end
                 | None => PErr EBadRef
                 end
        | _ => PErr EBadRef
        end
    | KBin o _ _ =>
        match ids with
        | [a; b] => PCreate (bin_content o a b)
        | _ => PErr EBadRef
        end
    | KInt z => PCreate (int_content z)
    | KReal q => PCreate (real_content q)            (* Real() does NOT turn an integral Fraction into an Int *)
    | KBool b => PRet (if b then true_id else false_id)
    | KFluentExp f _ =>
        match ar f with
        | Some n => if Nat.eqb n (length ids) then PCreate (OFluent, ids, PSym f) else PErr EArity
        | None => PErr EBadRef
        end
    | KObjectExp o => PCreate (OObj, [], PSym o)
    | KParamExp p => PCreate (OParam, [], PSym p)
    end.

  Definition exec (st : state) (p : plan) : state * result :=
    match p with
    | PRet i => (st, Ok i)
    | PCreate c => create_node st c
    | PErr e => (st, Err e)
    end.

  (* one constructor call *)
  Definition step (st : state) (k : call) : state * result :=
    match promote_list st (call_args k) with
    | (st1, inr e) => (st1, Err e)
    | (st1, inl ids) => exec st1 (plan_of (tbl st1) k ids)
    end.

  (* a construction history; failing calls are ordinary members of the list *)
  Definition run (st : state) (ks : list call) : state := fold_left (fun s k => fst (step s k)) ks st.

  Fixpoint run_obs (st : state) (ks : list call) : list (result * option node) :=
    match ks with
    | [] => []
    | k :: ks' =>
        let (st1, r) := step st k in
        (r, match r with Ok i => find_id i (tbl st1) | Err _ => None end) :: run_obs st1 ks'
    end.
End Manager.

(* ------------------------------------------------------------------------------------------------ *)
(* declarations of the environment the expressions are built over *)
(* types a fluent parameter may have (Fluent.__init__ insists on finite domains) *)
Inductive pty := PtBool | PtInt (lo hi : Z) | PtUser (t : N).

Record decls := {
  d_fluents : list (N * (list pty * ty));    (* fluent -> (signature, type) *)
  d_objects : list (N * N);                  (* object -> user type *)
  d_params : list (N * ty);                  (* parameter -> type *)
  d_ancestors : list (N * list N)            (* user type -> _UserType.ancestors (itself first) *)
}.

Fixpoint assoc {A} (k : N) (l : list (N * A)) : option A :=
  match l with
  | [] => None
  | (k', v) :: l' => if k =? k' then Some v else assoc k l'
  end.

Definition arity (D : decls) (f : N) : option nat :=
  match assoc f (d_fluents D) with Some (sg, _) => Some (length sg) | None => None end.

Definition ancestors (D : decls) (t : N) : list N :=
  match assoc t (d_ancestors D) with Some l => l | None => [t] end.

Definition memN (x : N) (l : list N) : bool := existsb (N.eqb x) l.

(* is_compatible_type(t_left, t_right) for declared (unbounded) left types *)
Definition compat (D : decls) (l r : ty) : bool :=
  match l, r with
  | TBool, TBool => true
  | TUser a, TUser b => memN a (ancestors D b)
  | TNum lr None, TNum rr _ => lr || negb rr
  | _, _ => false
  end.

(* param.type.is_compatible(arg) in walk_fluent_exp: numeric compatibility is interval OVERLAP *)
Definition compat_param (D : decls) (p : pty) (t : ty) : bool :=
  match p, t with
  | PtBool, TBool => true
  | PtUser a, TUser b => memN a (ancestors D b)
  | PtInt lo hi, TNum false None => true
  | PtInt lo hi, TNum false (Some v) => Qle_bool (inject_Z lo) v && Qle_bool v (inject_Z hi)
  | _, _ => false
  end.

Definition is_num (t : ty) : bool := match t with TNum _ _ => true | _ => false end.
Definition is_real (t : ty) : bool := match t with TNum true _ => true | _ => false end.
Definition is_bool (t : ty) : bool := match t with TBool => true | _ => false end.
Definition pt_of (t : ty) : option Q := match t with TNum _ p => p | _ => None end.

Fixpoint all_pts (l : list ty) : option (list Q) :=
  match l with
  | [] => Some []
  | t :: l' => match pt_of t, all_pts l' with Some v, Some vs => Some (v :: vs) | _, _ => None end
  end.

Fixpoint forall2b {A B} (f : A -> B -> bool) (a : list A) (b : list B) : bool :=
  match a, b with
  | [], [] => true
  | x :: a', y :: b' => f x y && forall2b f a' b'
  | _, _ => false
  end.

Fixpoint child_types (t : list node) (ids : list N) : option (list ty) :=
  match ids with
  | [] => Some []
  | i :: ids' =>
      match find_id i t with
      | Some n => match n_ty n, child_types t ids' with Some ty0, Some l => Some (ty0 :: l) | _, _ => None end
      | None => None
      end
  end.

Definition common_ancestor (D : decls) (a b : N) : bool := existsb (fun x => memN x (ancestors D b)) (ancestors D a).

(* TypeChecker.walk_equals: the loop body for one argument x, first argument's type t; false = "return None" *)
Definition equals_arg_ok (D : decls) (t x : ty) : bool :=
  match t, x with
  | TUser a, TUser b => (a =? b) || compat D t x || compat D x t || common_ancestor D a b
  | TUser _, _ => false                (* a user-typed term is comparable only with a user-typed term ... *)
  | _, TUser _ => false                (* ... whichever side it is on *)
  | _, _ => is_num x                   (* t numeric: x must be numeric (bool t raised before) *)
  end.

(* TypeChecker.walk_times on point-or-unbounded operands: _bound_product multiplies finite bounds exactly and
   takes 0 * inf = 0, so a factor that is the point 0 makes the product the point 0 *)
Definition times_step (acc x : option Q) : option Q :=
  match acc, x with
  | Some a, Some b => Some (Qred (a * b))
  | Some a, None => if Qeq_bool a 0 then Some 0%Q else None
  | None, Some b => if Qeq_bool b 0 then Some 0%Q else None
  | None, None => None
  end.

Definition times_pt (tys : list ty) : option Q :=
  match tys with
  | [] => None
  | t0 :: rest => fold_left (fun acc t => times_step acc (pt_of t)) rest (pt_of t0)
  end.

Definition typecheck (D : decls) (t : list node) (c : content) : tcres :=
  match c with
  | (o, ids, p) =>
    match child_types t ids with
    | None => TErr EType
    | Some tys =>
      match o with
      | OBool => TOk TBool
      | OInt => match p with PInt z => TOk (TNum false (Some (inject_Z z))) | _ => TErr EType end
      | OReal => match p with PReal n d => TOk (TNum true (Some (Qmake n d))) | _ => TErr EType end
      | OFluent =>
          match p with
          | PSym f => match assoc f (d_fluents D) with
                      | Some (sg, rt) => if forall2b (compat_param D) sg tys then TOk rt else TErr EType
                      | None => TErr EType
                      end
          | _ => TErr EType
          end
      | OParam => match p with PSym s => match assoc s (d_params D) with Some ty0 => TOk ty0 | None => TErr EType end
                             | _ => TErr EType end
      | OObj => match p with PSym s => match assoc s (d_objects D) with Some u => TOk (TUser u) | None => TErr EType end
                           | _ => TErr EType end
      | OAnd | OOr | ONot | OImplies | OIff =>                       (* walk_bool_to_bool *)
          if forallb is_bool tys then TOk TBool else TErr EType
      | OPlus =>
          if forallb is_num tys
          then TOk (TNum (existsb is_real tys)
                         (match all_pts tys with Some vs => Some (Qred (fold_left Qplus vs 0%Q)) | None => None end))
          else TErr EType
      | OTimes =>
          if forallb is_num tys
          then TOk (TNum (existsb is_real tys) (times_pt tys))
          else TErr EType
      | OMinus =>
          match tys with
          | [a; b] => if is_num a && is_num b
                      then TOk (TNum (is_real a || is_real b)
                                     (match pt_of a, pt_of b with Some x, Some y => Some (Qred (x - y)%Q) | _, _ => None end))
                      else TErr EType
          | _ => TErr EType
          end
      | ODiv =>
          match tys with
          | [a; b] => if is_num a && is_num b
                      then match pt_of a, pt_of b with
                           | Some x, Some y => if Qeq_bool y 0 then TErr EZeroDiv else TOk (TNum true (Some (Qred (x / y)%Q)))
                           | _, _ => TOk (TNum true None)          (* to_skip *)
                           end
                      else TErr EType
          | _ => TErr EType
          end
      | OLE | OLT => if forallb is_num tys then TOk TBool else TErr EType
      | OEquals =>
          match tys with
          | t0 :: _ => if is_bool t0 then TErr EType                  (* raise UPTypeError: use Iff *)
                       else if forallb (equals_arg_ok D t0) tys then TOk TBool else TErr EType
          | [] => TErr EType
          end
      end
    end
  end.
