(* The EXPRESSION layer of the ANML codec (property C19), over the shared IR Core/Expr.v.

   Printer  : unified_planning/io/anml_writer.py, class ConverterToANMLString (walk_* methods; the text is a
              sequence of the tokens below, white space is irrelevant to the grammar).  [pr] mirrors `walk` (NOT
              `convert`, which first calls the Simplifier: that step is property C11's subject).
   Parser   : unified_planning/io/anml_grammar.py (the three nested pyparsing `infix_notation` tables
              arithmetic_expression / relations_expression / boolean_expression, `group_binary`, `fluent_ref`,
              `quantified_expression_def`) followed by ANMLReader._parse_expression (anml_reader.py), which turns the
              ParseResults tree into an FNode through the ExpressionManager.  [go] does both at once: it is a
              recursive-descent parser with one state per precedence level which builds the expression the reader
              would build (the last `res.simplify()` of _parse_expression is NOT part of the model: C11 again).

   Names: the writer keeps `names_mapping` (object -> ANML identifier, always fresh: _get_anml_name); the reader
   resolves an identifier by looking it up, in this order, in the quantifier variables in scope, the action
   parameters, the problem's fluents, the problem's objects (_parse_expression, `elif first_elem in ...` chain).
   Identifiers are numbers here ([TName s]); both maps are parameters (records [wnames] / [rtables]). *)
From Coq Require Import List ZArith NArith QArith Qcanon Bool.
Import ListNotations.
Require Import UPV.Core.Expr.
Local Open Scope nat_scope.

(* ------------------------------------------------------------------------------------------------ tokens *)
Inductive token :=
| TLp | TRp | TLb | TRb | TComma | TSemi                       (* ( ) { } , ; *)
| TAnd | TOr | TXor | TNot | TImplies | TForall | TExists | TTrue | TFalse   (* keywords *)
| TPlus | TMinus | TTimes | TDiv
| TLe | TLt | TGe | TGt | TEq | TNeq                           (* <= < >= > == != *)
| TNum (n : N)                                                 (* Word(nums): an unsigned integer literal *)
| TName (s : N)                                                (* identifier (number of the string) *)
(* tokens of the statement layer (Model/AnmlStmt.v); the expression parser stops at them *)
| TStart | TEnd | TLsq | TRsq | TAssign | TIncrease | TDecrease | TWhen.   (* start end [ ] := :increase :decrease when *)
(* Not modelled: decimal literals "1.5" (the writer never prints one: reals are printed "(n/d)"), timing words
   start/end/all, assignments, `when`. *)

(* ------------------------------------------------------------------------------------------------ names *)
(* writer side: names_mapping, per kind of object *)
Record wnames := {
  nmF : N -> N;      (* fluent id -> identifier *)
  nmP : N -> N;      (* parameter id *)
  nmO : N -> N;      (* object id *)
  nmV : N -> N;      (* variable id *)
  nmT : N -> N       (* user type id *)
}.
(* reader side: what the reader has in its tables when it meets the expression *)
Record rtables := {
  tyOf : N -> option N;            (* types_map: identifier -> user type id *)
  parOf : N -> option N;           (* `parameters`: identifier -> parameter id *)
  fluOf : N -> option (N * nat);   (* self._problem.fluent(name): fluent id and arity *)
  objOf : N -> option N;           (* self._problem.object(name) *)
  varOf : N -> N;                  (* the IR id of Variable(identifier, type) (harness: inverse renaming) *)
  fbool : N -> bool;               (* fluent id has Boolean type *)
  pbool : N -> bool                (* parameter id has Boolean type *)
}.

(* ------------------------------------------------------------------------------------------------ printer *)
Fixpoint join (sep : token) (l : list (list token)) : list token :=
  match l with
  | [] => []
  | [x] => x
  | x :: l' => x ++ sep :: join sep l'
  end.

(* str(int): a negative integer is "-" followed by digits *)
Definition pr_int (z : Z) : list token :=
  if (z <? 0)%Z then [TMinus; TNum (Z.to_N (- z))] else [TNum (Z.to_N z)].

Section Printer.
  Variable W : wnames.

  (* "T v, T v, ..." of walk_exists / walk_forall *)
  Definition pr_vars (vs : list (N * N)) : list token :=
    join TComma (map (fun p => [TName (nmT W (snd p)); TName (nmV W (fst p))]) vs).

  Fixpoint pr (e : expr) : list token :=
    match e with
    | EBool true => [TTrue]                                               (* walk_bool_constant *)
    | EBool false => [TFalse]
    | EInt z => pr_int z                                                  (* walk_int_constant *)
    | EReal q => TLp :: pr_int (Qnum (this q)) ++ [TDiv; TNum (Npos (Qden (this q))); TRp]   (* walk_real_constant *)
    | EObj o => [TName (nmO W o)]                                         (* walk_object_exp *)
    | EParam p => [TName (nmP W p)]                                       (* walk_param_exp *)
    | EVar v _ => [TName (nmV W v)]                                       (* walk_variable_exp *)
    | EFluent f [] => [TName (nmF W f)]                                   (* walk_fluent_exp *)
    | EFluent f args => TName (nmF W f) :: TLp :: join TComma (map pr args) ++ [TRp]
    | EAnd l => TLp :: join TAnd (map pr l) ++ [TRp]                      (* walk_and *)
    | EOr l => TLp :: join TOr (map pr l) ++ [TRp]                        (* walk_or *)
    | ENot a => TLp :: TNot :: pr a ++ [TRp]                              (* walk_not *)
    | EImplies a b => TLp :: pr a ++ TImplies :: pr b ++ [TRp]            (* walk_implies *)
    | EIff a b =>                                                         (* walk_iff *)
        TLp :: TLp :: pr a ++ TImplies :: pr b ++ [TRp; TAnd; TLp] ++ pr b ++ TImplies :: pr a ++ [TRp; TRp]
    | EExists vs a => TLp :: TExists :: TLp :: pr_vars vs ++ [TRp; TLb] ++ pr a ++ [TSemi; TRb; TRp]
    | EForall vs a => TLp :: TForall :: TLp :: pr_vars vs ++ [TRp; TLb] ++ pr a ++ [TSemi; TRb; TRp]
    | EPlus l => TLp :: join TPlus (map pr l) ++ [TRp]                    (* walk_plus *)
    | EMinus a b => TLp :: pr a ++ TMinus :: pr b ++ [TRp]
    | ETimes l => TLp :: join TTimes (map pr l) ++ [TRp]
    | EDiv a b => TLp :: pr a ++ TDiv :: pr b ++ [TRp]
    | ELe a b => TLp :: pr a ++ TLe :: pr b ++ [TRp]
    | ELt a b => TLp :: pr a ++ TLt :: pr b ++ [TRp]
    | EEquals a b => TLp :: pr a ++ TEq :: pr b ++ [TRp]
    | _ => []      (* no walk_ method: interpreted functions, trajectory constraints (outside the fragment) *)
    end.
End Printer.

(* ------------------------------------------------------------------------------------------------ parser *)
(* Which of the three nested grammars accepted a piece of text.  A parenthesised group is an operand of an
   arithmetic operator only if its content is an arithmetic_expression (TA), of a relation only if it is a
   relations_expression (<= TR); not / and / or / xor / implies take anything. *)
Inductive tier := TA | TR | TB.
Definition tier_le_R (t : tier) : bool := match t with TB => false | _ => true end.
Definition tier_is_A (t : tier) : bool := match t with TA => true | _ => false end.

Inductive res :=
| Ok (e : expr) (t : tier) (r : list token)
| OkL (es : list expr) (r : list token)
| Fail          (* pyparsing ParseException / reader error *)
| OOF.          (* out of fuel: excluded by the theorems *)

(* parser states = precedence levels, loosest first *)
Inductive st :=
| SImp                              (* (TK_IMPLIES, 2, RIGHT) *)
| SAndOr                            (* (and | or | xor, 2, LEFT, group_binary) *)
| SAndOrL (a : expr) (t : tier)     (*   ... the (op operand)* loop, a = tree folded so far *)
| SNot                              (* (TK_NOT, 1, RIGHT) *)
| SRel                              (* quantified_expression | relations_expression: (relop, 2, LEFT, group_binary) *)
| SRelL (a : expr) (t : tier)
| SAdd                              (* (+ | -, 2, LEFT, group_binary) *)
| SAddL (a : expr) (t : tier)
| SMul                              (* ( * | /, 2, LEFT, group_binary) *)
| SMulL (a : expr) (t : tier)
| SUn                               (* (+ | -, 1, RIGHT) *)
| SAtom                             (* boolean_const | float_const | fluent_ref | "(" expression ")" *)
| SArgs (acc : list expr)           (* expression_list inside fluent_ref, up to ")" *)
| SBody (acc : list expr).          (* OneOrMore(expression ";") "}" of a quantifier *)

(* parameter_list of a quantifier, up to ")": pairs (type identifier, variable identifier) *)
Fixpoint pvars (ts : list token) : option (list (N * N) * list token) :=
  match ts with
  | TName t :: TName v :: TComma :: r =>
      match pvars r with Some (l, r') => Some ((t, v) :: l, r') | None => None end
  | TName t :: TName v :: TRp :: r => Some ([(t, v)], r)
  | _ => None
  end.

(* Python dict semantics of `{n: Variable(n, t) ...}`: a repeated key keeps its first position, last value *)
Fixpoint dict_set (d : list (N * N)) (k v : N) : list (N * N) :=
  match d with
  | [] => [(k, v)]
  | (k', v') :: d' => if (k =? k')%N then (k, v) :: d' else (k', v') :: dict_set d' k v
  end.
Definition dict_of (l : list (N * N)) : list (N * N) := fold_left (fun d p => dict_set d (fst p) (snd p)) l [].

Fixpoint lookup (sc : list (N * N)) (s : N) : option N :=
  match sc with
  | [] => None
  | (k, v) :: sc' => if (s =? k)%N then Some v else lookup sc' s
  end.

Section Parser.
  Variable R : rtables.

  (* _parse_parameters_def: every type identifier must be in types_map; result (variable identifier, type id) *)
  Fixpoint decl_types (l : list (N * N)) : option (list (N * N)) :=
    match l with
    | [] => Some []
    | (t, v) :: l' =>
        match tyOf R t, decl_types l' with
        | Some ty, Some d => Some ((v, ty) :: d)
        | _, _ => None
        end
    end.

  (* the syntactic type test `first_arg.type.is_bool_type()` used for "==" *)
  Definition is_bool (e : expr) : bool :=
    match e with
    | EBool _ | EAnd _ | EOr _ | ENot _ | EImplies _ _ | EIff _ _ | EExists _ _ | EForall _ _
    | ELe _ _ | ELt _ _ | EEquals _ _ => true
    | EFluent f _ => fbool R f
    | EParam p => pbool R p
    | _ => false
    end.

  (* _parse_expression, `len(exp) == 2` branch with a string first: variable, parameter, fluent, object *)
  Definition resolve (sc : list (N * N)) (s : N) (args : list expr) (r : list token) : res :=
    match lookup sc s with
    | Some ty => match args with [] => Ok (EVar (varOf R s) ty) TA r | _ => Fail end
    | None =>
        match parOf R s with
        | Some p => match args with [] => Ok (EParam p) TA r | _ => Fail end
        | None =>
            match fluOf R s with
            | Some (f, ar) => if Nat.eqb (length args) ar then Ok (EFluent f args) TA r else Fail
            | None =>
                match objOf R s with
                | Some o => match args with [] => Ok (EObj o) TA r | _ => Fail end
                | None => Fail
                end
            end
        end
    end.
  (* NOTE: with a wrong number of arguments the real reader pops the wrong operands from its `solved` stack (an
     IndexError, a failed assertion or a wrong tree); the model says Fail.  The writer never prints such text. *)

  Definition xor2 (a b : expr) : expr := EAnd [EOr [a; b]; EOr [mkNot a; mkNot b]].   (* self._operators[TK_XOR] *)

  Definition quant (ex : bool) (d : list (N * N)) (body : list expr) : expr :=
    let vs := map (fun p => (varOf R (fst p), snd p)) d in
    if ex then EExists vs (mkAnd body) else EForall vs (mkAnd body).

  Fixpoint go (n : nat) (s : st) (sc : list (N * N)) (ts : list token) {struct n} : res :=
    match n with
    | O => OOF
    | S n =>
      match s with
      | SImp =>
          match go n SAndOr sc ts with
          | Ok a ta (TImplies :: r) =>
              match go n SImp sc r with
              | Ok b _ r' => Ok (EImplies a b) TB r'
              | OkL _ _ => Fail
              | x => x
              end
          | x => x
          end
      | SAndOr =>
          match go n SNot sc ts with
          | Ok a ta r => go n (SAndOrL a ta) sc r
          | x => x
          end
      | SAndOrL a ta =>
          match ts with
          | TAnd :: r =>
              match go n SNot sc r with
              | Ok b _ r' => go n (SAndOrL (EAnd [a; b]) TB) sc r'
              | OkL _ _ => Fail
              | x => x
              end
          | TOr :: r =>
              match go n SNot sc r with
              | Ok b _ r' => go n (SAndOrL (EOr [a; b]) TB) sc r'
              | OkL _ _ => Fail
              | x => x
              end
          | TXor :: r =>
              match go n SNot sc r with
              | Ok b _ r' => go n (SAndOrL (xor2 a b) TB) sc r'
              | OkL _ _ => Fail
              | x => x
              end
          | _ => Ok a ta ts
          end
      | SNot =>
          match ts with
          | TNot :: r =>
              match go n SNot sc r with
              | Ok a _ r' => Ok (mkNot a) TB r'          (* em.Not: Not(Not(x)) = x *)
              | OkL _ _ => Fail
              | x => x
              end
          | _ => go n SRel sc ts
          end
      | SRel =>
          let qf (ex : bool) (r : list token) : res :=
            match pvars r with
            | Some (decls, TLb :: r1) =>
                match decl_types decls with
                | Some d =>
                    let d' := dict_of d in
                    match go n (SBody []) (d' ++ sc) r1 with
                    | OkL body r2 => Ok (quant ex d' body) TB r2
                    | Ok _ _ _ => Fail
                    | x => x
                    end
                | None => Fail
                end
            | _ => Fail
            end in
          match ts with
          | TForall :: TLp :: r => qf false r
          | TExists :: TLp :: r => qf true r
          | _ =>
              match go n SAdd sc ts with
              | Ok a ta r => go n (SRelL a ta) sc r
              | x => x
              end
          end
      | SRelL a ta =>
          let step (mk : expr -> expr -> expr) (r : list token) : res :=
            if tier_le_R ta then
              match go n SAdd sc r with
              | Ok b tb r' => if tier_le_R tb then go n (SRelL (mk a b) TR) sc r' else Fail
              | OkL _ _ => Fail
              | x => x
              end
            else Fail in
          match ts with
          | TLe :: r => step (fun a b => ELe a b) r
          | TLt :: r => step (fun a b => ELt a b) r
          | TGe :: r => step (fun a b => ELe b a) r                       (* em.GE(l, r) = LE(r, l) *)
          | TGt :: r => step (fun a b => ELt b a) r
          | TEq :: r => step (fun a b => if is_bool a then EIff a b else EEquals a b) r
          | TNeq :: r => step (fun a b => mkNot (EEquals a b)) r
          | _ => Ok a ta ts
          end
      | SAdd =>
          match go n SMul sc ts with
          | Ok a ta r => go n (SAddL a ta) sc r
          | x => x
          end
      | SAddL a ta =>
          let step (mk : expr -> expr -> expr) (r : list token) : res :=
            if tier_is_A ta then
              match go n SMul sc r with
              | Ok b tb r' => if tier_is_A tb then go n (SAddL (mk a b) TA) sc r' else Fail
              | OkL _ _ => Fail
              | x => x
              end
            else Fail in
          match ts with
          | TPlus :: r => step (fun a b => EPlus [a; b]) r
          | TMinus :: r => step (fun a b => EMinus a b) r
          | _ => Ok a ta ts
          end
      | SMul =>
          match go n SUn sc ts with
          | Ok a ta r => go n (SMulL a ta) sc r
          | x => x
          end
      | SMulL a ta =>
          let step (mk : expr -> expr -> expr) (r : list token) : res :=
            if tier_is_A ta then
              match go n SUn sc r with
              | Ok b tb r' => if tier_is_A tb then go n (SMulL (mk a b) TA) sc r' else Fail
              | OkL _ _ => Fail
              | x => x
              end
            else Fail in
          match ts with
          | TTimes :: r => step (fun a b => ETimes [a; b]) r
          | TDiv :: r => step (fun a b => EDiv a b) r
          | _ => Ok a ta ts
          end
      | SUn =>
          match ts with
          | TMinus :: r =>
              match go n SUn sc r with
              | Ok a ta r' => if tier_is_A ta then Ok (ETimes [EInt (-1); a]) TA r' else Fail   (* em.Times(-1, x) *)
              | OkL _ _ => Fail
              | x => x
              end
          | TPlus :: r =>
              match go n SUn sc r with
              | Ok a ta r' => if tier_is_A ta then Ok a TA r' else Fail                        (* unary plus: pass *)
              | OkL _ _ => Fail
              | x => x
              end
          | _ => go n SAtom sc ts
          end
      | SAtom =>
          match ts with
          | TTrue :: r => Ok (EBool true) TA r
          | TFalse :: r => Ok (EBool false) TA r
          | TNum k :: r => Ok (EInt (Z.of_N k)) TA r                       (* exp.isnumeric(): em.Int(int(exp)) *)
          | TLp :: r =>
              match go n SImp sc r with
              | Ok a ta (TRp :: r') => Ok a ta r'
              | Ok _ _ _ => Fail
              | OkL _ _ => Fail
              | x => x
              end
          | TName s :: TLp :: TRp :: r => resolve sc s [] r
          | TName s :: TLp :: r =>
              match go n (SArgs []) sc r with
              | OkL es r' => resolve sc s es r'
              | Ok _ _ _ => Fail
              | x => x
              end
          | TName s :: r => resolve sc s [] r
          | _ => Fail
          end
      | SArgs acc =>
          match go n SImp sc ts with
          | Ok a _ (TComma :: r) => go n (SArgs (a :: acc)) sc r
          | Ok a _ (TRp :: r) => OkL (rev (a :: acc)) r
          | Ok _ _ _ => Fail
          | OkL _ _ => Fail
          | x => x
          end
      | SBody acc =>
          match go n SImp sc ts with
          | Ok a _ (TSemi :: TRb :: r) => OkL (rev (a :: acc)) r
          | Ok a _ (TSemi :: r) => go n (SBody (a :: acc)) sc r
          | Ok _ _ _ => Fail
          | OkL _ _ => Fail
          | x => x
          end
      end
    end.

  (* enough fuel for every token list the printer produces (theorem parse_print) *)
  Definition fuel_of (ts : list token) : nat := 20 * length ts + 20.

  (* [sc]: the variables in scope at the start (the reader's `variables` argument: forall-effects), as
     (identifier, type id) *)
  Definition parse (sc : list (N * N)) (ts : list token) : option expr :=
    match go (fuel_of ts) SImp sc ts with
    | Ok e _ [] => Some e
    | _ => None
    end.
End Parser.

(* ------------------------------------------------------------------------------------------------ normal form *)
(* what the reader rebuilds from the printed text of [e] (identity wherever it rebuilds the same node) *)
Definition norm_int (z : Z) : expr :=
  if (z <? 0)%Z then ETimes [EInt (-1); EInt (- z)] else EInt z.        (* "-5" is unary minus applied to 5 *)

(* group_binary: a op b op c  =  ((a op b) op c) *)
Definition chain (mk : expr -> expr -> expr) (l : list expr) : expr :=
  match l with
  | [] => EBool true
  | x :: r => fold_left mk r x
  end.

Fixpoint norm (e : expr) : expr :=
  match e with
  | EInt z => norm_int z
  | EReal q => EDiv (norm_int (Qnum (this q))) (EInt (Zpos (Qden (this q))))   (* "(n/d)" is a division *)
  | EFluent f args => EFluent f (map norm args)
  | EAnd l => chain (fun a b => EAnd [a; b]) (map norm l)
  | EOr l => chain (fun a b => EOr [a; b]) (map norm l)
  | ENot a => mkNot (norm a)
  | EImplies a b => EImplies (norm a) (norm b)
  | EIff a b => EAnd [EImplies (norm a) (norm b); EImplies (norm b) (norm a)]
  | EExists vs a => EExists vs (norm a)
  | EForall vs a => EForall vs (norm a)
  | EPlus l => chain (fun a b => EPlus [a; b]) (map norm l)
  | EMinus a b => EMinus (norm a) (norm b)
  | ETimes l => chain (fun a b => ETimes [a; b]) (map norm l)
  | EDiv a b => EDiv (norm a) (norm b)
  | ELe a b => ELe (norm a) (norm b)
  | ELt a b => ELt (norm a) (norm b)
  | EEquals a b => EEquals (norm a) (norm b)
  | _ => e
  end.

(* ------------------------------------------------------------------------------------------------ fragment *)
Definition tier_of (e : expr) : tier :=
  match e with
  | EAnd _ | EOr _ | ENot _ | EImplies _ _ | EIff _ _ | EExists _ _ | EForall _ _ => TB
  | ELe _ _ | ELt _ _ | EEquals _ _ => TR
  | _ => TA
  end.
Definition arith (e : expr) : bool := tier_is_A (tier_of e).

Fixpoint nodupN (l : list N) : bool :=
  match l with [] => true | x :: l' => negb (memN x l') && nodupN l' end.

Section Fragment.
  Variable R : rtables.
  Variable arity : N -> nat.        (* arity of a fluent id *)

  (* [bs]: variables bound around the expression, innermost first, as (variable id, type id).
     Printable = the converter has a walk_ method and its assertions hold (n-ary operators have >= 2 operands,
     quantifiers >= 1 variable), fluent applications are saturated, operands of arithmetic / comparison operators
     are arithmetic terms and the left operand of == is not Boolean (both implied by well-typedness: Boolean
     equality is IFF), every variable is bound. *)
  Fixpoint anml_ok (bs : list (N * N)) (e : expr) : bool :=
    match e with
    | EBool _ | EInt _ | EReal _ | EObj _ | EParam _ => true
    | EVar v ty => match lookup bs v with Some t => (t =? ty)%N | None => false end
    | EFluent f args => forallb (anml_ok bs) args && Nat.eqb (length args) (arity f)
    | EAnd l | EOr l => forallb (anml_ok bs) l && Nat.leb 2 (length l)
    | EPlus l | ETimes l => forallb (anml_ok bs) l && forallb arith l && Nat.leb 2 (length l)
    | ENot a => anml_ok bs a
    | EImplies a b | EIff a b => anml_ok bs a && anml_ok bs b
    | EExists vs a | EForall vs a =>
        negb (match vs with [] => true | _ => false end) && nodupN (map fst vs) && anml_ok (vs ++ bs) a
    | EMinus a b | EDiv a b | ELe a b | ELt a b => anml_ok bs a && anml_ok bs b && arith a && arith b
    | EEquals a b => anml_ok bs a && anml_ok bs b && arith a && arith b && negb (is_bool R a)
    | _ => false
    end.
End Fragment.

(* print = the converter on the fragment, nothing outside it *)
Definition print (W : wnames) (R : rtables) (arity : N -> nat) (bs : list (N * N)) (e : expr)
  : option (list token) :=
  if anml_ok R arity bs e then Some (pr W e) else None.

(* the reader's variable scope that corresponds to the bound variables [bs] under the writer's names *)
Definition rscope (W : wnames) (bs : list (N * N)) : list (N * N) :=
  map (fun p => (nmV W (fst p), snd p)) bs.

(* no NOT directly under a NOT: an invariant of every FNode built through ExpressionManager.Not *)
Fixpoint nodneg (e : expr) : bool :=
  match e with
  | ENot a => negb (match a with ENot _ => true | _ => false end) && nodneg a
  | EFluent _ l | EAnd l | EOr l | EPlus l | ETimes l => forallb nodneg l
  | EImplies a b | EIff a b | EMinus a b | EDiv a b | ELe a b | ELt a b | EEquals a b => nodneg a && nodneg b
  | EExists _ a | EForall _ a => nodneg a
  | _ => true
  end.
